// C07 correspondence harness: drives the REAL FuncDetail::init / FuncFrame::init / FuncFrame::finalize and
// BaseEmitter::emit_prolog / emit_epilog of /repo's working tree.
//
// Protocol (stdin, one command per line, decimal numbers):
//   F arch plat cc nargs attrs d0 d1 d2 d3 lsize lalign csize calign sareg
//       arch : 0 = X86 (32-bit), 1 = X64, 2 = AArch64          plat : 0 = Linux, 1 = Windows, 2 = macOS
//       cc   : numeric CallConvId                               nargs: number of pointer-sized integer arguments
//       attrs: 1 preservedFP, 2 funcCalls, 4 indirectBranchProtection, 8 AVX, 16 AVX512, 32 MMXCleanup, 64 AVXCleanup,
//              128 AVXAutoCleanup                               d0..d3: dirty masks per group (set_dirty_regs)
//       lsize/lalign/csize/calign: local/call stack size and alignment (alignment 0 = leave untouched)
//       sareg: 255 = none, else set_sa_reg_id(sareg)
//   answer (one line):
//     F <err> I <natural> <mindyn> <redzone> <spillzone> <cleanup> <argstack> <pres0..3> <srsize0..3> <sralign0..3>
//       L <alignedVecSR> <hasDA> <spReg> <saReg> <finalAlign> <dirty0..3> <ppSize> <exSize> <localOff> <exOff> <daOff> <ppOff>
//         <adj> <finalSize> <saFromSp> <saFromSa>
//       P <builderErr> <asmErr> <n> <inst>;<inst>;...   E <builderErr> <asmErr> <n> <inst>;...
//     instruction syntax: mnemonic op,op,..   register G|V|K|M<size>.<id>   immediate #n   memory [G<id>+off] (fixed),
//     [G<id>+off]! (pre-index), [G<id>+off]^ (post-index); anything else is printed as ?...
//   X <same fields as F> salt      (x86-64 host only) execute prolog ; poisoning body ; epilog natively; answer
//     X <status> ...  see run_native()
#include <asmjit/core.h>
#include <asmjit/x86.h>
#include <asmjit/a64.h>
#include <asmjit/core/rastack_p.h>
#include <unistd.h>
#include <sys/wait.h>
#include <sys/resource.h>
#include <cstdio>
#include <cstring>
#include <cinttypes>
#include <string>
#include <vector>

using namespace asmjit;

struct Cmd {
  unsigned arch, plat, cc, nargs, attrs, dirty[4], lsize, lalign, csize, calign, sareg;
  unsigned long long salt;
};

static Environment make_env(const Cmd& c) {
  Environment env;
  Arch arch = c.arch == 0 ? Arch::kX86 : c.arch == 1 ? Arch::kX64 : Arch::kAArch64;
  Platform plat = c.plat == 0 ? Platform::kLinux : c.plat == 1 ? Platform::kWindows : Platform::kOSX;
  env = Environment(arch, SubArch::kUnknown, Vendor::kUnknown, plat,
                    c.plat == 1 ? PlatformABI::kMSVC : (c.plat == 2 ? PlatformABI::kDarwin : PlatformABI::kGNU));
  return env;
}

static std::string reg_str(const Reg& r) {
  char buf[64];
  char g = '?';
  switch (r.reg_group()) {
    case RegGroup::kGp: g = 'G'; break;
    case RegGroup::kVec: g = 'V'; break;
    case RegGroup::kMask: g = 'K'; break;
    case RegGroup::kExtra: g = 'M'; break;
    default: g = '?'; break;
  }
  snprintf(buf, sizeof(buf), "%c%u.%u", g, unsigned(r.size()), unsigned(r.id()));
  return buf;
}

static std::string op_str(const Operand_& op, Arch arch) {
  char buf[96];
  if (op.is_reg()) {
    return reg_str(op.as<Reg>());
  }
  if (op.is_imm()) {
    snprintf(buf, sizeof(buf), "#%lld", (long long)op.as<Imm>().value());
    return buf;
  }
  if (op.is_mem()) {
    const BaseMem& m = op.as<BaseMem>();
    if (!m.has_base_reg() || m.has_index() || m.base_type() == RegType::kLabelTag || m.has_base_label()) return "?mem";
    RegType bt = m.base_type();
    bool gp = (bt == RegType::kGp32 || bt == RegType::kGp64);
    if (!gp) return "?membase";
    const char* suffix = "";
    if (arch == Arch::kAArch64) {
      const a64::Mem& am = op.as<a64::Mem>();
      if (am.is_pre_index()) suffix = "!";
      else if (am.is_post_index()) suffix = "^";
      if (am.has_shift()) return "?memshift";
    }
    else {
      const x86::Mem& xm = op.as<x86::Mem>();
      if (xm.has_segment() || xm.has_broadcast()) return "?memx86";
    }
    snprintf(buf, sizeof(buf), "[G%u%+lld]%s", unsigned(m.base_id()), (long long)m.offset(), suffix);
    return buf;
  }
  if (op.is_none()) return "?none";
  return "?op";
}

static std::string dump_builder(BaseBuilder& b, Arch arch, unsigned& count) {
  std::string out;
  count = 0;
  for (BaseNode* node = b.first_node(); node; node = node->next()) {
    if (!node->is_inst()) {
      if (node->type() == NodeType::kComment || node->type() == NodeType::kSection) continue;
      out += (count ? ";" : ""); out += "?node"; count++;
      continue;
    }
    InstNode* in = node->as<InstNode>();
    String name;
    InstAPI::inst_id_to_string(arch, in->inst_id(), InstStringifyOptions::kNone, name);
    if (count) out += ";";
    out += name.data();
    if (in->options() != InstOptions::kNone || in->has_extra_reg()) out += "?opt";
    for (size_t i = 0; i < in->op_count(); i++) {
      out += (i == 0 ? " " : ",");
      out += op_str(in->operands()[i], arch);
    }
    count++;
  }
  if (!count) out = "-";
  return out;
}

struct Built {
  Error err_detail = Error::kOk, err_frame = Error::kOk, err_fin = Error::kOk;
  FuncDetail func;
  FuncFrame frame;
};

static bool build_frame(const Cmd& c, const Environment& env, Built& b) {
  FuncSignature sig;
  sig.set_call_conv_id(CallConvId(c.cc));
  sig.set_ret(TypeId::kVoid);
  for (unsigned i = 0; i < c.nargs; i++) sig.add_arg(TypeId::kUIntPtr);
  b.err_detail = b.func.init(sig, env);
  if (b.err_detail != Error::kOk) return false;
  b.err_frame = b.frame.init(b.func);
  if (b.err_frame != Error::kOk) return false;
  return true;
}

static void apply_user(const Cmd& c, FuncFrame& f) {
  if (c.attrs & 1) f.set_preserved_fp();
  if (c.attrs & 2) f.set_func_calls();
  if (c.attrs & 4) f.set_indirect_branch_protection();
  if (c.attrs & 8) f.set_avx_enabled();
  if (c.attrs & 16) f.set_avx512_enabled();
  if (c.attrs & 32) f.set_mmx_cleanup();
  if (c.attrs & 64) f.set_avx_cleanup();
  if (c.attrs & 128) f.set_avx_auto_cleanup();
  for (unsigned g = 0; g < 4; g++) f.set_dirty_regs(RegGroup(g), c.dirty[g]);
  f.set_local_stack_size(c.lsize);
  if (c.lalign) f.set_local_stack_alignment(c.lalign);
  f.set_call_stack_size(c.csize);
  if (c.calign) f.set_call_stack_alignment(c.calign);
  if (c.sareg != 255) f.set_sa_reg_id(c.sareg);
}

template<typename BuilderT, typename AsmT>
static void emit_both(const Environment& env, const FuncFrame& frame, bool prolog, std::string& text, unsigned& n, Error& berr, Error& aerr) {
  {
    CodeHolder code;
    code.init(env);
    BuilderT bld(&code);
    berr = prolog ? bld.emit_prolog(frame) : bld.emit_epilog(frame);
    text = dump_builder(bld, env.arch(), n);
  }
  {
    CodeHolder code;
    code.init(env);
    AsmT as(&code);
    aerr = prolog ? as.emit_prolog(frame) : as.emit_epilog(frame);
  }
}

// prints " I ... L ... P ... E ..." for a FINALIZED frame
static void print_frame_answer(unsigned arch, const Environment& env, const FuncDetail& func, const FuncFrame& f) {
  printf(" I %u %u %u %u %u %u", f.natural_stack_alignment(), f.min_dynamic_alignment(), f.red_zone_size(), f.spill_zone_size(),
         f.callee_stack_cleanup(), func.arg_stack_size());
  for (unsigned g = 0; g < 4; g++) printf(" %u", unsigned(f.preserved_regs(RegGroup(g))));
  for (unsigned g = 0; g < 4; g++) printf(" %u", unsigned(f.save_restore_reg_size(RegGroup(g))));
  for (unsigned g = 0; g < 4; g++) printf(" %u", unsigned(f.save_restore_alignment(RegGroup(g))));
  printf(" L %u %u %u %u %u", unsigned(f.has_aligned_vec_save_restore()), unsigned(f.has_dynamic_alignment()), f._sp_reg_id, f.sa_reg_id(),
         f.final_stack_alignment());
  for (unsigned g = 0; g < 4; g++) printf(" %u", unsigned(f.dirty_regs(RegGroup(g))));
  printf(" %u %u %u %u %lld %u %u %u %lld %u", f.push_pop_save_size(), f.extra_reg_save_size(), f.local_stack_offset(), f.extra_reg_save_offset(),
         f.has_da_offset() ? (long long)f.da_offset() : -1ll, f.push_pop_save_offset(), f.stack_adjustment(), f.final_stack_size(),
         f.sa_offset_from_sp() == FuncFrame::kTagInvalidOffset ? -1ll : (long long)f.sa_offset_from_sp(), f.sa_offset_from_sa());
  for (int pe = 0; pe < 2; pe++) {
    std::string text; unsigned n = 0; Error berr = Error::kOk, aerr = Error::kOk;
    if (arch == 2) emit_both<a64::Builder, a64::Assembler>(env, f, pe == 0, text, n, berr, aerr);
    else emit_both<x86::Builder, x86::Assembler>(env, f, pe == 0, text, n, berr, aerr);
    printf(" %c %u %u %u %s", pe == 0 ? 'P' : 'E', unsigned(berr), unsigned(aerr), n, text.c_str());
  }
}

static void do_frame(const Cmd& c) {
  Environment env = make_env(c);
  Built b;
  if (!build_frame(c, env, b)) {
    printf("F %u\n", unsigned(b.err_detail != Error::kOk ? b.err_detail : b.err_frame));
    return;
  }
  FuncFrame& f = b.frame;
  apply_user(c, f);
  Error fe = f.finalize();
  if (fe != Error::kOk) { printf("F 0 I 0 0 0 0 0 0 0 0 0 0 0 0 0 0 0 0 0 0 L ?%u\n", unsigned(fe)); return; }
  printf("F 0");
  print_frame_answer(c.arch, env, b.func, f);
  printf("\n");
}

// ------------------------------------------------------------------------------------------------------------------
struct Rng { uint64_t s; uint64_t next() { s ^= s << 13; s ^= s >> 7; s ^= s << 17; return s; } unsigned below(unsigned n) { return unsigned(next() % n); } };
// A <F fields> salt : frame + argument assignment through the public API (FuncArgsAssignment): every argument (register- or
// stack-passed) is assigned either to a distinct GP register or to an 8-byte slot of the local area (stack -> stack moves are the
// API-level form of the allocator's kStackArgToStack copies).  update_func_frame() + finalize(), then emit_prolog,
// emit_args_assignment and emit_epilog into Builders.  Answer:
//   A 0 | <frame answer as for F> | S <n> <insts of emit_args_assignment> | X <nargs> (srcKind srcVal dstKind dstVal)*
//   kinds: 0 = GP register id, 1 = stack (src: offset from the first stack argument, dst: offset from the body sp)
// ------------------------------------------------------------------------------------------------------------------
static void do_args_frame(const Cmd& c) {
  Environment env = make_env(c);
  Built b;
  if (!build_frame(c, env, b)) { printf("A %u\n", unsigned(b.err_detail != Error::kOk ? b.err_detail : b.err_frame)); return; }
  FuncFrame& f = b.frame;
  apply_user(c, f);
  unsigned nargs = b.func.arg_count();
  unsigned ws = c.arch == 0 ? 4 : 8;
  if (f.local_stack_size() < 8 * nargs + 8) f.set_local_stack_size(8 * nargs + 8);
  FuncFrame probe = f;
  if (probe.finalize() != Error::kOk) { printf("A 0 refused\n"); return; }
  uint32_t loff = probe.local_stack_offset();
  Rng rng{c.salt * 0x9E3779B97F4A7C15ull + 0x51ull};
  rng.next();
  // candidate destination registers
  std::vector<unsigned> cand;
  unsigned ngp = c.arch == 2 ? 29 : (c.arch == 0 ? 8 : 16);
  for (unsigned r = 0; r < ngp; r++) {
    if (c.arch == 2) { if (r == 18 || r == 16 || r == 17) continue; }
    else if (r == 4 || r == 5) continue;
    if (c.sareg != 255 && r == c.sareg) continue;
    cand.push_back(r);
  }
  for (size_t i = cand.size(); i > 1; i--) std::swap(cand[i - 1], cand[rng.below(unsigned(i))]);
  FuncArgsAssignment args(&b.func);
  struct Exp { unsigned sk; long long sv; unsigned dk; long long dv; };
  std::vector<Exp> exp;
  size_t next_reg = 0;
  for (unsigned i = 0; i < nargs; i++) {
    const FuncValue& src = b.func.arg(i);
    Exp e{};
    if (src.is_reg()) { e.sk = 0; e.sv = src.reg_id(); } else { e.sk = 1; e.sv = src.stack_offset(); }
    bool to_stack = rng.below(3) == 0 || next_reg >= cand.size();
    if (to_stack) { e.dk = 1; e.dv = loff + 8 * i; args.assign_stack(i, int32_t(loff + 8 * i), c.arch == 0 ? TypeId::kUInt32 : TypeId::kUInt64); }
    else {
      unsigned r = cand[next_reg++]; e.dk = 0; e.dv = r;
      if (c.arch == 2) args.assign_reg(i, a64::Gp::make_r64(r)); else if (c.arch == 0) args.assign_reg(i, x86::Gp::make_r32(r)); else args.assign_reg(i, x86::Gp::make_r64(r));
    }
    exp.push_back(e);
  }
  (void)ws;
  Error ue = args.update_func_frame(f);
  if (ue != Error::kOk) { printf("A 0 refused update %u\n", unsigned(ue)); return; }
  if (f.finalize() != Error::kOk) { printf("A 0 refused\n"); return; }
  printf("A 0 | F 0");
  print_frame_answer(c.arch, env, b.func, f);
  std::string text; unsigned n = 0; Error ae = Error::kOk;
  {
    CodeHolder code; code.init(env);
    if (c.arch == 2) { a64::Builder bld(&code); ae = bld.emit_args_assignment(f, args); text = dump_builder(bld, env.arch(), n); }
    else { x86::Builder bld(&code); ae = bld.emit_args_assignment(f, args); text = dump_builder(bld, env.arch(), n); }
  }
  printf(" | S %u %u %s | X %u", unsigned(ae), n, text.c_str(), nargs);
  for (auto& e : exp) printf(" %u %lld %u %lld", e.sk, e.sv, e.dk, e.dv);
  printf("\n");
}

// ------------------------------------------------------------------------------------------------------------------
// Frames the Compiler really produces.   C arch plat cc seed  ->
//   C <err> | <equivalent frame command: arch plat cc 0 attrs d0 d1 d2 d3 lsize lalign csize calign sareg argstack> | F 0 I ... (as for F)
//     | H <nInst> <prologMatches> <epilogMatches> <unsavedWrites> <badSpAccesses> <spAccesses> <detail>
// H: hand-over checks on the node list of the compiled function: the first/last instructions are exactly the emit_prolog /
// emit_epilog output for the function's frame; every write (per InstAPI::query_rw_info) to a register the convention preserves
// hits a register of the frame's saved set; every sp-based memory operand of the body lies inside the call area, the local
// area or the stack-argument area.
// ------------------------------------------------------------------------------------------------------------------

static std::string inst_text(InstNode* in, Arch arch) {
  String name;
  InstAPI::inst_id_to_string(arch, in->inst_id(), InstStringifyOptions::kNone, name);
  std::string out = name.data();
  if (in->options() != InstOptions::kNone || in->has_extra_reg()) out += "?opt";
  for (size_t i = 0; i < in->op_count(); i++) { out += (i == 0 ? " " : ","); out += op_str(in->operands()[i], arch); }
  return out;
}

template<typename CompilerT, typename GenT>
static void compiled_frame(const Cmd& c, GenT&& gen) {
  Environment env = make_env(c);
  CodeHolder code;
  code.init(env);
  CompilerT cc(&code);
  FuncNode* fn = nullptr;
  Error ge = gen(cc, fn);
  if (ge != Error::kOk || !fn) { printf("C %u gen\n", unsigned(ge)); return; }
  Error fe = cc.run_passes();
  if (fe != Error::kOk) { printf(fe == Error::kOutOfMemory ? "C 1 diverges out-of-memory\n" : "C %u passes\n", unsigned(fe)); return; }
  const FuncFrame& f = fn->frame();
  const FuncDetail& fd = fn->detail();
  unsigned attrs = (f.has_preserved_fp() ? 1 : 0) | (f.has_func_calls() ? 2 : 0) | (f.has_indirect_branch_protection() ? 4 : 0) |
                   (f.is_avx_enabled() ? 8 : 0) | (f.is_avx512_enabled() ? 16 : 0) | (f.has_mmx_cleanup() ? 32 : 0) |
                   (f.has_avx_cleanup() ? 64 : 0) | (f.has_avx_auto_cleanup() ? 128 : 0);
  printf("C 0 | %u %u %u 0 %u %u %u %u %u %u %u %u %u %u %u | F 0", c.arch, c.plat, c.cc, attrs, unsigned(f.dirty_regs(RegGroup(0))),
         unsigned(f.dirty_regs(RegGroup(1))), unsigned(f.dirty_regs(RegGroup(2))), unsigned(f.dirty_regs(RegGroup(3))), f.local_stack_size(),
         f.local_stack_alignment(), f.call_stack_size(), f.call_stack_alignment(), f.sa_reg_id(), fd.arg_stack_size());
  print_frame_answer(c.arch, env, fd, f);
  // ---- hand-over checks
  Arch arch = env.arch();
  std::vector<InstNode*> insts;
  std::vector<std::pair<uint32_t, size_t>> label_pos;     // label id -> index of the next instruction
  for (BaseNode* node = fn->next(); node && node != fn->end_node(); node = node->next()) {
    if (node->is_inst()) insts.push_back(node->as<InstNode>());
    else if (node->type() == NodeType::kLabel) label_pos.push_back(std::make_pair(node->as<LabelNode>()->label_id(), insts.size()));
  }
  if (getenv("C07_DUMP")) {
    size_t k = 0;
    for (BaseNode* node = fn->next(); node && node != fn->end_node(); node = node->next()) {
      if (node->is_inst()) fprintf(stderr, "%3zu  %s\n", k++, inst_text(node->as<InstNode>(), env.arch()).c_str());
      else if (node->type() == NodeType::kLabel) fprintf(stderr, "L%u:\n", node->as<LabelNode>()->label_id());
    }
  }
  std::vector<std::string> pro, epi;
  {
    CodeHolder c2; c2.init(env); CompilerT* dummy = nullptr; (void)dummy;
    if (c.arch == 2) { a64::Builder b(&c2); b.emit_prolog(f); for (BaseNode* n = b.first_node(); n; n = n->next()) if (n->is_inst()) pro.push_back(inst_text(n->as<InstNode>(), arch)); }
    else { x86::Builder b(&c2); b.emit_prolog(f); for (BaseNode* n = b.first_node(); n; n = n->next()) if (n->is_inst()) pro.push_back(inst_text(n->as<InstNode>(), arch)); }
  }
  {
    CodeHolder c2; c2.init(env);
    if (c.arch == 2) { a64::Builder b(&c2); b.emit_epilog(f); for (BaseNode* n = b.first_node(); n; n = n->next()) if (n->is_inst()) epi.push_back(inst_text(n->as<InstNode>(), arch)); }
    else { x86::Builder b(&c2); b.emit_epilog(f); for (BaseNode* n = b.first_node(); n; n = n->next()) if (n->is_inst()) epi.push_back(inst_text(n->as<InstNode>(), arch)); }
  }
  bool pm = insts.size() >= pro.size() + epi.size(), em = pm;
  for (size_t i = 0; pm && i < pro.size(); i++) if (inst_text(insts[i], arch) != pro[i]) pm = false;
  // the epilog sits at the function's exit label; the allocator may place out-of-line blocks after it: search backwards
  size_t epos = insts.size();
  if (em) {
    em = false;
    for (size_t p = insts.size() - epi.size() + 1; p-- > pro.size();) {
      bool same = true;
      for (size_t i = 0; same && i < epi.size(); i++) if (inst_text(insts[p + i], arch) != epi[i]) same = false;
      if (same) { em = true; epos = p; break; }
    }
  }
  unsigned unsaved = 0, badsp = 0, spacc = 0, uninit = 0;
  // local-area accesses per instruction, judged after a forward must-initialised dataflow over the function's CFG
  struct LAcc { size_t inst; int64_t off, size; bool rd, wr; };
  std::vector<LAcc> laccs;
  std::string detail = "-";
  uint32_t spid = c.arch == 2 ? 31u : 4u;
  size_t lo = pm ? pro.size() : 0, hi = insts.size();
  size_t elo = em ? epos : insts.size(), ehi = em ? epos + epi.size() : insts.size();
  for (size_t i = 0; i < insts.size(); i++) {
    InstNode* in = insts[i];
    InstRWInfo rw;
    memset(&rw, 0, sizeof(rw));
    BaseInst bi(in->inst_id(), in->options(), in->extra_reg());
    bool rw_ok = InstAPI::query_rw_info(arch, bi, in->operands().data(), in->op_count(), &rw) == Error::kOk;
    if (rw_ok) {
      for (size_t k = 0; k < in->op_count() && k < rw.op_count(); k++) {
        const Operand_& op = in->operands()[k];
        if (op.is_reg() && rw.operand(k).is_write()) {
          const Reg& r = op.as<Reg>();
          uint32_t g = uint32_t(r.reg_group());
          if (g < 4 && r.id() < 32 && !(g == 0 && r.id() == spid) && ((f.preserved_regs(RegGroup(g)) >> r.id()) & 1) && !((f.saved_regs(RegGroup(g)) >> r.id()) & 1)) {
            if (!unsaved) detail = "unsaved:" + inst_text(in, arch);
            unsaved++;
          }
        }
      }
    }
    if (i >= lo && i < hi && !(i >= elo && i < ehi)) {
      for (size_t k = 0; k < in->op_count(); k++) {
        const Operand_& op = in->operands()[k];
        if (!op.is_mem()) continue;
        const BaseMem& m = op.as<BaseMem>();
        if (!m.has_base_reg() || m.base_id() != spid || m.has_index()) continue;
        spacc++;
        int64_t off = m.offset();
        int64_t sz = 1;
        if (c.arch != 2 && op.as<x86::Mem>().size()) sz = op.as<x86::Mem>().size();
        bool ok = (off >= 0 && off + sz <= int64_t(f.call_stack_size())) ||
                  (off >= int64_t(f.local_stack_offset()) && off + sz <= int64_t(f.local_stack_offset()) + int64_t(f.local_stack_size())) ||
                  (f.sa_offset_from_sp() != FuncFrame::kTagInvalidOffset && off >= int64_t(f.sa_offset_from_sp()) &&
                   off + sz <= int64_t(f.sa_offset_from_sp()) + int64_t(fd.arg_stack_size()));
        // inside the stack-argument area an access must start at the offset FuncDetail assigned to some stack-passed argument
        if (ok && f.sa_offset_from_sp() != FuncFrame::kTagInvalidOffset && off >= int64_t(f.sa_offset_from_sp()) &&
            !(off + sz <= int64_t(f.call_stack_size())) && !(off >= int64_t(f.local_stack_offset()) && off < int64_t(f.local_stack_offset()) + int64_t(f.local_stack_size()))) {
          bool hit = false;
          for (uint32_t ai = 0; ai < fd.arg_count(); ai++) {
            const FuncValue& av = fd.arg(ai);
            if (av.is_stack() && int64_t(av.stack_offset()) == off - int64_t(f.sa_offset_from_sp())) hit = true;
          }
          if (!hit) ok = false;
        }
        if (in->inst_id() == (c.arch == 2 ? uint32_t(a64::Inst::kIdAdd) : uint32_t(x86::Inst::kIdLea))) ok = true;   // address computation only
        if (!ok) { if (!badsp) detail = "badsp:" + inst_text(in, arch); badsp++; }
        // a local slot must be written before it is read (the generated functions are straight-line): catches an argument or
        // spill that the prolog/allocator stored at another offset than the one the body reads
        int64_t lo_l = int64_t(f.local_stack_offset()), hi_l = lo_l + int64_t(f.local_stack_size());
        bool is_addr_only = in->inst_id() == (c.arch == 2 ? uint32_t(a64::Inst::kIdAdd) : uint32_t(x86::Inst::kIdLea));
        if (!is_addr_only && off >= lo_l && off < hi_l && k < rw.op_count()) {
          int64_t asz = sz;
          if (c.arch == 2) { asz = 0; for (size_t q = 0; q < in->op_count(); q++) if (in->operands()[q].is_reg()) asz += in->operands()[q].as<Reg>().size(); if (!asz) asz = 8; }
          bool rd = rw.operand(k).is_read(), wr = rw.operand(k).is_write();
          if (c.arch == 2) { uint32_t id = in->inst_id(); wr = (id == a64::Inst::kIdStr || id == a64::Inst::kIdStp || id == a64::Inst::kIdStr_v || id == a64::Inst::kIdStp_v || id == a64::Inst::kIdStur || id == a64::Inst::kIdStur_v || id == a64::Inst::kIdStrb || id == a64::Inst::kIdStrh); rd = !wr; }
          laccs.push_back(LAcc{ i, off - lo_l, asz, rd, wr });
        }
      }
    }
  }
  // ---- must-initialised dataflow (byte granularity) over the CFG: IN[i] = intersection of OUT[pred]; a read of a local byte
  // that is not initialised on EVERY path from the entry is reported
  {
    size_t n = insts.size(), nb = size_t(f.local_stack_size());
    std::vector<std::vector<size_t>> succ(n);
    for (size_t i = 0; i < n; i++) {
      InstNode* in = insts[i];
      bool has_label = false, uncond = false, is_ret = false;
      uint32_t id = in->inst_id();
      if (c.arch == 2) {
        uint32_t real = BaseInst::extract_real_id(id);
        uncond = (real == a64::Inst::kIdB) && (BaseInst::extract_arm_cond_code(id) == arm::CondCode::kAL);
        is_ret = (real == a64::Inst::kIdRet);
      }
      else { uncond = (id == x86::Inst::kIdJmp); is_ret = (id == x86::Inst::kIdRet); }
      for (size_t k = 0; k < in->op_count(); k++) {
        const Operand_& op = in->operands()[k];
        if (op.is_label()) {
          has_label = true;
          for (auto& lp : label_pos) if (lp.first == op.as<Label>().id() && lp.second < n) succ[i].push_back(lp.second);
        }
      }
      if (!(uncond && has_label) && !is_ret && i + 1 < n) succ[i].push_back(i + 1);
    }
    std::vector<std::vector<bool>> inb(n, std::vector<bool>(nb, true));
    if (n) inb[0].assign(nb, false);
    std::vector<std::vector<const LAcc*>> per(n);
    for (auto& a : laccs) per[a.inst].push_back(&a);
    std::vector<size_t> work;
    for (size_t i = 0; i < n; i++) work.push_back(n - 1 - i);
    std::vector<bool> inq(n, true);
    while (!work.empty()) {
      size_t i = work.back(); work.pop_back(); inq[i] = false;
      std::vector<bool> out = inb[i];
      for (const LAcc* a : per[i]) if (a->wr) for (int64_t q = a->off; q < a->off + a->size && q < int64_t(nb); q++) out[size_t(q)] = true;
      for (size_t sidx : succ[i]) {
        bool changed = false;
        for (size_t q = 0; q < nb; q++) if (inb[sidx][q] && !out[q]) { inb[sidx][q] = false; changed = true; }
        if (changed && !inq[sidx]) { inq[sidx] = true; work.push_back(sidx); }
      }
    }
    for (auto& a : laccs)
      if (a.rd && a.off >= 0 && size_t(a.off) < nb && !inb[a.inst][size_t(a.off)]) {
        // a read-modify-write of the same operand is a read first
        if (!uninit) detail = "uninit:" + inst_text(insts[a.inst], arch);
        uninit++;
      }
  }
  for (char& ch : detail) if (ch == ' ') ch = '_';
  printf(" | H %u %u %u %u %u %u %s %u\n", unsigned(insts.size()), unsigned(pm), unsigned(em), unsaved, badsp, spacc, detail.c_str(), uninit);
}

static void do_compiled(const Cmd& c) {
  Rng rng{c.salt * 0x9E3779B97F4A7C15ull + 0x1234567ull};
  rng.next();
  unsigned nargs = rng.below(4) == 0 ? 12 + rng.below(13) : rng.below(12), ngp = 1 + rng.below(28), nvec = rng.below(24), ncalls = rng.below(3), call_args = rng.below(13);
  bool fp = rng.below(3) == 0, avx = rng.below(3) == 0, big_local = rng.below(4) == 0;
  unsigned ndiamonds = rng.below(2) ? rng.below(4) : 0;
  bool with_loop = rng.below(4) == 0;
  FuncSignature sig;
  sig.set_call_conv_id(CallConvId(c.cc));
  sig.set_ret(TypeId::kUIntPtr);
  for (unsigned i = 0; i < nargs; i++) sig.add_arg(TypeId::kUIntPtr);
  FuncSignature callee;
  callee.set_call_conv_id(CallConvId(c.cc));
  callee.set_ret(TypeId::kUIntPtr);
  for (unsigned i = 0; i < call_args; i++) callee.add_arg(TypeId::kUIntPtr);
  if (c.arch == 2) {
    // The a64 Compiler can diverge (emit_args_assignment emits moves for ever, unbounded memory) for functions with stack-passed
    // arguments and an over-aligned stack slot: run AArch64 compilations in a child with a memory and time limit.
    fflush(stdout);
    pid_t pid = fork();
    if (pid != 0) {
      int st = 0;
      if (pid < 0 || waitpid(pid, &st, 0) < 0 || !WIFEXITED(st) || WEXITSTATUS(st) != 0)
        printf("C 1 diverges nargs=%u\n", nargs);
      return;
    }
    struct rlimit rl; rl.rlim_cur = rl.rlim_max = 1ull << 30; setrlimit(RLIMIT_AS, &rl);
    alarm(20);
    bool done = false;
    compiled_frame<a64::Compiler>(c, [&](a64::Compiler& cc, FuncNode*& fn) -> Error {
      fn = cc.add_func(sig);
      if (!fn) return Error::kInvalidArgument;
      if (fp) fn->frame().set_preserved_fp();
      std::vector<a64::Gp> v;
      for (unsigned i = 0; i < nargs; i++) { a64::Gp a = cc.new_gp64(); fn->set_arg(i, a); v.push_back(a); }
      for (unsigned i = 0; i < ngp; i++) { a64::Gp r = cc.new_gp64(); cc.mov(r, uint64_t(i + 1)); v.push_back(r); }
      std::vector<a64::Vec> x;
      for (unsigned i = 0; i < nvec; i++) { a64::Vec r = cc.new_vec128(); cc.movi(r.b16(), i & 0xFF); x.push_back(r); }
      if (big_local) { a64::Mem m = cc.new_stack(64 + 16 * rng.below(40), rng.below(3) == 0 ? 32 : 16); a64::Gp t = cc.new_gp64(); cc.mov(t, 77); cc.str(t, m); a64::Gp u = cc.new_gp64(); cc.ldr(u, m); v.push_back(u); }
      for (unsigned k = 0; k < ncalls; k++) {
        a64::Gp target = cc.new_gp64(); cc.mov(target, uint64_t(0x1000 + k));
        InvokeNode* inv = nullptr;
        Error e = cc.invoke(Out(inv), target, callee);
        if (e != Error::kOk) return e;
        for (unsigned i = 0; i < call_args; i++) inv->set_arg(i, v[(i + k) % v.size()]);
        a64::Gp r = cc.new_gp64(); inv->set_ret(0, r); v.push_back(r);
      }
      a64::Gp acc = cc.new_gp64(); cc.mov(acc, 0);
      // control flow: diamonds whose arms create different pressure, and a counted loop
      for (unsigned d = 0; d < ndiamonds && v.size() >= 2; d++) {
        Label L_else = cc.new_label(), L_end = cc.new_label();
        a64::Gp u = cc.new_gp64(); cc.mov(u, 1);          // defined on every path, redefined in one arm
        cc.cmp(v[d % v.size()], v[(d + 1) % v.size()]);
        cc.b_eq(L_else);
        { a64::Gp t = cc.new_gp64(); cc.mov(t, 1000 + d); for (unsigned k = 0; k < 6 && k < v.size(); k++) cc.add(t, t, v[(k * 3 + d) % v.size()]); cc.add(acc, acc, t); }
        cc.b(L_end);
        cc.bind(L_else);
        { a64::Gp t = cc.new_gp64(); cc.mov(t, 2000 + d); cc.mov(u, 3); cc.add(t, t, u); cc.add(acc, acc, t); }
        v.push_back(u);
        cc.bind(L_end);
      }
      if (with_loop) {
        Label L_loop = cc.new_label(); a64::Gp cnt = cc.new_gp64(); cc.mov(cnt, 3);
        cc.bind(L_loop);
        for (unsigned k = 0; k < v.size(); k += 2) cc.add(acc, acc, v[k]);
        cc.subs(cnt, cnt, 1);
        cc.b_ne(L_loop);
      }
      for (auto& r : v) cc.add(acc, acc, r);
      if (!x.empty()) { a64::Vec xa = x[0]; for (size_t i = 1; i < x.size(); i++) cc.add(xa.s4(), xa.s4(), x[i].s4()); a64::Gp t = cc.new_gp64(); cc.mov(t, xa.d(0)); cc.add(acc, acc, t); }
      cc.ret(acc);
      return cc.end_func();
    });
    done = true;
    fflush(stdout);
    _exit(done ? 0 : 1);
  }
  else {
    compiled_frame<x86::Compiler>(c, [&](x86::Compiler& cc, FuncNode*& fn) -> Error {
      fn = cc.add_func(sig);
      if (!fn) return Error::kInvalidArgument;
      if (fp) fn->frame().set_preserved_fp();
      if (avx) fn->frame().set_avx_enabled();
      std::vector<x86::Gp> v;
      for (unsigned i = 0; i < nargs; i++) { x86::Gp a = cc.new_gpz(); fn->set_arg(i, a); v.push_back(a); }
      for (unsigned i = 0; i < ngp; i++) { x86::Gp r = cc.new_gpz(); cc.mov(r, i + 1); v.push_back(r); }
      std::vector<x86::Vec> x;
      for (unsigned i = 0; i < nvec; i++) { x86::Vec r = cc.new_xmm(); if (avx) cc.vpxor(r, r, r); else cc.pxor(r, r); x.push_back(r); }
      if (big_local) { x86::Mem m = cc.new_stack(64 + 16 * rng.below(40), rng.below(2) ? 32 : 16); x86::Gp t = cc.new_gpz(); cc.mov(t, 77); cc.mov(m, t); x86::Gp u = cc.new_gpz(); cc.mov(u, m); v.push_back(u); }
      for (unsigned k = 0; k < ncalls; k++) {
        InvokeNode* inv = nullptr;
        Error e = cc.invoke(Out(inv), uint64_t(0x1000 + k), callee);
        if (e != Error::kOk) return e;
        for (unsigned i = 0; i < call_args; i++) inv->set_arg(i, v[(i + k) % v.size()]);
        x86::Gp r = cc.new_gpz(); inv->set_ret(0, r); v.push_back(r);
      }
      x86::Gp acc = cc.new_gpz(); cc.xor_(acc, acc);
      for (unsigned d = 0; d < ndiamonds && v.size() >= 2; d++) {
        Label L_else = cc.new_label(), L_end = cc.new_label();
        x86::Gp u = cc.new_gpz(); cc.mov(u, 1);
        cc.cmp(v[d % v.size()], v[(d + 1) % v.size()]);
        cc.jz(L_else);
        { x86::Gp t = cc.new_gpz(); cc.mov(t, 1000 + d); for (unsigned k = 0; k < 6 && k < v.size(); k++) cc.add(t, v[(k * 3 + d) % v.size()]); cc.add(acc, t); }
        cc.jmp(L_end);
        cc.bind(L_else);
        { x86::Gp t = cc.new_gpz(); cc.mov(t, 2000 + d); cc.mov(u, 3); cc.add(t, u); cc.add(acc, t); }
        v.push_back(u);
        cc.bind(L_end);
      }
      if (with_loop) {
        Label L_loop = cc.new_label(); x86::Gp cnt = cc.new_gpz(); cc.mov(cnt, 3);
        cc.bind(L_loop);
        for (unsigned k = 0; k < v.size(); k += 2) cc.add(acc, v[k]);
        cc.dec(cnt);
        cc.jnz(L_loop);
      }
      for (auto& r : v) cc.add(acc, r);
      if (!x.empty()) { x86::Vec xa = x[0]; for (size_t i = 1; i < x.size(); i++) { if (avx) cc.vpaddd(xa, xa, x[i]); else cc.paddd(xa, x[i]); } x86::Gp t = cc.new_gp32(); if (avx) cc.vmovd(t, xa); else cc.movd(t, xa); cc.add(acc.r32(), t); }
      cc.ret(acc);
      return cc.end_func();
    });
  }
}

// ------------------------------------------------------------------------------------------------------------------
// Native execution (x86-64 host): a trampoline loads sentinels into every register, positions rsp exactly as the
// convention promises (16-byte aligned before the call, any residue modulo 32/64), fills the stack-argument area and a
// guard band above it, and calls   prolog ; body ; epilog   (prolog/epilog are the REAL emit_prolog/emit_epilog output
// assembled by the real Assembler).  The body records rsp/rbp/SA register, poisons the call area, the local area, the
// 128 bytes below rsp and every register the frame declares dirty (not rsp; not rbp when the frame preserves FP).
// Afterwards: rsp, every preserved register of the convention (GP full, XMM low 128 bits), guard band and argument area.
// ------------------------------------------------------------------------------------------------------------------
#if defined(__x86_64__)
#include <csignal>
#include <csetjmp>
struct NativeCtx {
  uint64_t gp_in[16], gp_out[16];
  uint8_t  vec_in[32][16], vec_out[32][16];
  uint64_t k_in[8], k_out[8];
  uint64_t body_sp, body_bp, body_sa, exit_sp, call_sp, saved_rsp, pad, tmp_rax, tmp_rcx, tmp_rdi;
  uint8_t  poison_vec[16];
  uint64_t poison_k;
  uint64_t stack_copy[128];   // argument area + guard band as found right after the call returned
};
static NativeCtx g_ctx;
static sigjmp_buf g_jmp;
static volatile int g_sig;
static void on_fault(int sig) { g_sig = sig; siglongjmp(g_jmp, 1); }

static void run_native(const Cmd& c) {
  Environment env = make_env(c);
  Built b;
  if (c.arch != 1 || !build_frame(c, env, b)) { printf("X skip\n"); return; }
  FuncFrame& f = b.frame;
  apply_user(c, f);
  if (f.finalize() != Error::kOk) { printf("X skip\n"); return; }
  if (c.lsize > 8192 || c.csize > 8192 || c.dirty[3] || b.func.arg_stack_size() > 512) { printf("X skip size\n"); return; }
  static int have512 = -1;
  if (have512 < 0) have512 = CpuInfo::host().has_feature(CpuFeatures::X86::kAVX512_BW) ? 1 : 0;
  bool use512 = (c.attrs & 16) != 0;
  if ((use512 || c.dirty[2] || (c.dirty[1] >> 16)) && !have512) { printf("X skip nocpu\n"); return; }
  if ((c.attrs & 8) && !CpuInfo::host().has_feature(CpuFeatures::X86::kAVX)) { printf("X skip nocpu\n"); return; }

  using namespace x86;
  NativeCtx& ctx = g_ctx;
  uint64_t salt = c.salt * 0x9E3779B97F4A7C15ull + 12345;
  auto rnd = [&]() { salt ^= salt << 13; salt ^= salt >> 7; salt ^= salt << 17; return salt; };
  for (int i = 0; i < 16; i++) ctx.gp_in[i] = rnd() | 1;
  for (int i = 0; i < 32; i++) for (int j = 0; j < 16; j++) ctx.vec_in[i][j] = uint8_t(rnd() >> 11);
  for (int i = 0; i < 8; i++) ctx.k_in[i] = rnd();
  memset(ctx.poison_vec, 0xEE, 16); ctx.poison_k = 0xEEEEEEEEEEEEEEEEull;
  ctx.pad = 16 * (rnd() % 8);
  memset(ctx.gp_out, 0, sizeof(ctx.gp_out)); memset(ctx.vec_out, 0, sizeof(ctx.vec_out)); memset(ctx.k_out, 0, sizeof(ctx.k_out));
  ctx.body_sp = ctx.body_bp = ctx.body_sa = ctx.exit_sp = ctx.call_sp = 0;

  uint32_t nstack = b.func.arg_stack_size();
  uint32_t nstack_al = (nstack + 15u) & ~15u;
  const uint32_t kGuard = 64;
  uint32_t nvec = have512 ? 32 : 16;

  JitRuntime rt;
  CodeHolder code;
  code.init(rt.environment());
  Assembler a(&code);
  Label L_func = a.new_label();
  Gp cx = rbx;  // ctx pointer register while setting up (rbx is loaded last)
  auto O = [&](size_t off) { return int32_t(off); };
  // ---- trampoline
  a.push(rbx); a.push(rbp); a.push(r12); a.push(r13); a.push(r14); a.push(r15);
  a.mov(cx, uint64_t(uintptr_t(&ctx)));
  a.mov(ptr(cx, O(offsetof(NativeCtx, saved_rsp))), rsp);
  a.and_(rsp, -64);
  a.sub(rsp, ptr(cx, O(offsetof(NativeCtx, pad))));
  a.sub(rsp, int32_t(kGuard));
  for (uint32_t i = 0; i < kGuard; i += 8) { a.mov(rax, uint64_t(0x6A6A000000000000ull + i)); a.mov(ptr(rsp, int32_t(i)), rax); }
  if (nstack_al) a.sub(rsp, int32_t(nstack_al));
  for (uint32_t i = 0; i + 8 <= nstack_al; i += 8) { a.mov(rax, uint64_t(0x5A5A000000000000ull + i)); a.mov(ptr(rsp, int32_t(i)), rax); }
  a.mov(ptr(cx, O(offsetof(NativeCtx, call_sp))), rsp);
  for (uint32_t i = 0; i < nvec; i++) a.vmovups(Vec::make_xmm(i), ptr(cx, O(offsetof(NativeCtx, vec_in) + 16 * i)));
  if (have512) for (uint32_t i = 0; i < 8; i++) a.kmovq(KReg(i), ptr(cx, O(offsetof(NativeCtx, k_in) + 8 * i)));
  for (uint32_t i = 0; i < 16; i++) { if (i == Gp::kIdSp || i == Gp::kIdBx) continue; a.mov(Gp::make_r64(i), ptr(cx, O(offsetof(NativeCtx, gp_in) + 8 * i))); }
  a.mov(rbx, ptr(cx, O(offsetof(NativeCtx, gp_in) + 8 * Gp::kIdBx)));
  a.call(L_func);
  // ---- after the call: every register is recorded through an absolute pointer kept in the instruction stream
  a.mov(ptr(rsp, -8), rax);                                  // scratch below rsp (free)
  a.mov(rax, uint64_t(uintptr_t(&ctx)));
  for (uint32_t i = 1; i < 16; i++) { if (i == Gp::kIdSp) continue; a.mov(ptr(rax, O(offsetof(NativeCtx, gp_out) + 8 * i)), Gp::make_r64(i)); }
  a.mov(rcx, ptr(rsp, -8)); a.mov(ptr(rax, O(offsetof(NativeCtx, gp_out))), rcx);
  a.mov(ptr(rax, O(offsetof(NativeCtx, exit_sp))), rsp);
  for (uint32_t i = 0; i < nvec; i++) a.vmovups(ptr(rax, O(offsetof(NativeCtx, vec_out) + 16 * i)), Vec::make_xmm(i));
  if (have512) for (uint32_t i = 0; i < 8; i++) a.kmovq(ptr(rax, O(offsetof(NativeCtx, k_out) + 8 * i)), KReg(i));
  a.cld(); a.mov(rsi, rsp); a.lea(rdi, ptr(rax, O(offsetof(NativeCtx, stack_copy)))); a.mov(ecx, (nstack_al + kGuard) / 8); a.rep().movsq();
  a.mov(rsp, ptr(rax, O(offsetof(NativeCtx, saved_rsp))));
  a.vzeroupper();
  a.pop(r15); a.pop(r14); a.pop(r13); a.pop(r12); a.pop(rbp); a.pop(rbx);
  a.ret();
  // ---- the function
  a.bind(L_func);
  Error pe = a.emit_prolog(f);
  // body: record, then poison (rax/rcx/rdi are saved around the fills through the context, below-rsp memory is free)
  a.mov(ptr(rsp, -8), rax);
  a.mov(rax, uint64_t(uintptr_t(&ctx)));
  a.mov(ptr(rax, O(offsetof(NativeCtx, body_sp))), rsp);
  a.mov(ptr(rax, O(offsetof(NativeCtx, body_bp))), rbp);
  if (f.sa_reg_id() != Gp::kIdSp && f.sa_reg_id() != Gp::kIdAx) a.mov(ptr(rax, O(offsetof(NativeCtx, body_sa))), Gp::make_r64(f.sa_reg_id()));
  a.mov(ptr(rax, O(offsetof(NativeCtx, tmp_rcx))), rcx);
  a.mov(ptr(rax, O(offsetof(NativeCtx, tmp_rdi))), rdi);
  a.mov(rcx, ptr(rsp, -8)); a.mov(ptr(rax, O(offsetof(NativeCtx, tmp_rax))), rcx);
  if (f.sa_reg_id() == Gp::kIdAx) a.mov(ptr(rax, O(offsetof(NativeCtx, body_sa))), rcx);
  auto fill = [&](int32_t off, uint32_t size, uint8_t val) {
    if (!size) return;
    a.lea(rdi, ptr(rsp, off)); a.mov(ecx, size); a.mov(eax, uint32_t(val)); a.rep().stosb();
  };
  a.cld();
  fill(0, f.call_stack_size(), 0xA5);
  fill(int32_t(f.local_stack_offset()), f.local_stack_size(), 0x5A);
  fill(-128, 128, 0xC3);
  a.mov(rax, uint64_t(uintptr_t(&ctx)));
  a.mov(rcx, ptr(rax, O(offsetof(NativeCtx, tmp_rcx))));
  a.mov(rdi, ptr(rax, O(offsetof(NativeCtx, tmp_rdi))));
  for (uint32_t i = 0; i < nvec; i++) if ((c.dirty[1] >> i) & 1) a.vmovups(Vec::make_xmm(i), ptr(rax, O(offsetof(NativeCtx, poison_vec))));
  if (have512) for (uint32_t i = 0; i < 8; i++) if ((c.dirty[2] >> i) & 1) a.kmovq(KReg(i), ptr(rax, O(offsetof(NativeCtx, poison_k))));
  a.mov(rax, ptr(rax, O(offsetof(NativeCtx, tmp_rax))));
  for (uint32_t i = 0; i < 16; i++) {
    if (!((c.dirty[0] >> i) & 1) || i == Gp::kIdSp || (i == Gp::kIdBp && (c.attrs & 1))) continue;
    a.mov(Gp::make_r64(i), uint64_t(0xDEAD0000DEAD0000ull + i));
  }
  Error ee = a.emit_epilog(f);
  if (pe != Error::kOk || ee != Error::kOk) { printf("X skip emit-error %u %u\n", unsigned(pe), unsigned(ee)); return; }
  void (*fn)() = nullptr;
  if (rt.add(&fn, &code) != Error::kOk) { printf("X skip jit\n"); return; }

  static bool handlers = false;
  if (!handlers) {
    static uint8_t altstack[1 << 16];
    stack_t ss; ss.ss_sp = altstack; ss.ss_size = sizeof(altstack); ss.ss_flags = 0; sigaltstack(&ss, nullptr);
    struct sigaction sa; memset(&sa, 0, sizeof(sa)); sa.sa_handler = on_fault; sa.sa_flags = SA_ONSTACK | SA_NODEFER;
    sigaction(SIGSEGV, &sa, nullptr); sigaction(SIGBUS, &sa, nullptr); sigaction(SIGILL, &sa, nullptr); sigaction(SIGFPE, &sa, nullptr);
    handlers = true;
  }
  g_sig = 0;
  if (sigsetjmp(g_jmp, 1) == 0) fn();
  rt.release(fn);
  if (g_sig) { printf("X fault signal %d (e.g. misaligned aligned-move, illegal instruction, wild return)\n", g_sig); return; }

  // ---- judge
  char why[256]; why[0] = 0;
  uint32_t pres_gp = f.preserved_regs(RegGroup::kGp), pres_vec = f.preserved_regs(RegGroup::kVec), pres_k = f.preserved_regs(RegGroup::kMask);
  if (ctx.exit_sp != ctx.call_sp) snprintf(why, sizeof(why), "sp-after-return entry%+lld", (long long)(ctx.exit_sp - (ctx.call_sp - 8)));
  for (uint32_t i = 0; i < 16 && !why[0]; i++)
    if (i != Gp::kIdSp && ((pres_gp >> i) & 1) && ctx.gp_out[i] != ctx.gp_in[i]) snprintf(why, sizeof(why), "callee-saved-gp %u in=%#llx out=%#llx", i, (unsigned long long)ctx.gp_in[i], (unsigned long long)ctx.gp_out[i]);
  for (uint32_t i = 0; i < nvec && !why[0]; i++)
    if (((pres_vec >> i) & 1) && memcmp(ctx.vec_in[i], ctx.vec_out[i], 16) != 0) snprintf(why, sizeof(why), "callee-saved-xmm %u", i);
  for (uint32_t i = 0; i < 8 && !why[0] && have512; i++)
    if (((pres_k >> i) & 1) && ctx.k_in[i] != ctx.k_out[i]) snprintf(why, sizeof(why), "callee-saved-k %u", i);
  bool uses = f.local_stack_size() || f.call_stack_size() || f.extra_reg_save_size() || (c.attrs & 2);
  if (!why[0] && uses && ctx.body_sp % f.final_stack_alignment() != 0) snprintf(why, sizeof(why), "body-sp-misaligned %#llx mod %u", (unsigned long long)ctx.body_sp, f.final_stack_alignment());
  if (!why[0] && f.sa_offset_from_sp() != FuncFrame::kTagInvalidOffset && ctx.body_sp + f.sa_offset_from_sp() != ctx.call_sp)
    snprintf(why, sizeof(why), "stack-args-offset-sp real=%lld reported=%u", (long long)(ctx.call_sp - ctx.body_sp), f.sa_offset_from_sp());
  if (!why[0] && f.sa_reg_id() != Gp::kIdSp && ctx.body_sa + f.sa_offset_from_sa() != ctx.call_sp) snprintf(why, sizeof(why), "stack-args-offset-sa");
  if (!why[0] && (c.attrs & 1) && ctx.body_bp + f.sa_offset_from_sa() != ctx.call_sp) snprintf(why, sizeof(why), "stack-args-offset-fp");
  const uint64_t* base = ctx.stack_copy;
  for (uint32_t i = 0; i + 8 <= nstack_al && !why[0]; i += 8) if (base[i / 8] != 0x5A5A000000000000ull + i) snprintf(why, sizeof(why), "argument-area-clobbered +%u value=%#llx body_sp=%#llx call_sp=%#llx", i, (unsigned long long)base[i / 8], (unsigned long long)ctx.body_sp, (unsigned long long)ctx.call_sp);
  for (uint32_t i = 0; i < kGuard && !why[0]; i += 8) if (base[(nstack_al + i) / 8] != 0x6A6A000000000000ull + i) snprintf(why, sizeof(why), "caller-frame-clobbered +%u", i);
  if (why[0]) printf("X %s\n", why); else printf("X ok body_sp_mod64=%u\n", unsigned(ctx.body_sp % 64));
}

// ------------------------------------------------------------------------------------------------------------------
// N ... seed : a function compiled by the real x86::Compiler for the host (SysV x86-64) is executed natively under the same
// frame monitor: up to 24 integer arguments that all stay live to the end (so stack-passed arguments get no register at
// entry), optional 32/64-byte aligned stack variable (dynamic alignment, arguments must be MOVED into local slots), register
// pressure (spills), calls of a real 9-argument helper (call area => local_stack_offset != 0), optional preserved FP.
// Checked: the returned value (= what the source program computes), rsp, every callee-saved GP register, the caller's frame.
// ------------------------------------------------------------------------------------------------------------------
extern "C" __attribute__((noinline)) uint64_t c07_helper9(uint64_t a, uint64_t b, uint64_t c, uint64_t d, uint64_t e, uint64_t f, uint64_t g, uint64_t h, uint64_t i) {
  volatile uint64_t sink[8];
  for (int k = 0; k < 8; k++) sink[k] = a * (k + 3);       // uses its own frame (and the red zone) like any callee
  (void)sink;
  return a + b + c + d + e + f + g + h + i + 7;
}

extern "C" __attribute__((noinline, ms_abi)) uint64_t c07_helper9_win(uint64_t a, uint64_t b, uint64_t c, uint64_t d, uint64_t e, uint64_t f, uint64_t g, uint64_t h, uint64_t i) {
  volatile uint64_t sink[8];
  for (int k = 0; k < 8; k++) sink[k] = a * (k + 3);
  (void)sink;
  return a + b + c + d + e + f + g + h + i + 7;
}

static void run_native_compiled(const Cmd& c) {
  using namespace x86;
  const bool win = c.plat == 1;     // Win64 convention (callee-saved rdi/rsi/xmm6-15, 32-byte home area) called through our own trampoline
  Rng rng{c.salt * 0x9E3779B97F4A7C15ull + 0xABCDEFull};
  rng.next();
  unsigned nargs = rng.below(25), ngp = rng.below(20), ncalls = rng.below(3), nvec = rng.below(14);
  bool fp = rng.below(3) == 0, aligned_local = rng.below(2) == 0;
  unsigned local_align = rng.below(2) ? 32 : 64;
  JitRuntime rt;
  CodeHolder code;
  Environment cenv = rt.environment();
  if (win) { cenv.set_platform(Platform::kWindows); cenv.set_platform_abi(PlatformABI::kMSVC); }
  code.init(cenv);
  x86::Compiler cc(&code);
  FuncSignature sig;
  sig.set_call_conv_id(CallConvId::kCDecl);
  sig.set_ret(TypeId::kUIntPtr);
  for (unsigned i = 0; i < nargs; i++) sig.add_arg(TypeId::kUIntPtr);
  FuncSignature callee;
  callee.set_call_conv_id(CallConvId::kCDecl);
  callee.set_ret(TypeId::kUIntPtr);
  for (unsigned i = 0; i < 9; i++) callee.add_arg(TypeId::kUIntPtr);
  FuncNode* fn = cc.add_func(sig);
  if (!fn) { printf("N skip gen\n"); return; }
  if (fp) fn->frame().set_preserved_fp();
  // concrete argument values: registers rdi rsi rdx rcx r8 r9, then the stack pattern of the trampoline
  NativeCtx& ctx = g_ctx;
  uint64_t salt = c.salt * 0x2545F4914F6CDD1Dull + 99;
  auto rnd = [&]() { salt ^= salt << 13; salt ^= salt >> 7; salt ^= salt << 17; return salt; };
  for (int i = 0; i < 16; i++) ctx.gp_in[i] = rnd() | 1;
  static const unsigned arg_regs_sysv[6] = { 7, 6, 2, 1, 8, 9 };
  static const unsigned arg_regs_win[4] = { 1, 2, 8, 9 };
  const unsigned nreg_args = win ? 4 : 6;
  std::vector<x86::Gp> v; std::vector<uint64_t> val;
  for (unsigned i = 0; i < nargs; i++) {
    x86::Gp a = cc.new_gp64(); fn->set_arg(i, a); v.push_back(a);
    if (i < nreg_args) val.push_back(ctx.gp_in[win ? arg_regs_win[i] : arg_regs_sysv[i]]);
    else val.push_back(0x5A5A000000000000ull + (win ? 32 + 8 * (i - 4) : 8 * (i - 6)));
  }
  // vector values that stay live across the calls (xmm6-15 are callee-saved on Win64, everything is spilled on SysV)
  std::vector<x86::Vec> xv; uint32_t vec_sum = 0;
  for (unsigned i = 0; i < nvec; i++) {
    x86::Vec x = cc.new_xmm(); x86::Gp t = cc.new_gp32(); uint32_t cst = 0x01010101u * (i + 1) + 7u * i;
    cc.mov(t, cst); cc.movd(x, t); xv.push_back(x); vec_sum += cst;
  }
  for (unsigned i = 0; i < ngp; i++) { x86::Gp r = cc.new_gp64(); cc.mov(r, i + 1); v.push_back(r); val.push_back(i + 1); }
  x86::Mem slot;
  if (aligned_local) {
    slot = cc.new_stack(local_align, local_align);
    x86::Gp t = cc.new_gp64(); cc.mov(t, 0x1122334455ull); cc.mov(slot, t);
  }
  for (unsigned k = 0; k < ncalls && !v.empty(); k++) {
    InvokeNode* inv = nullptr;
    if (cc.invoke(Out(inv), win ? uint64_t(uintptr_t(&c07_helper9_win)) : uint64_t(uintptr_t(&c07_helper9)), callee) != Error::kOk) { printf("N skip invoke\n"); return; }
    uint64_t r = 7;
    for (unsigned i = 0; i < 9; i++) { inv->set_arg(i, v[(i + k) % v.size()]); r += val[(i + k) % v.size()]; }
    x86::Gp rr = cc.new_gp64(); inv->set_ret(0, rr); v.push_back(rr); val.push_back(r);
  }
  x86::Gp acc = cc.new_gp64(); cc.xor_(acc, acc);
  uint64_t expected = 0;
  // diamonds (both arms are generated; the concrete argument values decide which one runs) and a counted loop
  unsigned ndiamonds = rng.below(2) ? rng.below(4) : 0;
  bool with_loop = rng.below(4) == 0;
  for (unsigned d = 0; d < ndiamonds && v.size() >= 2; d++) {
    Label L_else = cc.new_label(), L_end = cc.new_label();
    size_t ia = d % v.size(), ib = (d % 2) ? ia : (d * 5 + 1) % v.size();      // odd diamonds take the else arm
    x86::Gp u = cc.new_gp64(); cc.mov(u, 1);
    cc.cmp(v[ia], v[ib]);
    cc.jz(L_else);
    uint64_t then_val = 1000 + d;
    { x86::Gp t = cc.new_gp64(); cc.mov(t, 1000 + d); for (unsigned k = 0; k < 6 && k < v.size(); k++) { cc.add(t, v[(k * 3 + d) % v.size()]); then_val += val[(k * 3 + d) % v.size()]; } cc.add(acc, t); }
    cc.jmp(L_end);
    cc.bind(L_else);
    { x86::Gp t = cc.new_gp64(); cc.mov(t, 2000 + d); cc.mov(u, 3); cc.add(t, u); cc.add(acc, t); }
    cc.bind(L_end);
    bool taken_else = (val[ia] == val[ib]);
    expected += taken_else ? uint64_t(2000 + d + 3) : then_val;
    v.push_back(u); val.push_back(taken_else ? 3 : 1);
  }
  if (with_loop) {
    Label L_loop = cc.new_label(); x86::Gp cnt = cc.new_gp64(); cc.mov(cnt, 3);
    cc.bind(L_loop);
    for (size_t k = 0; k < v.size(); k += 2) { cc.add(acc, v[k]); expected += 3 * val[k]; }
    cc.dec(cnt);
    cc.jnz(L_loop);
  }
  for (size_t i = 0; i < v.size(); i++) { cc.add(acc, v[i]); expected += val[i]; }
  if (aligned_local) { cc.add(acc, slot); expected += 0x1122334455ull; }
  if (!xv.empty()) {
    for (size_t i = 1; i < xv.size(); i++) cc.paddd(xv[0], xv[i]);
    x86::Gp t = cc.new_gp64(); cc.movd(t.r32(), xv[0]); cc.add(acc, t); expected += uint64_t(vec_sum);
  }
  cc.ret(acc);
  cc.end_func();
  if (cc.finalize() != Error::kOk) { printf("N skip finalize\n"); return; }
  void (*target)() = nullptr;
  if (rt.add(&target, &code) != Error::kOk) { printf("N skip jit\n"); return; }
  const FuncFrame& f = fn->frame();

  // trampoline
  uint32_t nstack = win ? 32 + (nargs > 4 ? 8 * (nargs - 4) : 0) : (nargs > 6 ? 8 * (nargs - 6) : 0);
  for (int i = 0; i < 32; i++) for (int j = 0; j < 16; j++) ctx.vec_in[i][j] = uint8_t(rnd() >> 9);
  memset(ctx.vec_out, 0, sizeof(ctx.vec_out));
  uint32_t nstack_al = (nstack + 15u) & ~15u;
  const uint32_t kGuard = 64;
  ctx.pad = 16 * (rnd() % 8);
  memset(ctx.gp_out, 0, sizeof(ctx.gp_out));
  ctx.exit_sp = ctx.call_sp = 0;
  CodeHolder code2;
  code2.init(rt.environment());
  Assembler a(&code2);
  Gp cx = rbx;
  auto O = [&](size_t off) { return int32_t(off); };
  Label L_tgt = a.new_label();
  a.push(rbx); a.push(rbp); a.push(r12); a.push(r13); a.push(r14); a.push(r15);
  a.mov(cx, uint64_t(uintptr_t(&ctx)));
  a.mov(ptr(cx, O(offsetof(NativeCtx, saved_rsp))), rsp);
  a.and_(rsp, -64);
  a.sub(rsp, ptr(cx, O(offsetof(NativeCtx, pad))));
  a.sub(rsp, int32_t(kGuard));
  for (uint32_t i = 0; i < kGuard; i += 8) { a.mov(rax, uint64_t(0x6A6A000000000000ull + i)); a.mov(ptr(rsp, int32_t(i)), rax); }
  if (nstack_al) a.sub(rsp, int32_t(nstack_al));
  for (uint32_t i = 0; i + 8 <= nstack_al; i += 8) { a.mov(rax, uint64_t(0x5A5A000000000000ull + i)); a.mov(ptr(rsp, int32_t(i)), rax); }
  a.mov(ptr(cx, O(offsetof(NativeCtx, call_sp))), rsp);
  for (uint32_t i = 0; i < 16; i++) a.movups(Vec::make_xmm(i), ptr(cx, O(offsetof(NativeCtx, vec_in) + 16 * i)));
  for (uint32_t i = 0; i < 16; i++) { if (i == Gp::kIdSp || i == Gp::kIdBx) continue; a.mov(Gp::make_r64(i), ptr(cx, O(offsetof(NativeCtx, gp_in) + 8 * i))); }
  a.mov(rbx, ptr(cx, O(offsetof(NativeCtx, gp_in) + 8 * Gp::kIdBx)));
  a.call(ptr(L_tgt));
  a.mov(ptr(rsp, -8), rax);
  a.mov(rax, uint64_t(uintptr_t(&ctx)));
  for (uint32_t i = 1; i < 16; i++) { if (i == Gp::kIdSp) continue; a.mov(ptr(rax, O(offsetof(NativeCtx, gp_out) + 8 * i)), Gp::make_r64(i)); }
  a.mov(rcx, ptr(rsp, -8)); a.mov(ptr(rax, O(offsetof(NativeCtx, gp_out))), rcx);
  a.mov(ptr(rax, O(offsetof(NativeCtx, exit_sp))), rsp);
  for (uint32_t i = 0; i < 16; i++) a.movups(ptr(rax, O(offsetof(NativeCtx, vec_out) + 16 * i)), Vec::make_xmm(i));
  a.cld(); a.lea(rsi, ptr(rsp, int32_t(nstack_al))); a.lea(rdi, ptr(rax, O(offsetof(NativeCtx, stack_copy)))); a.mov(ecx, kGuard / 8); a.rep().movsq();
  a.mov(rsp, ptr(rax, O(offsetof(NativeCtx, saved_rsp))));
  a.vzeroupper();
  a.pop(r15); a.pop(r14); a.pop(r13); a.pop(r12); a.pop(rbp); a.pop(rbx);
  a.ret();
  a.align(AlignMode::kData, 8);
  a.bind(L_tgt);
  a.embed_uint64(uint64_t(uintptr_t(target)));
  void (*tramp)() = nullptr;
  if (rt.add(&tramp, &code2) != Error::kOk) { printf("N skip jit2\n"); return; }
  static bool handlers = false;
  if (!handlers) {
    static uint8_t altstack[1 << 16];
    stack_t ss; ss.ss_sp = altstack; ss.ss_size = sizeof(altstack); ss.ss_flags = 0; sigaltstack(&ss, nullptr);
    struct sigaction sa; memset(&sa, 0, sizeof(sa)); sa.sa_handler = on_fault; sa.sa_flags = SA_ONSTACK | SA_NODEFER;
    sigaction(SIGSEGV, &sa, nullptr); sigaction(SIGBUS, &sa, nullptr); sigaction(SIGILL, &sa, nullptr); sigaction(SIGFPE, &sa, nullptr);
    handlers = true;
  }
  g_sig = 0;
  if (sigsetjmp(g_jmp, 1) == 0) tramp();
  rt.release(tramp); rt.release(target);
  char shape[160];
  snprintf(shape, sizeof(shape), "abi=%s nvec=%u nargs=%u ngp=%u calls=%u fp=%d alignedLocal=%u da=%d localOff=%u callSize=%u", win ? "win64" : "sysv", nvec, nargs, ngp, ncalls, int(fp),
           aligned_local ? local_align : 0, int(f.has_dynamic_alignment()), f.local_stack_offset(), f.call_stack_size());
  if (g_sig) { printf("N fault signal %d [%s]\n", g_sig, shape); return; }
  char why[200]; why[0] = 0;
  if (ctx.gp_out[0] != expected) snprintf(why, sizeof(why), "wrong-result expected=%#llx got=%#llx", (unsigned long long)expected, (unsigned long long)ctx.gp_out[0]);
  if (!why[0] && ctx.exit_sp != ctx.call_sp) snprintf(why, sizeof(why), "sp-after-return %+lld", (long long)(ctx.exit_sp - ctx.call_sp));
  static const unsigned pres[8] = { 3, 5, 12, 13, 14, 15, 6, 7 };
  for (unsigned k = 0; k < (win ? 8u : 6u) && !why[0]; k++) if (ctx.gp_out[pres[k]] != ctx.gp_in[pres[k]]) snprintf(why, sizeof(why), "callee-saved-gp %u", pres[k]);
  for (unsigned k = 6; win && k < 16 && !why[0]; k++) if (memcmp(ctx.vec_in[k], ctx.vec_out[k], 16) != 0) snprintf(why, sizeof(why), "callee-saved-xmm %u", k);
  for (uint32_t i = 0; i < kGuard && !why[0]; i += 8) if (ctx.stack_copy[i / 8] != 0x6A6A000000000000ull + i) snprintf(why, sizeof(why), "caller-frame-clobbered +%u", i);
  if (why[0]) printf("N %s [%s]\n", why, shape); else printf("N ok [%s]\n", shape);
}
#else
static void run_native(const Cmd&) { printf("X skip\n"); }
static void run_native_compiled(const Cmd&) { printf("N skip\n"); }
#endif

// S n (size align flags usecount)*  ->  S <err> <stack_size> <alignment> <n> then per slot, in the order calculate_stack_frame
// processed them (after its weight sort): <original index> <size> <alignment> <isStackArg> <offset>
static void do_slots(const char* line) {
  std::vector<unsigned> v;
  const char* p = line + 1;
  char* end;
  for (;;) { unsigned long x = strtoul(p, &end, 10); if (end == p) break; v.push_back(unsigned(x)); p = end; }
  if (v.empty() || v.size() != 1 + 4 * size_t(v[0]) || v[0] > 250) { printf("BAD\n"); return; }
  Arena arena(4096);
  RAStackAllocator alloc;
  alloc.reset(&arena);
  for (unsigned i = 0; i < v[0]; i++) {
    RAStackSlot* slot = alloc.new_slot(i, v[1 + 4 * i], v[2 + 4 * i], v[3 + 4 * i]);
    if (!slot) { printf("S 1\n"); return; }
    slot->add_use_count(v[4 + 4 * i]);
  }
  Error err = alloc.calculate_stack_frame();
  printf("S %u %u %u %u", unsigned(err), alloc.stack_size(), alloc.alignment(), unsigned(alloc.slot_count()));
  for (RAStackSlot* slot : alloc.slots())
    printf(" %u %u %u %u %d", unsigned(slot->_base_reg_id), unsigned(slot->size()), unsigned(slot->alignment()), unsigned(slot->is_stack_arg()), int(slot->offset()));
  printf("\n");
}

int main() {
  char line[8192];
  while (fgets(line, sizeof(line), stdin)) {
    Cmd c; memset(&c, 0, sizeof(c));
    char k = 0;
    if (line[0] == 'S') { do_slots(line); fflush(stdout); continue; }
    int n = sscanf(line, " %c %u %u %u %u %u %u %u %u %u %u %u %u %u %u %llu", &k, &c.arch, &c.plat, &c.cc, &c.nargs, &c.attrs,
                   &c.dirty[0], &c.dirty[1], &c.dirty[2], &c.dirty[3], &c.lsize, &c.lalign, &c.csize, &c.calign, &c.sareg, &c.salt);
    if (n < 15) { if (n >= 1) printf("BAD\n"); continue; }
    if (k == 'F') do_frame(c);
    else if (k == 'C') do_compiled(c);
    else if (k == 'A') do_args_frame(c);
    else if (k == 'N') run_native_compiled(c);
    else if (k == 'X') run_native(c);
    else printf("BAD\n");
    fflush(stdout);
  }
  return 0;
}

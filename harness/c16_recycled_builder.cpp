// C16 -- command-level correspondence for RECYCLED builders.
// The command streams, the way commands are applied and the canonical dump are C08's (harness/c08_harness.cpp is included, its
// main renamed); the only difference: the Builder / Compiler that executes a program has been USED before and re-initialised
// (CodeHolder::reinit(), or reset() + init() + attach()), so it starts with whatever the earlier use left behind (node arena,
// vectors, _dirty_section_links = true, one-shot state ...). Its per-command answers "p<idx> STEP|STEPC <i> <err> <hash>" must be
// the ones C08's extracted Coq model (Builder.step from init_state) prints for the same stream.
#define main c08_main
#include "c08_harness.cpp"
#undef main

template<typename BuilderT>
static void dirty_and_recycle(Env& env, BuilderT& b, int how) {
  // earlier use: labels, a second and third section with switches back and forth (leaves _dirty_section_links set), data,
  // an instruction with one-shot state left dangling
  Label l0 = b.new_label(), l1 = b.new_label();
  Section* s1 = nullptr; Section* s2 = nullptr;
  (void)env.code.new_section(Out(s1), ".dirty1", SIZE_MAX, SectionFlags::kNone, 8);
  (void)env.code.new_section(Out(s2), ".dirty2", SIZE_MAX, SectionFlags::kNone, 16);
  (void)b.bind(l0);
  uint8_t data[24]; memset(data, 0x5A, sizeof(data));
  (void)b.embed(data, sizeof(data));
  if (s1) (void)b.section(s1);
  (void)b.embed(data, 7);
  if (s2) (void)b.section(s2);
  (void)b.bind(l1);
  (void)b.section(env.code.text_section());
  if (s1) (void)b.section(s1);
  (void)b.comment("earlier use");
  b.set_inline_comment("dangling");
  b.add_inst_options(InstOptions::kOverwrite);
  if (how == 0) {
    (void)env.code.reinit();
  }
  else {
    env.code.reset(how == 1 ? ResetPolicy::kSoft : ResetPolicy::kHard);
    (void)env.code.init(Environment(env.code.arch() == Arch::kUnknown ? Arch::kX64 : env.code.arch()));
  }
}

template<typename BuilderT>
static void run_recycled(const Program& p, int pidx, const char* tag, int how, std::string& out) {
  Env env;
  Environment environment(arch_of(p.arch));
  env.code.init(environment);
  BuilderT b(&env.code);
  if (how == 0) {
    dirty_and_recycle(env, b, 0);
  }
  else {
    // reset detaches the builder: init with the same environment and attach again
    Label l0 = b.new_label(); (void)b.bind(l0);
    Section* s1 = nullptr; (void)env.code.new_section(Out(s1), ".dirty1", SIZE_MAX, SectionFlags::kNone, 8);
    if (s1) { (void)b.section(s1); (void)b.section(env.code.text_section()); (void)b.section(s1); }
    b.set_inline_comment("dangling");
    env.code.reset(how == 1 ? ResetPolicy::kSoft : ResetPolicy::kHard);
    (void)env.code.init(environment);
    (void)env.code.attach(&b);
  }
  env.sections.clear();
  env.sections.push_back(env.code.text_section());
  if (p.flags & 4) b.add_diagnostic_options(DiagnosticOptions::kValidateIntermediate | DiagnosticOptions::kValidateAssembler);
  BuilderCtx bc; bc.b = &b;
  char buf[128];
  for (size_t i = 0; i < p.cmds.size(); i++) {
    const Cmd& c = p.cmds[i];
    uint32_t e = is_edit(c.k) ? apply_edit(bc, c) : apply(&b, env, c);
    prune_pool(bc);
    if (!list_intact(&b)) { out += "p" + std::to_string(pidx) + " CORRUPT " + tag + " " + std::to_string(i) + "\n"; break; }
    std::string d = dump(bc, uint32_t(env.sections.size()));
    snprintf(buf, sizeof(buf), "p%d %s %zu %u %" PRIu64 "\n", pidx, tag, i, e, hash_str(d));
    out += buf;
  }
}

// mode 3: detach + attach. The leading new-label / new-section commands of the stream are executed first (they only change the
// HOLDER's counters: C16_reattach_*, fresh_on_holder); then the builder records junk (section switches among the existing
// sections, data, a dangling one-shot state), is detached and attached again -- the holder keeps its labels and sections -- and
// executes the rest of the stream. C08's model runs the whole stream from its initial state (prefix = with_counts).
template<typename BuilderT>
static void run_reattached(const Program& p, int pidx, const char* tag, std::string& out) {
  Env env;
  env.code.init(Environment(arch_of(p.arch)));
  env.sections.push_back(env.code.text_section());
  BuilderT b(&env.code);
  if (p.flags & 4) b.add_diagnostic_options(DiagnosticOptions::kValidateIntermediate | DiagnosticOptions::kValidateAssembler);
  BuilderCtx bc; bc.b = &b;
  char buf[128];
  size_t prefix = 0;
  while (prefix < p.cmds.size() && (p.cmds[prefix].k == "NL" || p.cmds[prefix].k == "NS")) prefix++;
  for (size_t i = 0; i < p.cmds.size(); i++) {
    if (i == prefix) {
      uint8_t data[24]; memset(data, 0x5A, sizeof(data));
      (void)b.embed(data, sizeof(data));
      for (size_t k = env.sections.size(); k-- > 0;) (void)b.section(env.sections[k]);
      (void)b.embed(data, 5);
      (void)b.comment("earlier use");
      b.set_inline_comment("dangling");
      b.add_inst_options(InstOptions::kOverwrite);
      (void)env.code.detach(&b);
      (void)env.code.attach(&b);
      bc.pool.clear();
    }
    const Cmd& c = p.cmds[i];
    uint32_t e = is_edit(c.k) ? apply_edit(bc, c) : apply(&b, env, c);
    prune_pool(bc);
    if (!list_intact(&b)) { out += "p" + std::to_string(pidx) + " CORRUPT " + tag + " " + std::to_string(i) + "\n"; break; }
    std::string d = dump(bc, uint32_t(env.sections.size()));
    snprintf(buf, sizeof(buf), "p%d %s %zu %u %" PRIu64 "\n", pidx, tag, i, e, hash_str(d));
    out += buf;
  }
}

int main(int argc, char** argv) {
  int how = argc > 1 ? atoi(argv[1]) : 0;        // 0 reinit, 1 soft reset + init + attach, 2 hard reset + init + attach, 3 detach + attach (holder kept)
  std::string line;
  Program p; bool in_ref = false; int pidx = -1; bool have = false;
  while (std::getline(std::cin, line)) {
    if (line.empty() || line[0] == '#') continue;
    std::istringstream is(line);
    std::vector<std::string> t; std::string w;
    while (is >> w) t.push_back(w);
    if (t.empty()) continue;
    if (t[0] == "P") {
      p = Program(); in_ref = false; have = true;
      pidx = int(num(t[1])); p.arch = int(num(t[2])); p.base[0] = num(t[3]); p.base[1] = num(t[4]); p.flags = int(num(t[5]));
      continue;
    }
    if (!have) continue;
    if (t[0] == "X") { in_ref = true; continue; }
    if (t[0] == "END") {
      std::string out;
      if (!(p.flags & 2)) {
        if (how == 3) {
          if (p.arch == 2) { run_reattached<a64::Builder>(p, pidx, "STEP", out); run_reattached<a64::Compiler>(p, pidx, "STEPC", out); }
          else { run_reattached<x86::Builder>(p, pidx, "STEP", out); run_reattached<x86::Compiler>(p, pidx, "STEPC", out); }
        }
        else if (p.arch == 2) { run_recycled<a64::Builder>(p, pidx, "STEP", how, out); run_recycled<a64::Compiler>(p, pidx, "STEPC", how, out); }
        else { run_recycled<x86::Builder>(p, pidx, "STEP", how, out); run_recycled<x86::Compiler>(p, pidx, "STEPC", how, out); }
      }
      fputs(out.c_str(), stdout); fflush(stdout); have = false; continue;
    }
    Cmd c;
    size_t at = 0;
    if (t[0][0] == '@') { c.origin = int(num(t[0].substr(1))); at = 1; }
    c.k = t[at];
    c.a.assign(t.begin() + long(at) + 1, t.end());
    (in_ref ? p.ref : p.cmds).push_back(c);
  }
  return 0;
}

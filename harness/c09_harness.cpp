// C09 harness: line-protocol driver of the REAL asmjit::JitAllocator, with the black-box monitor of c09_monitor.h.
//
// stdin -> stdout, one answer line per input line (+ optional "!V ..." monitor lines right after the answer line of the
// op that exposed them). All numbers decimal, tokens separated by single spaces. One process handles many histories.
//
//   H g bs opt   new history: JitAllocator(CreateParams{options=opt, block_size=bs, granularity=g, fill_pattern=0xA5C3A5C3})
//                -> "H <is_initialized> <pool_count> <impl.granularity> <impl.block_size>"
//   A size       alloc; consumes the next handle number h=0,1,2,...   -> "A ok <blk> <off> <len> <digest> <block bytes> <pool>" | "A <err>"
//   R h          release(span[h].rx())          -> "R skip" | "R <err> <blk> <digest>" | "R <err> <blk> deleted"
//   S h n        shrink(span[h], n)             -> "S skip" | "S <err> <len_after> <blk> <digest>" | "S <err> <len_after> <blk> deleted"
//   Q h d        query(rx_of_h + d), live or dead handle -> "Q skip" | "Q ok <blk> <off> <len>" | "Q <err>"
//   F k          foreign pointers (k=0 release(null), 1 release(static buf), 2 query(static buf), 3 query(null)) -> "F <err>"
//   Z k          reset(k==0 ? soft : hard)      -> "Z <blocks> <allocs> <used> <reserved>"
//   T            statistics                     -> "T <blocks> <allocs> <used> <reserved>"
//   W h          content write on a live handle -> "W skip" | "W <err>"
//   D            dump blocks                    -> "D <n> <blk>:<pool>:<bytes>:<area_size>:<ss>:<se>:<lua>:<f>:<au> ..."
//   X            end of history                 -> "X"
//   empty line / '#...' ignored; anything else  -> "BAD";  every line of a poisoned history -> "P"
//   a signal (SIGSEGV, ...) raised inside alloc/release/shrink/query/reset -> "<op> crash", "!V crash ...", poisoned
//
//   <err>    = ok | oom | inval_arg | inval_state | too_large | not_init | err<N>
//   <digest> = <search_start> <search_end> <largest_unused_area> <f> <area_used>,  f = Empty*1 + Dirty*2 + Incremental*4
#include <cerrno>
#include <cinttypes>
#include <csetjmp>
#include <csignal>
#include <cstdint>
#include <cstdio>
#include <cstdlib>
#include <cstring>
#include <algorithm>
#include <map>
#include <new>
#include <string>
#include <vector>

#include "c09_monitor.h"

#include <sys/resource.h>
#include <unistd.h>
#include <asmjit/core.h>
#include <asmjit/core/jitallocator.cpp>   // file-static JitAllocatorPrivateImpl / JitAllocatorPool / JitAllocatorBlock

using namespace asmjit;

namespace {

// ---------------------------------------------------------------------------------------------------------------------
// Output
// ---------------------------------------------------------------------------------------------------------------------

static char g_outbuf[1 << 22];

static const char* err_name(Error e, char* tmp) {
  switch (e) {
    case Error::kOk: return "ok";
    case Error::kOutOfMemory: return "oom";
    case Error::kInvalidArgument: return "inval_arg";
    case Error::kInvalidState: return "inval_state";
    case Error::kTooLarge: return "too_large";
    case Error::kNotInitialized: return "not_init";
    default: snprintf(tmp, 32, "err%u", unsigned(e)); return tmp;
  }
}

// Crashes. Every call into the allocator runs inside guarded(): a SIGSEGV/SIGBUS/... raised there is turned into
// "<op> crash" + "!V crash ..." and the history is poisoned (the allocator is leaked). A crash anywhere else must not
// lose the answers already produced: flush them, say "CRASH <signo>" and die with the original signal.
static sigjmp_buf g_jmp;
static volatile sig_atomic_t g_guard = 0;

static void crash_handler(int sig) {
  if (g_guard) { g_guard = 0; siglongjmp(g_jmp, sig); }
  signal(sig, SIG_DFL);
  fflush(stdout);
  char msg[32];
  int n = snprintf(msg, sizeof(msg), "CRASH %d\n", sig);
  if (n > 0) { ssize_t w = write(1, msg, size_t(n)); (void)w; }
  raise(sig);
}

static void install_handlers() {
  static const int sigs[] = { SIGSEGV, SIGBUS, SIGFPE, SIGILL, SIGABRT };
  for (int sg : sigs) {
    struct sigaction sa;
    memset(&sa, 0, sizeof(sa));
    sa.sa_handler = crash_handler;
    sa.sa_flags = SA_NODEFER;       // the handler may leave through siglongjmp without restoring the mask
    sigemptyset(&sa.sa_mask);
    sigaction(sg, &sa, nullptr);
  }
}

// Returns 0 if `f` ran to completion, else the number of the signal that interrupted it.
template<typename F>
__attribute__((noinline)) static int guarded(F&& f) {
  int sig = sigsetjmp(g_jmp, 0);
  if (sig == 0) { g_guard = 1; f(); g_guard = 0; return 0; }
  return sig;
}

// ---------------------------------------------------------------------------------------------------------------------
// State of one history
// ---------------------------------------------------------------------------------------------------------------------

struct Handle {
  JitAllocator::Span span;
  void* rx = nullptr;        // remembered rx (survives release / shrink-to-zero)
  bool ever_ok = false;
  bool live = false;
  uint32_t epoch = 0;        // live only if epoch == History::epoch (reset kills all handles)
  int64_t blk = -1;          // serial of the block at allocation time
  size_t requested = 0;
  uint64_t seed = 0;
  bool no_touch = false;
};

struct BlockEnt {
  JitAllocatorBlock* ptr;
  C09Block info;
};

struct History {
  JitAllocator* alloc = nullptr;
  JitAllocatorPrivateImpl* impl = nullptr;   // nullptr if construction failed
  uint64_t index = 0;
  uint64_t op = 0;
  uint32_t opt = 0;
  uint32_t g0 = 0;
  uint32_t epoch = 0;
  uint64_t write_counter = 0;
  int64_t next_serial = 0;
  bool active = false;
  bool poisoned = false;
  std::vector<Handle> handles;
  std::vector<BlockEnt> blocks;              // pool 0..n-1, inside a pool in list order
  std::vector<C09Block> table;               // same order, what the monitor gets
};

static History H;
static C09Monitor M;
static std::vector<uint8_t> g_pattern;
static std::vector<JitAllocatorBlock*> g_walk;
alignas(64) static uint8_t g_foreign[4096];

static inline bool handle_live(const Handle& h) { return h.live && h.epoch == H.epoch; }

// Walks all pools; returns true (and rebuilds H.blocks / H.table) if the set of blocks changed.
static bool refresh_blocks() {
  if (!H.impl) return false;
  g_walk.clear();
  for (size_t p = 0; p < H.impl->pool_count; p++)
    for (JitAllocatorBlock* b = H.impl->pools[p].blocks.first(); b; b = b->next()) g_walk.push_back(b);

  bool same = g_walk.size() == H.blocks.size();
  for (size_t i = 0; same && i < g_walk.size(); i++) same = g_walk[i] == H.blocks[i].ptr;
  if (same) return false;

  std::vector<BlockEnt> nb;
  nb.reserve(g_walk.size());
  for (JitAllocatorBlock* b : g_walk) {
    BlockEnt e;
    e.ptr = b;
    int64_t serial = -1;
    for (const BlockEnt& o : H.blocks) if (o.ptr == b) { serial = o.info.serial; break; }
    if (serial < 0) serial = H.next_serial++;
    e.info.serial = serial;
    e.info.rx_base = uintptr_t(b->rx_ptr());
    e.info.rw_base = uintptr_t(b->rw_ptr());
    e.info.bytes = b->block_size();
    e.info.pool = uint32_t(b->pool() - H.impl->pools);
    e.info.pool_granularity = b->pool()->granularity;
    e.info.has_padding = b->has_initial_padding();
    nb.push_back(e);
  }
  H.blocks.swap(nb);
  H.table.clear();
  for (const BlockEnt& e : H.blocks) H.table.push_back(e.info);
  return true;
}

static const BlockEnt* block_by_ptr(const void* p) { for (const BlockEnt& e : H.blocks) if (e.ptr == p) return &e; return nullptr; }
static const BlockEnt* block_by_serial(int64_t s) { for (const BlockEnt& e : H.blocks) if (e.info.serial == s) return &e; return nullptr; }
static const BlockEnt* block_by_addr(uintptr_t a) { for (const BlockEnt& e : H.blocks) if (a - e.info.rx_base < e.info.bytes) return &e; return nullptr; }

// Walks the RB-tree of blocks without ever dereferencing a pointer that is not a block of the pools' lists. Returns
// false (and a description) if a node links to an unknown pointer or the tree does not hold exactly the listed blocks.
// (Used after reset(): a block kept by a soft reset is re-inserted into the tree with whatever links it had before.)
static bool tree_is_sane(char* why, size_t why_size) {
  if (!H.impl) return true;
  std::vector<const JitAllocatorBlock*> stack;
  size_t reached = 0;
  const JitAllocatorBlock* root = H.impl->tree.root();
  if (root) {
    if (!block_by_ptr(root)) { snprintf(why, why_size, "tree root is not a listed block"); return false; }
    if (root->is_red()) { snprintf(why, why_size, "tree root blk=%" PRId64 " is red (stale colour bit)", block_by_ptr(root)->info.serial); return false; }
    stack.push_back(root);
  }
  while (!stack.empty()) {
    const JitAllocatorBlock* n = stack.back(); stack.pop_back();
    if (++reached > H.blocks.size()) { snprintf(why, why_size, "tree reaches more nodes than there are blocks (%" PRIu64 ")", uint64_t(H.blocks.size())); return false; }
    for (size_t i = 0; i < 2; i++) {
      const ArenaTreeNode* c = n->_get_child(i);
      if (!c) continue;
      const BlockEnt* be = nullptr;
      for (const BlockEnt& e : H.blocks) if (static_cast<const ArenaTreeNode*>(e.ptr) == c) { be = &e; break; }
      if (!be) {
        snprintf(why, why_size, "blk=%" PRId64 " has a %s tree link to a pointer that is not a block (stale link)", block_by_ptr(n)->info.serial, i ? "right" : "left");
        return false;
      }
      if (n->is_red() && be->ptr->is_red()) { snprintf(why, why_size, "red blk=%" PRId64 " has red child blk=%" PRId64, block_by_ptr(n)->info.serial, be->info.serial); return false; }
      stack.push_back(be->ptr);
    }
  }
  if (reached != H.blocks.size()) { snprintf(why, why_size, "tree holds %" PRIu64 " blocks, lists hold %" PRIu64, uint64_t(reached), uint64_t(H.blocks.size())); return false; }
  // the search-tree order the lookup relies on (JitTree.v `ordered`): in-order, the mappings are increasing and disjoint
  {
    std::vector<const JitAllocatorBlock*> order;
    std::vector<std::pair<const JitAllocatorBlock*, int>> st2;   // explicit in-order walk (all links are known blocks now)
    const JitAllocatorBlock* cur = root;
    while (cur || !st2.empty()) {
      while (cur) { st2.push_back({cur, 0}); cur = static_cast<const JitAllocatorBlock*>(cur->_get_child(0)); }
      cur = st2.back().first; st2.pop_back();
      order.push_back(cur);
      cur = static_cast<const JitAllocatorBlock*>(cur->_get_child(1));
      if (order.size() > H.blocks.size()) break;
    }
    for (size_t i = 0; i + 1 < order.size(); i++) {
      uintptr_t a = uintptr_t(order[i]->rx_ptr()), b = uintptr_t(order[i + 1]->rx_ptr());
      if (a + order[i]->block_size() > b) {
        snprintf(why, why_size, "tree is not ordered: blk=%" PRId64 " precedes blk=%" PRId64 " in-order but its mapping does not end before it",
                 block_by_ptr(order[i])->info.serial, block_by_ptr(order[i + 1])->info.serial);
        return false;
      }
    }
  }
  return true;
}

// Observation of fill events (kFillUnusedMemory): snapshot of the block's bytes (rx view) before release/shrink; afterwards
// the range of bytes that changed, as offset/length inside the block (0 0 if nothing changed).
static std::vector<uint8_t> g_snap;
static int64_t g_snap_serial = -1;
static void fill_snapshot(int64_t serial) {
  g_snap_serial = -1;
  if (!(H.opt & 4u)) return;
  const BlockEnt* be = block_by_serial(serial);
  if (!be) return;
  g_snap.resize(be->info.bytes);
  memcpy(g_snap.data(), reinterpret_cast<const void*>(be->info.rx_base), be->info.bytes);
  g_snap_serial = serial;
}
static int fill_observed(char* out, size_t n) {
  out[0] = 0;
  if (g_snap_serial < 0) return 0;
  const BlockEnt* be = block_by_serial(g_snap_serial);
  g_snap_serial = -1;
  if (!be || be->info.bytes != g_snap.size()) return 0;
  const uint8_t* cur = reinterpret_cast<const uint8_t*>(be->info.rx_base);
  size_t lo = 0, hi = g_snap.size();
  while (lo < hi && cur[lo] == g_snap[lo]) lo++;
  while (hi > lo && cur[hi - 1] == g_snap[hi - 1]) hi--;
  return snprintf(out, n, " f %" PRIu64 " %" PRIu64, uint64_t(lo < hi ? lo : 0), uint64_t(hi - lo));
}

static int digest(const JitAllocatorBlock* b, char* out, size_t n, char sep) {
  unsigned f = (b->has_flag(JitAllocatorBlock::kFlagEmpty) ? 1u : 0u) + (b->has_flag(JitAllocatorBlock::kFlagDirty) ? 2u : 0u) + (b->has_flag(JitAllocatorBlock::kFlagIncremental) ? 4u : 0u);
  return snprintf(out, n, "%u%c%u%c%u%c%u%c%u", b->_search_start, sep, b->_search_end, sep, b->_largest_unused_area, sep, f, sep, b->_area_used);
}

static void flush_monitor() {
  for (const std::string& s : M.pending) { fputs(s.c_str(), stdout); fputc('\n', stdout); }
  M.pending.clear();
  if (M.poisoned) H.poisoned = true;
}

static bool g_crashed = false;   // an API call of this history crashed: its lock may still be held, never call it again

static void do_stats(bool after_reset, JitAllocator::Statistics* out = nullptr) {
  if (g_crashed) return;
  JitAllocator::Statistics st = H.alloc->statistics();
  M.on_stats(st.block_count(), st.allocation_count(), st.used_size(), st.reserved_size(), after_reset);
  if (out) *out = st;
}

// Fills the whole span of handle `hi` with a fresh pattern; even counters use JitAllocator::write(), odd ones a memcpy
// through rw inside a ProtectJitReadWriteScope. Then the monitor reads the bytes back through rx.
static Error write_handle(uint32_t hi) {
  Handle& h = H.handles[hi];
  size_t size = h.span.size();
  uint64_t counter = H.write_counter++;
  uint64_t seed = c09_seed(H.index, hi, counter);
  if (g_pattern.size() < size) g_pattern.resize(size);
  c09_pattern_fill(g_pattern.data(), size, seed);
  Error err = Error::kOk;
  if ((counter & 1) == 0) {
    err = H.alloc->write(h.span, 0, g_pattern.data(), size);
  }
  else {
    VirtMem::ProtectJitReadWriteScope scope(h.span.rw(), size);
    memcpy(h.span.rw(), g_pattern.data(), size);
  }
  if (err == Error::kOk) { h.seed = seed; M.on_write(hi, seed, g_pattern.data()); }
  return err;
}

static void self_query(uint32_t hi) {
  Handle& h = H.handles[hi];
  JitAllocator::Span q;
  Error e = Error::kOk;
  int sg = guarded([&] { e = H.alloc->query(Out(q), h.span.rx()); });
  if (sg) { char txt[64]; snprintf(txt, sizeof(txt), "signal=%d inside query (self-query of h=%u)", sg, hi); g_crashed = true; M.report("crash", txt, true); return; }
  M.on_query(h.span.rx(), e == Error::kOk, q.rx(), q.rw(), q.size());
}

// Destroys (or, if poisoned, leaks) the allocator of the current history. Returns the signal number if the destructor
// crashed (the allocator is then leaked as well).
static int end_history(bool destroy) {
  int sg = 0;
  if (H.alloc) {
    // a poisoned allocator is leaked on purpose: its internal state may be corrupted
    if (destroy && !H.poisoned && !g_crashed) {
      JitAllocator* al = H.alloc;
      sg = guarded([&] { delete al; });
    }
  }
  H.alloc = nullptr; H.impl = nullptr; H.active = false;
  H.handles.clear(); H.blocks.clear(); H.table.clear();
  return sg;
}

// ---------------------------------------------------------------------------------------------------------------------
// Parsing
// ---------------------------------------------------------------------------------------------------------------------

static bool next_u64(const char*& p, uint64_t& v) {
  while (*p == ' ') p++;
  if (*p < '0' || *p > '9') return false;
  char* e; errno = 0;
  v = strtoull(p, &e, 10);
  if (e == p || errno) return false;
  p = e;
  return true;
}

static bool next_i64(const char*& p, int64_t& v) {
  while (*p == ' ') p++;
  if (!((*p >= '0' && *p <= '9') || *p == '-')) return false;
  char* e; errno = 0;
  v = strtoll(p, &e, 10);
  if (e == p || errno) return false;
  p = e;
  return true;
}

// Common tail of an op whose API call crashed.
static void crashed(char op, int sig, const char* where) {
  char txt[96];
  snprintf(txt, sizeof(txt), "signal=%d inside %s", sig, where);
  printf("%c crash\n", op);
  g_crashed = true;
  M.report("crash", txt, true);
  flush_monitor();
}

static bool at_end(const char* p) { while (*p == ' ' || *p == '\r' || *p == '\n' || *p == '\t') p++; return *p == 0; }

} // namespace

// ---------------------------------------------------------------------------------------------------------------------
// Main loop
// ---------------------------------------------------------------------------------------------------------------------

int main() {
  setvbuf(stdout, g_outbuf, _IOFBF, sizeof(g_outbuf));
  install_handlers();
  for (size_t i = 0; i < sizeof(g_foreign); i++) g_foreign[i] = uint8_t(i * 7 + 1);

  static char line[1024];
  char tmp[64], dg[128];
  uint64_t hist_counter = 0;

  while (fgets(line, sizeof(line), stdin)) {
    char c = line[0];
    if (c == '\n' || c == '\r' || c == 0 || c == '#') continue;
    const char* p = line + 1;
    if (*p != ' ' && *p != '\n' && *p != '\r' && *p != 0) { puts("BAD"); continue; }

    // ---- I b hint start end n w1..wn : BitVectorRangeIterator<uint64_t, b> over the given words, all ranges ---------------
    // ---- K op a b n w1..wn           : bit_vector_fill (f) / bit_vector_clear (c) / bit_vector_index_of (i: a=start b=value)
    //      (word level tied to C18's models inside this harness as well; independent of any allocator history)
    if (c == 'I' || c == 'K') {
      uint64_t a0 = 0, a1 = 0, a2 = 0, a3 = 0, n = 0; char op = 0;
      bool ok = true;
      if (c == 'K') { while (*p == ' ') p++; op = *p; if (op) p++; ok = (op == 'f' || op == 'c' || op == 'i'); }
      ok = ok && next_u64(p, a0) && next_u64(p, a1);
      if (c == 'I') ok = ok && next_u64(p, a2) && next_u64(p, a3);
      ok = ok && next_u64(p, n) && n >= 1 && n <= 16;
      uint64_t w[17] = {0};
      for (uint64_t i = 0; ok && i < n; i++) ok = next_u64(p, w[i]);
      if (!ok || !at_end(p)) { puts("BAD"); continue; }
      if (c == 'I') {
        size_t rs = 0, re = 0; int count = 0;
        printf("I");
        if (a0) { BitVectorRangeIterator<uint64_t, 1> it(w, size_t(n), size_t(a2), size_t(a3));
                  while (count < 1100 && it.next_range(Out(rs), Out(re), size_t(a1))) { printf(" %" PRIu64 " %" PRIu64, uint64_t(rs), uint64_t(re)); count++; } }
        else    { BitVectorRangeIterator<uint64_t, 0> it(w, size_t(n), size_t(a2), size_t(a3));
                  while (count < 1100 && it.next_range(Out(rs), Out(re), size_t(a1))) { printf(" %" PRIu64 " %" PRIu64, uint64_t(rs), uint64_t(re)); count++; } }
        putchar('\n');
      }
      else if (op == 'i') {
        printf("K %" PRIu64 "\n", uint64_t(Support::bit_vector_index_of(w, size_t(a0), a1 != 0)));
      }
      else {
        if (op == 'f') Support::bit_vector_fill(w, size_t(a0), size_t(a1)); else Support::bit_vector_clear(w, size_t(a0), size_t(a1));
        printf("K");
        for (uint64_t i = 0; i < n; i++) printf(" %" PRIu64, w[i]);
        putchar('\n');
      }
      continue;
    }

    // ---- H ----------------------------------------------------------------------------------------------------------
    if (c == 'H') {
      uint64_t g, bs, opt;
      if (!next_u64(p, g) || !next_u64(p, bs) || !next_u64(p, opt) || !at_end(p)) { puts("BAD"); continue; }
      if (int sg = end_history(true)) {
        // the previous history was not closed by X and its destructor crashed: the line still belongs to that history
        char txt[64]; snprintf(txt, sizeof(txt), "signal=%d inside destructor", sg);
        M.report("crash", txt, false);
        flush_monitor();
      }
      H.index = hist_counter++;
      H.op = 0; H.opt = uint32_t(opt); H.epoch = 0; H.write_counter = 0; H.next_serial = 0;
      H.poisoned = false; H.active = true; g_crashed = false;

      JitAllocator::CreateParams params {};
      params.options = JitAllocatorOptions(uint32_t(opt));
      params.block_size = uint32_t(bs);
      params.granularity = uint32_t(g);
      params.fill_pattern = 0xA5C3A5C3u;
      H.alloc = new JitAllocator(&params);
      bool constructed = H.alloc->_impl != &JitAllocatorImpl_none;
      H.impl = constructed ? static_cast<JitAllocatorPrivateImpl*>(H.alloc->_impl) : nullptr;
      H.g0 = H.impl ? H.impl->granularity : 0;

      M.pending.clear();
      M.begin_history(H.index, uint32_t(opt), 0xA5C3A5C3u);
      M.set_op(0);
      bool init = H.alloc->is_initialized();
      M.on_create(constructed, init);
      if (H.impl) printf("H %d %" PRIu64 " %u %u\n", int(init), uint64_t(H.impl->pool_count), H.impl->granularity, H.impl->block_size);
      else printf("H %d 0 0 0\n", int(init));
      flush_monitor();
      continue;
    }

    if (!H.active) { puts("BAD"); continue; }

    bool known = (c == 'A' || c == 'R' || c == 'S' || c == 'Q' || c == 'F' || c == 'Z' || c == 'T' || c == 'W' || c == 'D' || c == 'X' || c == 'V');
    if (!known) { puts("BAD"); continue; }

    H.op++;
    M.set_op(H.op);

    if (H.poisoned) {
      puts("P");
      if (c == 'X') { end_history(true); fflush(stdout); }
      continue;
    }

    JitAllocator& a = *H.alloc;

    switch (c) {
      // ---- A --------------------------------------------------------------------------------------------------------
      case 'A': {
        uint64_t size;
        if (!next_u64(p, size) || !at_end(p)) { puts("BAD"); break; }
        uint32_t hi = uint32_t(H.handles.size());
        H.handles.emplace_back();
        Handle& h = H.handles.back();
        h.requested = size_t(size);
        h.epoch = H.epoch;
        Error err = Error::kOk;
        if (int sg = guarded([&] { err = a.alloc(Out(h.span), size_t(size)); })) { crashed('A', sg, "alloc"); break; }
        bool changed = refresh_blocks();
        if (err != Error::kOk) {
          if (changed) M.set_blocks(H.table);
          printf("A %s\n", err_name(err, tmp));
        }
        else {
          h.ever_ok = true; h.live = true; h.rx = h.span.rx();
          const BlockEnt* be = block_by_ptr(h.span._block);
          if (!be) be = block_by_addr(uintptr_t(h.span.rx()));
          h.blk = be ? be->info.serial : -1;
          if (be) {
            digest(be->ptr, dg, sizeof(dg), ' ');
            printf("A ok %" PRId64 " %" PRId64 " %" PRIu64 " %s %" PRIu64 " %u\n", h.blk, int64_t(uintptr_t(h.span.rx()) - be->info.rx_base), uint64_t(h.span.size()), dg,
                   uint64_t(be->info.bytes), be->info.pool);
          }
          else {
            printf("A ok -1 0 %" PRIu64 " 0 0 0 0 0 0 0\n", uint64_t(h.span.size()));
          }
          C09Monitor::Verdict v = M.on_alloc(hi, h.span.rx(), h.span.rw(), h.span.size(), size_t(size), H.g0, changed ? &H.table : nullptr);
          h.no_touch = v.no_touch;
          if (!v.poison) {
            if (!v.no_touch) (void)write_handle(hi);
            self_query(hi);
          }
        }
        M.tick();
        do_stats(false);
        flush_monitor();
        break;
      }

      // ---- R --------------------------------------------------------------------------------------------------------
      case 'R': {
        uint64_t hi;
        if (!next_u64(p, hi) || !at_end(p)) { puts("BAD"); break; }
        if (hi >= H.handles.size() || !H.handles[hi].ever_ok || !handle_live(H.handles[hi])) { puts("R skip"); break; }
        Handle& h = H.handles[hi];
        M.pre_release(uint32_t(hi));
        fill_snapshot(h.blk);
        Error err = Error::kOk;
        if (int sg = guarded([&] { err = a.release(h.span.rx()); })) { h.live = false; crashed('R', sg, "release"); break; }
        bool changed = refresh_blocks();
        if (err == Error::kOk) { h.live = false; M.on_release(uint32_t(hi), changed ? &H.table : nullptr); }
        else if (changed) M.set_blocks(H.table);
        const BlockEnt* be = block_by_serial(h.blk);
        if (be) { char fo[64]; fill_observed(fo, sizeof(fo)); digest(be->ptr, dg, sizeof(dg), ' '); printf("R %s %" PRId64 " %s%s\n", err_name(err, tmp), h.blk, dg, fo); }
        else printf("R %s %" PRId64 " deleted\n", err_name(err, tmp), h.blk);
        M.tick();
        do_stats(false);
        flush_monitor();
        break;
      }

      // ---- S --------------------------------------------------------------------------------------------------------
      case 'S': {
        uint64_t hi, n;
        if (!next_u64(p, hi) || !next_u64(p, n) || !at_end(p)) { puts("BAD"); break; }
        if (hi >= H.handles.size() || !H.handles[hi].ever_ok || !handle_live(H.handles[hi])) { puts("S skip"); break; }
        Handle& h = H.handles[hi];
        if (n == 0) M.pre_release(uint32_t(hi)); else M.pre_shrink(uint32_t(hi));
        fill_snapshot(h.blk);
        Error err = Error::kOk;
        if (int sg = guarded([&] { err = a.shrink(h.span, size_t(n)); })) { h.live = false; crashed('S', sg, "shrink"); break; }
        bool changed = refresh_blocks();
        size_t len_after = h.span.size();
        if (n == 0) {
          // The API released the span (and cleared it) whatever the error code says.
          h.live = false; len_after = 0;
          M.on_release(uint32_t(hi), changed ? &H.table : nullptr);
        }
        else {
          M.on_shrink(uint32_t(hi), err == Error::kOk, len_after, size_t(n), changed ? &H.table : nullptr);
          if (err == Error::kOk && h.requested > size_t(n)) h.requested = size_t(n);
        }
        const BlockEnt* be = block_by_serial(h.blk);
        if (be) { char fo[64]; fill_observed(fo, sizeof(fo)); digest(be->ptr, dg, sizeof(dg), ' '); printf("S %s %" PRIu64 " %" PRId64 " %s%s\n", err_name(err, tmp), uint64_t(len_after), h.blk, dg, fo); }
        else printf("S %s %" PRIu64 " %" PRId64 " deleted\n", err_name(err, tmp), uint64_t(len_after), h.blk);
        if (n != 0 && err == Error::kOk && !M.poisoned) self_query(uint32_t(hi));
        M.tick();
        do_stats(false);
        flush_monitor();
        break;
      }

      // ---- Q --------------------------------------------------------------------------------------------------------
      case 'Q': {
        uint64_t hi; int64_t d;
        if (!next_u64(p, hi) || !next_i64(p, d) || !at_end(p)) { puts("BAD"); break; }
        if (hi >= H.handles.size() || !H.handles[hi].ever_ok) { puts("Q skip"); break; }
        Handle& h = H.handles[hi];
        if (!handle_live(h) && !block_by_serial(h.blk)) { puts("Q skip"); break; }
        void* ptr = reinterpret_cast<void*>(uintptr_t(h.rx) + uintptr_t(d));
        JitAllocator::Span q;
        Error err = Error::kOk;
        if (int sg = guarded([&] { err = a.query(Out(q), ptr); })) { crashed('Q', sg, "query"); break; }
        if (err == Error::kOk) {
          const BlockEnt* be = block_by_ptr(q._block);
          if (!be) be = block_by_addr(uintptr_t(q.rx()));
          if (be) printf("Q ok %" PRId64 " %" PRId64 " %" PRIu64 "\n", be->info.serial, int64_t(uintptr_t(q.rx()) - be->info.rx_base), uint64_t(q.size()));
          else printf("Q ok -1 0 %" PRIu64 "\n", uint64_t(q.size()));
        }
        else printf("Q %s\n", err_name(err, tmp));
        M.on_query(ptr, err == Error::kOk, q.rx(), q.rw(), q.size());
        M.tick();
        do_stats(false);
        flush_monitor();
        break;
      }

      // ---- F --------------------------------------------------------------------------------------------------------
      case 'F': {
        uint64_t k;
        if (!next_u64(p, k) || !at_end(p) || k > 3) { puts("BAD"); break; }
        Error err = Error::kOk;
        JitAllocator::Span q;
        int sg = guarded([&] {
          if (k == 0) err = a.release(nullptr);
          else if (k == 1) err = a.release(g_foreign + 1024);
          else if (k == 2) err = a.query(Out(q), g_foreign + 1024);
          else err = a.query(Out(q), nullptr);
        });
        if (sg) { crashed('F', sg, k < 2 ? "release" : "query"); break; }
        bool changed = refresh_blocks();
        if (changed) M.set_blocks(H.table);
        printf("F %s\n", err_name(err, tmp));
        M.on_foreign(unsigned(k), err == Error::kOk);
        M.tick();
        do_stats(false);
        flush_monitor();
        break;
      }

      // ---- Z --------------------------------------------------------------------------------------------------------
      case 'Z': {
        uint64_t k;
        if (!next_u64(p, k) || !at_end(p)) { puts("BAD"); break; }
        H.epoch++;
        if (int sg = guarded([&] { a.reset(k == 0 ? ResetPolicy::kSoft : ResetPolicy::kHard); })) { crashed('Z', sg, "reset"); break; }
        bool changed = refresh_blocks();
        M.on_reset(changed ? &H.table : nullptr);
        {
          char why[200];
          if (!tree_is_sane(why, sizeof(why))) M.report("tree-corrupt", why, true);
        }
        JitAllocator::Statistics st;
        do_stats(true, &st);
        printf("Z %" PRIu64 " %" PRIu64 " %" PRIu64 " %" PRIu64 "\n", uint64_t(st.block_count()), uint64_t(st.allocation_count()), uint64_t(st.used_size()), uint64_t(st.reserved_size()));
        flush_monitor();
        break;
      }

      // ---- T --------------------------------------------------------------------------------------------------------
      case 'T': {
        if (!at_end(p)) { puts("BAD"); break; }
        JitAllocator::Statistics st;
        M.tick();
        do_stats(false, &st);
        printf("T %" PRIu64 " %" PRIu64 " %" PRIu64 " %" PRIu64 "\n", uint64_t(st.block_count()), uint64_t(st.allocation_count()), uint64_t(st.used_size()), uint64_t(st.reserved_size()));
        flush_monitor();
        break;
      }

      // ---- V mb: limit the address space to (current virtual size + mb MiB); mb = 0 removes the limit. Used to make
      //      VirtMem::alloc fail for a huge request (the allocator must report an error and stay consistent). ----------
      case 'V': {
        uint64_t mb;
        if (!next_u64(p, mb) || !at_end(p)) { puts("BAD"); break; }
        struct rlimit rl;
        getrlimit(RLIMIT_AS, &rl);
        if (mb == 0) rl.rlim_cur = rl.rlim_max;
        else {
          unsigned long vsz_pages = 0;
          if (FILE* f = fopen("/proc/self/statm", "r")) { if (fscanf(f, "%lu", &vsz_pages) != 1) vsz_pages = 0; fclose(f); }
          rlim_t want = rlim_t(vsz_pages) * rlim_t(sysconf(_SC_PAGESIZE)) + rlim_t(mb) * 1024u * 1024u;
          rl.rlim_cur = (rl.rlim_max != RLIM_INFINITY && want > rl.rlim_max) ? rl.rlim_max : want;
        }
        int rc = setrlimit(RLIMIT_AS, &rl);
        printf("V %d\n", rc == 0 ? 1 : 0);
        M.tick();
        do_stats(false);
        flush_monitor();
        break;
      }

      // ---- W --------------------------------------------------------------------------------------------------------
      case 'W': {
        uint64_t hi;
        if (!next_u64(p, hi) || !at_end(p)) { puts("BAD"); break; }
        if (hi >= H.handles.size() || !H.handles[hi].ever_ok || !handle_live(H.handles[hi]) || H.handles[hi].no_touch || !M.handle_touchable(uint32_t(hi))) { puts("W skip"); break; }
        Error err = write_handle(uint32_t(hi));
        printf("W %s\n", err_name(err, tmp));
        M.tick();
        do_stats(false);
        flush_monitor();
        break;
      }

      // ---- D --------------------------------------------------------------------------------------------------------
      case 'D': {
        if (!at_end(p)) { puts("BAD"); break; }
        {
          char why[200];
          if (!tree_is_sane(why, sizeof(why))) M.report("tree-corrupt", why, true);
        }
        printf("D %" PRIu64, uint64_t(H.blocks.size()));
        for (const BlockEnt& e : H.blocks) {
          digest(e.ptr, dg, sizeof(dg), ':');
          printf(" %" PRId64 ":%u:%" PRIu64 ":%u:%s", e.info.serial, e.info.pool, uint64_t(e.info.bytes), e.ptr->area_size(), dg);
        }
        // pool->cursor of every pool as a block serial (-1 = nullptr, -2 = points to no block of the table)
        printf(" |");
        if (H.impl) {
          for (size_t pi = 0; pi < H.impl->pool_count; pi++) {
            const JitAllocatorBlock* cur = H.impl->pools[pi].cursor;
            int64_t cs = cur ? -2 : -1;
            for (const BlockEnt& e : H.blocks) if (e.ptr == cur) cs = e.info.serial;
            printf(" %" PRId64, cs);
          }
        }
        putchar('\n');
        M.tick();
        do_stats(false);
        flush_monitor();
        break;
      }

      // ---- X --------------------------------------------------------------------------------------------------------
      case 'X': {
        if (!at_end(p)) { puts("BAD"); break; }
        M.final_check();
        puts("X");
        if (int sg = end_history(true)) { char txt[64]; snprintf(txt, sizeof(txt), "signal=%d inside destructor", sg); M.report("crash", txt, false); }
        flush_monitor();
        fflush(stdout);
        break;
      }
    }
  }

  // stdin exhausted: leave the last allocator alone if it is poisoned, destroy it otherwise.
  if (int sg = end_history(true)) { char txt[64]; snprintf(txt, sizeof(txt), "signal=%d inside destructor", sg); M.report("crash", txt, false); flush_monitor(); }
  fflush(stdout);
  return 0;
}

// C14 correspondence + search harness: snapshot fuzz of the REAL emitters of the repository under ASan+UBSan.
//
//   c14_harness <seed> <first_session> <n_sessions> [v]
//
// A session = one CodeHolder + one emitter (x86-32 / x86-64 / AArch64  x  Assembler / Builder / Compiler  x
// no / returning / recording / throwing ErrorHandler, strict validation on, optional logger) receiving ~48 generated
// public calls: valid instructions (x86: built from the InstDB signatures; a64: forms discovered on a scratch
// assembler), perturbed / arbitrary instructions (ids, options, extra register, 0..6 operands made with public
// constructors and setters), valid and invalid bind / align / embed / embed_label / section / new_section /
// new_label / new_named_label arguments, one-shot state setters.  For every call one line is printed:
//
//   C <cmd tokens for the model> | R <ret> <handler calls> <last handler error> <thrown> | S <snapshot after> # info
//
// and per session  "N ..." (header with the initial snapshot) and "F ..." (fresh-emitter comparison: the calls that
// succeeded are replayed on a fresh holder+emitter, failed instructions replaced by reset_state(); sections, labels,
// relocation/fixup counts, node lists and — for Builder/Compiler — the finalize() result must be identical).
// With `v` every call is announced on stderr before it runs (to name the input of a sanitizer abort).
#include <asmjit/core.h>
#include <asmjit/x86.h>
#include <asmjit/a64.h>
#include <cstdio>
#include <cstdlib>
#include <cstring>
#include <cinttypes>
#include <string>
#include <vector>

using namespace asmjit;

// ------------------------------------------------------------------------------------------------ PRNG
struct Rng {
  uint64_t s;
  uint64_t next() { uint64_t z = (s += 0x9E3779B97F4A7C15ull); z = (z ^ (z >> 30)) * 0xBF58476D1CE4E5B9ull; z = (z ^ (z >> 27)) * 0x94D049BB133111EBull; return z ^ (z >> 31); }
  uint32_t u32() { return uint32_t(next() >> 32); }
  uint32_t below(uint32_t n) { return n ? uint32_t(next() % n) : 0; }
  bool chance(uint32_t pct) { return below(100) < pct; }
  template<typename T, size_t N> T pick(const T (&a)[N]) { return a[below(uint32_t(N))]; }
};

static uint64_t fnv(uint64_t h, const void* p, size_t n) { const uint8_t* b = (const uint8_t*)p; for (size_t i = 0; i < n; i++) { h ^= b[i]; h *= 0x100000001B3ull; } return h; }
static uint64_t fnv64(uint64_t h, uint64_t v) { return fnv(h, &v, 8); }

// ------------------------------------------------------------------------------------------------ error handler
struct Thrown { Error err; };
enum { H_NONE = 0, H_RETURN = 1, H_RECORD = 2, H_THROW = 3 };
struct Handler : public ErrorHandler {
  int kind = H_RETURN; int calls = 0; Error last = Error::kOk; std::string msg;
  void handle_error(Error err, const char* message, BaseEmitter* origin) override {
    calls++; last = err;
    if (kind == H_RECORD) msg = message ? message : "<null>";
    if (kind == H_THROW) throw Thrown{err};
  }
};

enum { FL_ASM = 0, FL_BUILDER = 1, FL_COMPILER = 2 };
enum { AR_X86 = 0, AR_X64 = 1, AR_A64 = 2 };

// ------------------------------------------------------------------------------------------------ one emitter + holder
struct Ctx {
  int arch, fl, hk; bool with_logger; bool abs_base;
  CodeHolder code; CodeHolder foreign;
  Handler handler; StringLogger logger;
  x86::Assembler xa; x86::Builder xb; x86::Compiler xc;
  a64::Assembler aa; a64::Builder ab; a64::Compiler ac;
  BaseEmitter* em = nullptr; BaseAssembler* as = nullptr; BaseBuilder* bld = nullptr;
  std::vector<std::string> names;     // names of named labels created so far ("parent:name")
  bool hloc_holder = false;           // the ErrorHandler is attached to the CodeHolder (emitters inherit it) instead of the emitter
  bool func_mode = false;             // Compiler: the session's calls form the body of a function (add_func .. end_func, virtual registers)
  std::vector<Reg> vregs;             // virtual registers created in function mode

  void init(int arch_, int fl_, int hk_, bool lg, bool absb, uint32_t fmt_flags, bool hloc = false, bool fm = false) {
    arch = arch_; fl = fl_; hk = hk_; with_logger = lg; abs_base = absb; hloc_holder = hloc; func_mode = fm && fl_ == FL_COMPILER;
    Environment env(arch == AR_X86 ? Arch::kX86 : arch == AR_X64 ? Arch::kX64 : Arch::kAArch64);
    code.init(env, absb ? uint64_t(0x10000) : Globals::kNoBaseAddress);
    foreign.init(env);
    { Section* s; foreign.new_section(Out(s), ".f1", SIZE_MAX, SectionFlags::kNone, 1, 0); foreign.new_section(Out(s), ".f2", SIZE_MAX, SectionFlags::kNone, 1, 0); }
    handler.kind = hk;
    if (arch == AR_A64) { em = fl == FL_ASM ? (BaseEmitter*)&aa : fl == FL_BUILDER ? (BaseEmitter*)&ab : (BaseEmitter*)&ac; }
    else { em = fl == FL_ASM ? (BaseEmitter*)&xa : fl == FL_BUILDER ? (BaseEmitter*)&xb : (BaseEmitter*)&xc; }
    if (fl == FL_ASM) as = static_cast<BaseAssembler*>(em); else bld = static_cast<BaseBuilder*>(em);
    if (hk != H_NONE && hloc_holder) code.set_error_handler(&handler);
    code.attach(em);
    if (hk != H_NONE && !hloc_holder) em->set_error_handler(&handler);
    if (lg) { logger.set_flags(FormatFlags(fmt_flags)); em->set_logger(&logger); }
    em->add_diagnostic_options(DiagnosticOptions::kValidateAssembler | DiagnosticOptions::kValidateIntermediate);
    if (func_mode) {
      int saved = handler.kind; handler.kind = H_RETURN;   // set-up must not throw
      if (arch == AR_A64) {
        ac.add_func(FuncSignature::build<void>());
        for (int i = 0; i < 3; i++) { vregs.push_back(ac.new_gp32()); vregs.push_back(ac.new_gp64()); }
        for (int i = 0; i < 3; i++) vregs.push_back(ac.new_vec128());
      } else {
        xc.add_func(FuncSignature::build<void>());
        for (int i = 0; i < 3; i++) { vregs.push_back(xc.new_gp32()); if (arch == AR_X64) vregs.push_back(xc.new_gp64()); }
        for (int i = 0; i < 3; i++) vregs.push_back(xc.new_xmm());
      }
      handler.kind = saved; handler.calls = 0;
    }
  }
  void end_func() {
    if (!func_mode) return;
    try { if (arch == AR_A64) ac.end_func(); else xc.end_func(); } catch (const Thrown&) {}
  }
};

// ------------------------------------------------------------------------------------------------ snapshot
struct Snap {
  uint32_t cur = 0; std::vector<uint64_t> sizes; std::vector<uint64_t> shash;
  std::vector<int> lbound; std::vector<uint32_t> lsec; std::vector<uint64_t> loff; std::vector<uint32_t> lpend;
  uint64_t fix = 0, rel = 0, adr = 0, nodes = 0, nhash = 0;
  uint32_t opt = 0, esig = 0, eid = 0; int cmt = 0;
};

static uint32_t count_fixups(const LabelEntry& le) { uint32_t n = 0; for (Fixup* f = le.unresolved_fixups(); f; f = f->next) n++; return n; }

static void take(Ctx& c, Snap& s) {
  s = Snap();
  CodeHolder& code = c.code;
  for (Section* sec : code.sections()) {
    s.sizes.push_back(sec->buffer_size());
    s.shash.push_back(fnv(0xcbf29ce484222325ull, sec->buffer().data(), sec->buffer_size()));
  }
  if (c.as) s.cur = c.as->_section ? c.as->_section->section_id() : 0;
  for (uint32_t i = 0; i < code.label_count(); i++) {
    const LabelEntry& le = code.label_entry_of(i);
    bool b = le.is_bound();
    s.lbound.push_back(b); s.lsec.push_back(b ? le.section_id() : 0); s.loff.push_back(b ? le.offset() : 0);
    s.lpend.push_back(b ? 0 : count_fixups(le));
  }
  s.fix = code.unresolved_fixup_count();
  s.rel = code.reloc_entries().size();
  s.adr = code.has_address_table_section() ? code.address_table_section()->virtual_size() / code.environment().register_size() : 0;
  if (c.bld) {
    uint64_t h = 0xcbf29ce484222325ull;
    for (BaseNode* n = c.bld->first_node(); n; n = n->next()) {
      s.nodes++;
      h = fnv64(h, uint64_t(n->type()));
      if (n->is_inst()) {
        InstNode* in = n->as<InstNode>();
        h = fnv64(h, in->inst_id()); h = fnv64(h, uint64_t(in->options()));
        h = fnv64(h, in->extra_reg().signature().bits()); h = fnv64(h, in->extra_reg().id());
        h = fnv64(h, in->op_count());
        for (uint32_t k = 0; k < in->op_count(); k++) h = fnv(h, &in->operands()[k], sizeof(Operand_));
        h = fnv64(h, in->has_inline_comment());
      }
    }
    s.nhash = h;
  }
  s.opt = uint32_t(c.em->inst_options());
  s.esig = c.em->extra_reg().signature().bits(); s.eid = c.em->extra_reg().id();
  s.cmt = c.em->inline_comment() != nullptr;
}

static std::string snap_str(const Snap& s) {
  char b[128]; std::string o;
  snprintf(b, sizeof(b), "cur=%u sz=", s.cur); o += b;
  for (size_t i = 0; i < s.sizes.size(); i++) { snprintf(b, sizeof(b), "%s%" PRIu64, i ? "," : "", s.sizes[i]); o += b; }
  o += " lab=";
  for (size_t i = 0; i < s.lbound.size(); i++) {
    if (s.lbound[i]) snprintf(b, sizeof(b), "%sb:%u:%" PRIu64, i ? "," : "", s.lsec[i], s.loff[i]); else snprintf(b, sizeof(b), "%su%u", i ? "," : "", s.lpend[i]);
    o += b;
  }
  if (s.lbound.empty()) o += "-";
  snprintf(b, sizeof(b), " fix=%" PRIu64 " rel=%" PRIu64 " adr=%" PRIu64 " nod=%" PRIu64 " one=%u:%u:%u:%d", s.fix, s.rel, s.adr, s.nodes, s.opt, s.esig, s.eid, s.cmt); o += b;
  uint64_t h = 0xcbf29ce484222325ull; for (uint64_t x : s.shash) h = fnv64(h, x); h = fnv64(h, s.nhash);
  snprintf(b, sizeof(b), " h=%016" PRIx64, h); o += b;
  return o;
}

// ------------------------------------------------------------------------------------------------ calls
enum Kind { K_SETOPT, K_SETEXTRA, K_SETCMT, K_RESETSTATE, K_RESETCMT, K_INST, K_NEWLABEL, K_NAMEDLABEL, K_BIND, K_ALIGN, K_EMBED,
            K_EMBEDLABEL, K_SECTION, K_NEWSECTION, K_REL, K_EMBEDLABELDELTA, K_MEM, K_VSIB, K_CONSTPOOL, K_PUSHPOP, K_LDST, K_SHIFT, K_VSIB2, K_LDP, K_MOVM, K_SIMDLS, K_VRRR };
struct Call {
  Kind kind; uint32_t a = 0, b = 0; uint64_t c = 0; bool flag = false;
  Operand ops[6]; std::string name; const char* what = ""; uint32_t nform = 6;
};
struct Res { uint32_t ret = 0; int calls = 0; uint32_t herr = 0; int thrown = 0; };

static const char kComment[] = "c14 comment";
static uint8_t kData[256];

static Operand mk_imm(int64_t v);
static Res exec(Ctx& c, const Call& k) {
  Res r; int calls0 = c.handler.calls; c.handler.last = Error::kOk;
  Error e = Error::kOk;
  try {
    switch (k.kind) {
      case K_SETOPT: c.em->set_inst_options(InstOptions(k.a)); break;
      case K_SETEXTRA: { Reg x; x.set_signature(OperandSignature{k.a}); x.set_id(k.b); c.em->set_extra_reg(x); break; }
      case K_SETCMT: c.em->set_inline_comment(kComment); break;
      case K_RESETSTATE: c.em->reset_state(); break;
      case K_RESETCMT: c.em->reset_inline_comment(); break;
      case K_INST: e = c.em->_emit(k.a, k.ops[0], k.ops[1], k.ops[2], &k.ops[3]); break;
      case K_NEWLABEL: { Label l = c.em->new_label(); e = l.is_valid() ? Error::kOk : Error(0xFFFF); break; }
      case K_NAMEDLABEL: { Label l = c.em->new_named_label(k.name.data(), k.name.size(), LabelType(k.a), k.b); e = l.is_valid() ? Error::kOk : Error(0xFFFF); break; }
      case K_BIND: { Label l; l.set_id(k.a); e = c.em->bind(l); break; }
      case K_ALIGN: e = c.em->align(AlignMode(k.a), k.b); break;
      case K_EMBED: e = c.em->embed(kData, k.a); break;
      case K_EMBEDLABEL: { Label l; l.set_id(k.a); e = c.em->embed_label(l, k.b); break; }
      case K_EMBEDLABELDELTA: { Label l, b; l.set_id(k.a); b.set_id(k.b); e = c.em->embed_label_delta(l, b, size_t(k.c)); break; }
      case K_SECTION: {
        Section* s = k.flag ? c.foreign.section_by_id(k.a) : c.code.section_by_id(k.a);
        e = c.em->section(s); break; }
      case K_REL: {   // label-path instruction whose verdict the model computes itself
        Label l; l.set_id(k.b); Operand o[6]; uint32_t id = 0;
        if (c.arch != AR_A64) {
          switch (k.a) {
            case 0: id = x86::Inst::kIdJmp; o[0].copy_from(l); break;
            case 1: id = x86::Inst::kIdJz; o[0].copy_from(l); break;
            case 2: id = x86::Inst::kIdCall; o[0].copy_from(l); break;
            default: { id = x86::Inst::kIdLea; o[0].copy_from(Reg::from_type_and_id(k.a == 4 ? RegType::kGp64 : RegType::kGp32, uint32_t(k.c & 7)));
                       x86::Mem m = x86::ptr(l, int32_t(k.c >> 3)); o[1].copy_from(m); break; }
          }
        } else {
          using namespace a64;
          switch (k.a) {
            case 5: id = Inst::kIdB; o[0].copy_from(l); break;
            case 6: id = Inst::kIdBl; o[0].copy_from(l); break;
            case 7: id = BaseInst::compose_arm_inst_id(Inst::kIdB, arm::CondCode(2 + (k.c % 14))); o[0].copy_from(l); break;
            case 8: id = Inst::kIdCbz; o[0].copy_from(Gp::make_r64(k.nform)); o[1].copy_from(l); break;
            case 9: id = Inst::kIdTbz; o[0].copy_from(Gp::make_r64(k.nform)); o[1] = mk_imm(int64_t(k.c % 64)); o[2].copy_from(l); break;
            case 10: id = Inst::kIdAdr; o[0].copy_from(Gp::make_r64(k.nform)); o[1].copy_from(l); break;
            default: { id = Inst::kIdLdr; o[0].copy_from(Gp::make_r64(k.nform)); Mem m = a64::ptr(l); o[1].copy_from(m); break; }
          }
        }
        e = c.em->_emit(id, o[0], o[1], o[2], &o[3]); break; }
      case K_MEM: {   // add r32, [mem]: the verdict is computed by the model (validator + memory-operand encoder path)
        Operand none; Operand ext[3];
        e = c.em->_emit(x86::Inst::kIdAdd, k.ops[0], k.ops[1], none, ext); break; }
      case K_VSIB: {   // vgatherdps v, [vsib], v: verdict computed by the model (validator + VEX/VSIB encoder path)
        Operand ext[3];
        e = c.em->_emit(x86::Inst::kIdVgatherdps, k.ops[0], k.ops[1], k.ops[2], ext); break; }
      case K_CONSTPOOL: {   // pool variant k.b: 1..3 eight-byte constants, or one sixteen-byte constant (alignment 16)
        ArenaTmp<1024> arena(1024); ConstPool pool(arena); size_t off;
        if (k.b == 4) { uint64_t v[2] = { 0x0102030405060708ull, 0x1112131415161718ull }; pool.add(v, 16, Out(off)); }
        else for (uint32_t i = 0; i < k.b; i++) { uint64_t v = 0x1122334455667788ull + i; pool.add(&v, 8, Out(off)); }
        Label l; l.set_id(k.a); e = c.em->embed_const_pool(l, pool); break; }
      case K_PUSHPOP: {   // push / pop of a segment register with an arbitrary id: verdict computed by the model
        Operand none, ext[3];
        e = c.em->_emit(k.flag ? x86::Inst::kIdPop : x86::Inst::kIdPush, k.ops[0], none, none, ext); break; }
      case K_VSIB2: {   // vgatherdps v {k}, [vsib]: the AVX-512 form, mask in the extra register; verdict computed by the model (EVEX or VEX prefix, compressed disp8)
        Operand none, ext[3];
        e = c.em->_emit(x86::Inst::kIdVgatherdps, k.ops[0], k.ops[1], none, ext); break; }
      case K_LDP: {   // a64 load / store pair with arbitrary register / addressing fields: verdict computed by the model (kEncodingBaseLdpStp)
        Operand ext[3];
        e = c.em->_emit(k.a, k.ops[0], k.ops[1], k.ops[2], ext); break; }
      case K_MOVM: {   // mov r, [mem] / mov [mem], r (every GP width, the moffs special form included): verdict computed by the model
        Operand none, ext[3];
        e = c.em->_emit(k.a, k.ops[0], k.ops[1], none, ext); break; }
      case K_SIMDLS: {   // a64 ldr / str of a B/H/S/D/Q register with arbitrary register / addressing fields: verdict computed by the model (kEncodingSimdLdSt)
        Operand none, ext[3];
        e = c.em->_emit(k.a, k.ops[0], k.ops[1], none, ext); break; }
      case K_VRRR: {   // vaddps v, v, v with an optional mask in the extra register: VEX2 / VEX3 / EVEX chosen by the ids, the width and the mask; verdict computed by the model
        Operand ext[3];
        e = c.em->_emit(x86::Inst::kIdVaddps, k.ops[0], k.ops[1], k.ops[2], ext); break; }
      case K_SHIFT: {   // shift / rotate of a register by an immediate: verdict computed by the model (validator + kEncodingX86Rot + EmitX86R)
        Operand none, ext[3];
        e = c.em->_emit(k.a, k.ops[0], k.ops[1], none, ext); break; }
      case K_LDST: {   // a64 load / store with arbitrary addressing fields: verdict computed by the model (kEncodingBaseLdSt path)
        Operand none, ext[3];
        e = c.em->_emit(k.a, k.ops[0], k.ops[1], none, ext); break; }
      case K_NEWSECTION: { Section* s; e = c.code.new_section(Out(s), k.name.data(), k.name.size(), SectionFlags::kNone, k.a, 0); break; }
    }
  } catch (const Thrown& t) { r.thrown = 1; e = (k.kind == K_NEWLABEL || k.kind == K_NAMEDLABEL) ? Error(0xFFFF) : t.err; }
  r.ret = uint32_t(e); r.calls = c.handler.calls - calls0; r.herr = uint32_t(c.handler.last);
  return r;
}

// ------------------------------------------------------------------------------------------------ operand generators (x86)
static Operand mk_reg(uint32_t type, uint32_t id) { Reg r = Reg::from_type_and_id(RegType(type), id); Operand o; o.copy_from(r); return o; }
static Operand mk_imm(int64_t v) { Imm i(v); Operand o; o.copy_from(i); return o; }
static Operand mk_label(uint32_t id) { Label l; l.set_id(id); Operand o; o.copy_from(l); return o; }

static uint32_t pick_bit(Rng& g, uint64_t m) { uint32_t n = 0, idx[64]; for (uint32_t i = 0; i < 64; i++) if ((m >> i) & 1) idx[n++] = i; return n ? idx[g.below(n)] : 0; }

static uint32_t pick_label(Rng& g, Ctx& c, bool want_valid) {
  uint32_t n = uint32_t(c.code.label_count());
  if (want_valid && n) return g.below(n);
  static const uint32_t bad[] = { 123456, 0xFFFFFFFFu, 0x7FFFFFFFu, 256, 65536 };
  switch (g.below(4)) { case 0: return n; case 1: return n + 1 + g.below(1000); case 2: return g.pick(bad); default: return g.u32(); }
}

static x86::Mem mk_x86_mem(Rng& g, Ctx& c, uint32_t size, uint32_t vsib_type, bool base_only, uint32_t base_mask) {
  bool x64 = c.arch == AR_X64;
  uint32_t gp_type = uint32_t(x64 ? RegType::kGp64 : RegType::kGp32);
  uint32_t nreg = x64 ? 16 : 8;
  x86::Mem m;
  uint32_t form = base_only ? 0 : g.below(10);
  uint32_t bid = base_mask ? pick_bit(g, base_mask) : g.below(nreg);
  if (vsib_type) {
    m.set_base(Reg::from_type_and_id(RegType(gp_type), bid));
    m.set_index(Reg::from_type_and_id(RegType(vsib_type), g.below(x64 ? 16 : 8)));
    m.set_shift(g.below(4)); m.set_offset(int32_t(g.u32()) >> g.below(32));
  }
  else if (form <= 4) { m.set_base(Reg::from_type_and_id(RegType(gp_type), bid)); if (!base_only && g.chance(60)) m.set_offset(int32_t(g.u32()) >> g.below(32)); }
  else if (form <= 6) {
    uint32_t iid = g.below(nreg); if (iid == 4) iid = 5;
    m.set_base(Reg::from_type_and_id(RegType(gp_type), bid)); m.set_index(Reg::from_type_and_id(RegType(gp_type), iid));
    m.set_shift(g.below(4)); if (g.chance(50)) m.set_offset(int32_t(g.u32()) >> g.below(32));
  }
  else if (form == 7) { m = x86::Mem(uint64_t(g.u32() >> g.below(31))); }                       // absolute
  else if (form == 8 && c.code.label_count()) { Label l; l.set_id(pick_label(g, c, true)); m = x86::ptr(l, int32_t(g.below(64))); }
  else { m.set_base(Reg::from_type_and_id(RegType(gp_type), bid)); }
  m.set_size(size);
  if (!base_only && g.chance(8)) m.set_segment(x86::SReg(1 + g.below(6)));
  return m;
}

static Operand x86_op_from_flag(Rng& g, Ctx& c, uint32_t bit, uint64_t all_flags, uint32_t reg_mask) {
  using F = x86::InstDB::OpFlags;
  bool x64 = c.arch == AR_X64;
  uint64_t f = uint64_t(1) << bit;
  auto rid = [&](uint32_t n) { return reg_mask ? pick_bit(g, reg_mask) : g.below(n); };
  bool base_only = (all_flags & uint64_t(F::kFlagMemBase)) != 0;
  Operand o;
  if (f == uint64_t(F::kRegGpbLo)) return mk_reg(uint32_t(RegType::kGp8Lo), rid(x64 ? 16 : 4));
  if (f == uint64_t(F::kRegGpbHi)) return mk_reg(uint32_t(RegType::kGp8Hi), rid(4));
  if (f == uint64_t(F::kRegGpw)) return mk_reg(uint32_t(RegType::kGp16), rid(x64 ? 16 : 8));
  if (f == uint64_t(F::kRegGpd)) return mk_reg(uint32_t(RegType::kGp32), rid(x64 ? 16 : 8));
  if (f == uint64_t(F::kRegGpq)) return mk_reg(uint32_t(RegType::kGp64), rid(16));
  if (f == uint64_t(F::kRegXmm)) return mk_reg(uint32_t(RegType::kVec128), rid(x64 ? 32 : 8));
  if (f == uint64_t(F::kRegYmm)) return mk_reg(uint32_t(RegType::kVec256), rid(x64 ? 32 : 8));
  if (f == uint64_t(F::kRegZmm)) return mk_reg(uint32_t(RegType::kVec512), rid(x64 ? 32 : 8));
  if (f == uint64_t(F::kRegMm)) return mk_reg(uint32_t(RegType::kX86_Mm), rid(8));
  if (f == uint64_t(F::kRegKReg)) return mk_reg(uint32_t(RegType::kMask), rid(8));
  if (f == uint64_t(F::kRegSReg)) return mk_reg(uint32_t(RegType::kSegment), reg_mask ? pick_bit(g, reg_mask) : 1 + g.below(6));
  if (f == uint64_t(F::kRegCReg)) return mk_reg(uint32_t(RegType::kControl), rid(x64 ? 16 : 8));
  if (f == uint64_t(F::kRegDReg)) return mk_reg(uint32_t(RegType::kDebug), rid(8));
  if (f == uint64_t(F::kRegSt)) return mk_reg(uint32_t(RegType::kX86_St), rid(8));
  if (f == uint64_t(F::kRegBnd)) return mk_reg(uint32_t(RegType::kX86_Bnd), rid(4));
  if (f == uint64_t(F::kRegTmm)) return mk_reg(uint32_t(RegType::kTile), rid(8));
  static const struct { uint64_t f; uint32_t sz; } mems[] = {
    { uint64_t(F::kMemUnspecified), 0 }, { uint64_t(F::kMem8), 1 }, { uint64_t(F::kMem16), 2 }, { uint64_t(F::kMem32), 4 }, { uint64_t(F::kMem48), 6 },
    { uint64_t(F::kMem64), 8 }, { uint64_t(F::kMem80), 10 }, { uint64_t(F::kMem128), 16 }, { uint64_t(F::kMem256), 32 }, { uint64_t(F::kMem512), 64 }, { uint64_t(F::kMem1024), 128 } };
  for (auto& m : mems) if (f == m.f) { o.copy_from(mk_x86_mem(g, c, m.sz, 0, base_only, base_only ? reg_mask : 0)); return o; }
  if (f == uint64_t(F::kVm32x) || f == uint64_t(F::kVm64x)) { o.copy_from(mk_x86_mem(g, c, 0, uint32_t(RegType::kVec128), false, 0)); return o; }
  if (f == uint64_t(F::kVm32y) || f == uint64_t(F::kVm64y)) { o.copy_from(mk_x86_mem(g, c, 0, uint32_t(RegType::kVec256), false, 0)); return o; }
  if (f == uint64_t(F::kVm32z) || f == uint64_t(F::kVm64z)) { o.copy_from(mk_x86_mem(g, c, 0, uint32_t(RegType::kVec512), false, 0)); return o; }
  if (f == uint64_t(F::kImmI4)) return mk_imm(int64_t(g.below(16)) - 8);
  if (f == uint64_t(F::kImmU4)) return mk_imm(g.below(16));
  if (f == uint64_t(F::kImmI8)) return mk_imm(int64_t(g.below(256)) - 128);
  if (f == uint64_t(F::kImmU8)) return mk_imm(g.below(256));
  if (f == uint64_t(F::kImmI16)) return mk_imm(int64_t(g.below(65536)) - 32768);
  if (f == uint64_t(F::kImmU16)) return mk_imm(g.below(65536));
  if (f == uint64_t(F::kImmI32)) return mk_imm(int32_t(g.u32()));
  if (f == uint64_t(F::kImmU32)) return mk_imm(g.u32());
  if (f == uint64_t(F::kImmI64) || f == uint64_t(F::kImmU64)) return mk_imm(int64_t(g.next()));
  if (f == uint64_t(F::kRel8) || f == uint64_t(F::kRel32)) {
    if (c.code.label_count() && g.chance(70)) return mk_label(pick_label(g, c, true));
    return mk_imm(int64_t(0x10000 + g.below(4096)));
  }
  return o;
}

static bool gen_x86_valid(Rng& g, Ctx& c, Call& k) {
  using namespace x86;
  for (int tries = 0; tries < 20; tries++) {
    uint32_t id = 1 + g.below(Inst::_kIdCount - 1);
    const InstDB::InstInfo& info = InstDB::inst_info_by_id(id);
    Span<const InstDB::InstSignature> sigs = info.inst_signatures();
    if (sigs.size() == 0) continue;
    const InstDB::InstSignature& sg = sigs[g.below(uint32_t(sigs.size()))];
    if (!sg.supports_mode(c.arch == AR_X64 ? InstDB::Mode::kX64 : InstDB::Mode::kX86)) continue;
    k.kind = K_INST; k.a = id;
    for (auto& o : k.ops) o.reset();
    uint32_t n = 0;
    bool drop_implicit = g.chance(50);
    for (uint32_t i = 0; i < sg.op_count(); i++) {
      const InstDB::OpSignature& os = sg.op_signature(i);
      uint64_t fl = uint64_t(os.flags());
      if ((fl & uint64_t(InstDB::OpFlags::kFlagImplicit)) && drop_implicit) continue;
      uint64_t opm = fl & uint64_t(InstDB::OpFlags::kOpMask);
      if (!opm) continue;
      k.ops[n++] = x86_op_from_flag(g, c, pick_bit(g, opm), fl, os._reg_mask);
    }
    return true;
  }
  return false;
}

// ------------------------------------------------------------------------------------------------ operand generators (a64)
static Operand a64_palette(Rng& g, Ctx& c) {
  using namespace a64;
  Operand o;
  uint32_t id = g.below(31);
  switch (g.below(16)) {
    case 0: o.copy_from(Gp::make_r32(g.chance(10) ? 63 : id)); break;
    case 1: case 2: o.copy_from(Gp::make_r64(g.chance(10) ? (g.chance(50) ? 63 : 31) : id)); break;
    case 3: { static const int k[] = {0,1,2,3,4}; int t = g.pick(k);
              Vec v = t == 0 ? Vec::make_b(id) : t == 1 ? Vec::make_h(id) : t == 2 ? Vec::make_s(id) : t == 3 ? Vec::make_d(id) : Vec::make_q(id); o.copy_from(v); break; }
    case 4: o.copy_from(Vec::make_v64_with_element_type(VecElementType(1 + g.below(3)), id)); break;
    case 5: case 6: o.copy_from(Vec::make_v128_with_element_type(VecElementType(1 + g.below(4)), id)); break;
    case 7: { uint32_t et = 1 + g.below(4); o.copy_from(Vec::make_v128_with_element_index(VecElementType(et), g.below(16 >> (et - 1)), id)); break; }
    case 8: o.copy_from(a64::ptr(Gp::make_r64(id), int32_t(g.below(64)) * 8)); break;
    case 9: { Mem m = g.chance(50) ? a64::ptr_pre(Gp::make_r64(id), int32_t(g.below(32)) * 8 - 128) : a64::ptr_post(Gp::make_r64(id), int32_t(g.below(32)) * 8 - 128); o.copy_from(m); break; }
    case 10: { Mem m = a64::ptr(Gp::make_r64(id), Gp::make_r64(g.below(31))); if (g.chance(40)) m = a64::ptr(Gp::make_r64(id), Gp::make_r64(g.below(31)), a64::lsl(g.below(4))); o.copy_from(m); break; }
    case 11: if (c.code.label_count()) { o.copy_from(mk_label(pick_label(g, c, true))); break; } [[fallthrough]];
    case 12: case 13: { static const int64_t v[] = {0, 1, 2, 3, 4, 7, 8, 15, 16, 31, 32, 63, 64, 255, 256, 4095, 4096, 65535, -1, -8}; o = mk_imm(g.chance(70) ? g.pick(v) : int64_t(g.next() >> g.below(64))); break; }
    case 14: { Imm sh = a64::lsl(g.below(g.chance(80) ? 4 : 64)); if (g.chance(50)) sh = Imm(a64::Shift(arm::ShiftOp(g.below(14)), g.below(64))); o.copy_from(sh); break; }
    default: if (c.code.label_count()) { Label l; l.set_id(pick_label(g, c, true)); o.copy_from(a64::ptr(l)); } else o.copy_from(Gp::make_r64(id)); break;
  }
  return o;
}


static Operand a64_palette_mem(Rng& g, Ctx& c) {
  using namespace a64;
  Operand o; uint32_t id = g.chance(10) ? 31u : g.below(31);
  switch (g.below(6)) {
    case 0: o.copy_from(a64::ptr(Gp::make_r64(id))); break;
    case 1: o.copy_from(a64::ptr(Gp::make_r64(id), int32_t(g.below(64)) * (1 << g.below(5)))); break;
    case 2: { Mem m = g.chance(50) ? a64::ptr_pre(Gp::make_r64(id), int32_t(g.below(32)) * 8 - 128) : a64::ptr_post(Gp::make_r64(id), int32_t(g.below(32)) * 8 - 128); o.copy_from(m); break; }
    case 3: { Mem m = a64::ptr(Gp::make_r64(id), Gp::make_r64(g.below(31))); if (g.chance(50)) m = a64::ptr(Gp::make_r64(id), Gp::make_r64(g.below(31)), a64::lsl(g.below(5))); o.copy_from(m); break; }
    case 4: { Mem m = a64::ptr(Gp::make_r64(id), Gp::make_r32(g.below(31)), a64::Shift(g.chance(50) ? arm::ShiftOp::kUXTW : arm::ShiftOp::kSXTW, g.below(4))); o.copy_from(m); break; }
    default: if (c.code.label_count()) { Label l; l.set_id(pick_label(g, c, true)); o.copy_from(a64::ptr(l)); } else o.copy_from(a64::ptr(Gp::make_r64(id), Gp::make_r64(g.below(31)))); break;
  }
  return o;
}

// structured operand tuples (same register class / arrangement across the operands) — raises the share of accepted forms
static uint32_t a64_tuple(Rng& g, Ctx& c, Operand* ops) {
  using namespace a64;
  auto gp = [&](bool x) { Operand o; uint32_t id = g.chance(8) ? (g.chance(50) ? 31u : 63u) : g.below(31); o.copy_from(x ? Gp::make_r64(id) : Gp::make_r32(id)); return o; };
  auto imm = [&]() { static const int64_t v[] = {0, 1, 2, 3, 4, 7, 8, 12, 15, 16, 31, 32, 48, 63, 64, 255, 4095, 65535, -1, -8}; return mk_imm(g.pick(v)); };
  auto mem = [&]() { return a64_palette_mem(g, c); };
  uint32_t n = 0;
  switch (g.below(23)) {
    case 0: case 1: { bool x = g.chance(60); uint32_t k = 1 + g.below(4); for (uint32_t i = 0; i < k; i++) ops[n++] = gp(x); if (g.chance(40) && n < 6) ops[n++] = g.chance(50) ? imm() : a64_palette(g, c); break; }
    case 2: { if (g.chance(30)) { ops[n++] = imm(); ops[n++] = mem(); break; }   // prfm-like
              bool x = g.chance(60); ops[n++] = gp(x); ops[n++] = imm(); if (g.chance(40)) ops[n++] = imm(); break; }
    case 3: { bool x = g.chance(60); ops[n++] = gp(x); ops[n++] = gp(x); ops[n++] = imm(); if (g.chance(50)) ops[n++] = imm(); break; }
    case 4: case 5: case 6: {   // vectors, same arrangement
      uint32_t form = g.below(4); uint32_t et = 1 + g.below(4); bool q = g.chance(50); uint32_t k = 2 + g.below(2);
      for (uint32_t i = 0; i < k; i++) {
        uint32_t id = g.below(32); Vec v;
        if (form == 0) v = q ? Vec::make_v128_with_element_type(VecElementType(et), id) : Vec::make_v64_with_element_type(VecElementType(et > 3 ? 3 : et), id);
        else if (form == 1) v = et == 1 ? Vec::make_b(id) : et == 2 ? Vec::make_h(id) : et == 3 ? Vec::make_s(id) : Vec::make_d(id);
        else if (form == 2) v = (i + 1 == k) ? Vec::make_v128_with_element_index(VecElementType(et), g.below(16 >> (et - 1)), id & 15) : (q ? Vec::make_v128_with_element_type(VecElementType(et), id) : Vec::make_v64_with_element_type(VecElementType(et > 3 ? 3 : et), id));
        else v = Vec::make_v128_with_element_type(VecElementType(i == 0 ? (et < 4 ? et + 1 : et) : et), id);   // long/wide forms
        ops[n++].copy_from(v);
      }
      if (g.chance(25)) ops[n++] = imm();
      break; }
    case 7: { uint32_t et = 1 + g.below(4); ops[n++].copy_from(Vec::make_v128_with_element_index(VecElementType(et), g.below(16 >> (et - 1)), g.below(32))); ops[n++] = g.chance(50) ? gp(et == 4) : ops[0]; if (ops[1].is_reg() && ops[1].as<Reg>().is_vec()) ops[1].as<Vec>().set_element_index(g.below(16 >> (et - 1))); break; }
    case 8: { uint32_t et = 1 + g.below(4); ops[n++] = gp(g.chance(50)); ops[n++].copy_from(Vec::make_v128_with_element_index(VecElementType(et), g.below(16 >> (et - 1)), g.below(32))); break; }
    case 9: { ops[n++] = gp(g.chance(50)); ops[n++] = a64_palette(g, c); break; }
    case 10: case 11: { bool x = g.chance(60); uint32_t k = 1 + g.below(2); for (uint32_t i = 0; i < k; i++) ops[n++] = gp(x); if (g.chance(15)) ops[n++] = gp(true); ops[n++] = mem(); break; }
    case 12: case 13: {  // vector / scalar-fp loads and stores, register lists
      uint32_t k = 1 + g.below(4); uint32_t id = g.below(32); uint32_t et = 1 + g.below(4); uint32_t form = g.below(3);
      for (uint32_t i = 0; i < k; i++) { Vec v; uint32_t r = (id + i) & 31;
        if (form == 0) v = g.chance(50) ? Vec::make_v128_with_element_type(VecElementType(et), r) : Vec::make_v64_with_element_type(VecElementType(et > 3 ? 3 : et), r);
        else if (form == 1) v = et == 1 ? Vec::make_b(r) : et == 2 ? Vec::make_h(r) : et == 3 ? Vec::make_s(r) : (g.chance(50) ? Vec::make_d(r) : Vec::make_q(r));
        else v = Vec::make_v128_with_element_index(VecElementType(et), 0, r);
        ops[n++].copy_from(v); }
      if (form == 2) { uint32_t ix = g.below(16 >> (et - 1)); for (uint32_t i = 0; i < k; i++) ops[i].as<Vec>().set_element_index(ix); }
      ops[n++] = mem(); break; }
    case 14: { if (g.chance(50)) ops[n++] = gp(g.chance(60)); if (g.chance(30)) ops[n++] = imm();
               if (c.code.label_count()) ops[n++] = mk_label(pick_label(g, c, true)); else ops[n++] = mk_imm(int64_t(0x10000 + 4 * g.below(1024))); break; }
    case 15: { bool x = g.chance(60); ops[n++] = gp(x); ops[n++] = g.chance(50) ? gp(x) : imm(); ops[n++] = imm(); ops[n++] = imm(); break; }   // ccmp-like
    case 16: { uint32_t id = g.below(32); bool d = g.chance(50); ops[n++].copy_from(d ? Vec::make_d(id) : Vec::make_s(id)); ops[n++] = g.chance(50) ? gp(g.chance(50)) : imm(); if (g.chance(30)) ops[n++] = imm(); break; }
    case 17: { ops[n++] = gp(g.chance(50)); uint32_t id = g.below(32); ops[n++].copy_from(g.chance(50) ? Vec::make_d(id) : Vec::make_s(id)); if (g.chance(30)) ops[n++] = imm(); break; }
    case 18: {   // mixed general-purpose widths (smaddl, crc32cx, stxp, casp ...) and system forms (imm..., x)
      uint32_t form = g.below(4);
      if (form == 0) { uint32_t k = 2 + g.below(3); for (uint32_t i = 0; i < k; i++) ops[n++] = gp(g.chance(50)); if (g.chance(40)) ops[n++] = mem(); }
      else if (form == 1) { uint32_t k = 1 + g.below(4); for (uint32_t i = 0; i < k; i++) ops[n++] = mk_imm(int64_t(g.below(16))); ops[n++] = gp(true); }
      else if (form == 2) { uint32_t id = g.below(15) * 2; bool x = g.chance(50); auto r = [&](uint32_t i) { Operand o; o.copy_from(x ? Gp::make_r64(i) : Gp::make_r32(i)); return o; };
                            uint32_t id2 = g.below(15) * 2; ops[n++] = r(id); ops[n++] = r(id + 1); ops[n++] = r(id2); ops[n++] = r(id2 + 1); ops[n++] = mem(); }
      else { ops[n++] = g.chance(50) ? mk_imm(int64_t(g.below(64))) : gp(true); }
      break; }
    case 19: {   // vectors with independent arrangements (widening / narrowing / reductions / dot products / sha)
      uint32_t k = 2 + g.below(2);
      for (uint32_t i = 0; i < k; i++) {
        uint32_t id = g.below(32); Vec v;
        switch (g.below(13)) {
          case 0: v = Vec::make_v64_with_element_type(VecElementType::kB, id); break;
          case 1: v = Vec::make_v128_with_element_type(VecElementType::kB, id); break;
          case 2: v = Vec::make_v64_with_element_type(VecElementType::kH, id); break;
          case 3: v = Vec::make_v128_with_element_type(VecElementType::kH, id); break;
          case 4: v = Vec::make_v64_with_element_type(VecElementType::kS, id); break;
          case 5: v = Vec::make_v128_with_element_type(VecElementType::kS, id); break;
          case 6: v = Vec::make_v128_with_element_type(VecElementType::kD, id); break;
          case 7: v = Vec::make_b(id); break;
          case 8: v = Vec::make_h(id); break;
          case 9: v = Vec::make_s(id); break;
          case 10: v = Vec::make_d(id); break;
          case 11: v = Vec::make_q(id); break;
          default: { uint32_t et = 1 + g.below(4); v = Vec::make_v128_with_element_index(g.chance(20) ? VecElementType(5 + g.below(2)) : VecElementType(et), g.below(4), id & 15); break; }
        }
        ops[n++].copy_from(v);
      }
      if (g.chance(30)) ops[n++] = imm();
      break; }
    default: { n = g.below(5); for (uint32_t i = 0; i < n; i++) ops[i] = a64_palette(g, c); break; }
  }
  return n;
}

struct Call; static std::string ops_str(const Call& k);
struct Scratch {   // scratch assembler used only to DISCOVER accepted a64 forms (never part of a session)
  CodeHolder code; a64::Assembler a; std::vector<Label> labels;
  void reset(size_t nlabels) {
    code.reset(ResetPolicy::kSoft); code.init(Environment(Arch::kAArch64)); code.attach(&a);
    labels.clear(); for (size_t i = 0; i < nlabels; i++) labels.push_back(a.new_label());
  }
};
static Scratch* g_scratch;
static bool g_verbose = false; static uint64_t g_session = 0; static uint32_t g_call = 0;


// emits on the scratch assembler; returns true and the 32-bit word if accepted
static bool scratch_emit(size_t nlabels, const Call& k, uint32_t* word) {
  g_scratch->reset(nlabels);
  if (g_scratch->a._emit(k.a, k.ops[0], k.ops[1], k.ops[2], &k.ops[3]) != Error::kOk) return false;
  const CodeBuffer& b = g_scratch->code.text_section()->buffer();
  uint32_t w = 0; if (b.size() >= 4) memcpy(&w, b.data(), 4);
  *word = w; return true;
}
// drops trailing operands the encoder ignores (same word without them)
static void a64_trim(size_t nlabels, Call& k) {
  uint32_t w0; if (!scratch_emit(nlabels, k, &w0)) return;
  for (int n = 5; n >= 0; n--) {
    if (k.ops[n].is_none()) continue;
    Call t = k; t.ops[n].reset(); uint32_t w1;
    if (scratch_emit(nlabels, t, &w1) && w1 == w0) k = t; else break;
  }
}

static bool gen_a64_valid(Rng& g, Ctx& c, Call& k) {
  using namespace a64;
  for (int round = 0; round < 6; round++) {
    uint32_t id = 1 + g.below(Inst::_kIdCount - 1);
    for (int tries = 0; tries < 24; tries++) {
      for (auto& o : k.ops) o.reset();
      a64_tuple(g, c, k.ops);
      uint32_t real_id = id;
      if (id == Inst::kIdB && g.chance(50)) real_id = BaseInst::compose_arm_inst_id(id, arm::CondCode(2 + g.below(14)));
      g_scratch->reset(c.code.label_count());
      if (g_verbose) { k.a = real_id; fprintf(stderr, "RUN session=%" PRIu64 " call=%u form-discovery(on a scratch assembler) id=%u%s\n", g_session, g_call, real_id, ops_str(k).c_str()); fflush(stderr); }
      Error e = g_scratch->a._emit(real_id, k.ops[0], k.ops[1], k.ops[2], &k.ops[3]);
      if (e == Error::kOk) { k.kind = K_INST; k.a = real_id; a64_trim(c.code.label_count(), k); return true; }
    }
  }
  return false;
}

// ------------------------------------------------------------------------------------------------ perturbation
static uint32_t weird_id(Rng& g) {
  static const uint32_t ids[] = { 8, 15, 16, 31, 32, 33, 47, 62, 63, 64, 100, 127, 128, 255, 256, 257, 1000, 0x7FFFFFFFu, 0xFFFFFFFEu, 0xFFFFFFFFu };
  return g.chance(60) ? g.pick(ids) : (g.chance(50) ? g.below(256) : g.u32());
}

static void perturb_operand(Rng& g, Ctx& c, Operand& o, bool keep_kind) {
  bool a64 = c.arch == AR_A64;
  if (o.is_reg()) {
    Reg& r = o.as<Reg>();
    switch (g.below(a64 ? 5 : 4)) {
      case 0: case 1: r.set_id(weird_id(g)); break;
      case 2: if (!keep_kind) { OperandSignature s = r.signature(); s.set_reg_type(RegType(g.below(32))); r.set_signature(s); } else r.set_id(weird_id(g)); break;
      case 3: { OperandSignature s = r.signature(); if (!keep_kind && g.chance(50)) s.set_reg_group(RegGroup(g.below(16)));
                else s.set_size(c.func_mode ? (g.below(65)) : g.below(256));   // function mode: sizes > 64 are left to the `probe-rwsize` mode (known UB in query_rw_info)
                r.set_signature(s); break; }
      default: {  // a64 vector element type / index (public Vec setters)
        a64::Vec& v = o.as<a64::Vec>();
        if (g.chance(50)) v.set_element_type(a64::VecElementType(g.below(8))); else v.set_element_index(g.below(16));
        break; }
    }
  }
  else if (o.is_mem()) {
    BaseMem& m = o.as<BaseMem>();
    switch (g.below(9)) {
      case 0: m.set_base_id(weird_id(g)); break;
      case 1: m.set_index_id(weird_id(g)); break;
      case 2: if (!keep_kind) m.set_base_type(RegType(g.below(32))); else m.set_base_id(weird_id(g)); break;
      case 3: if (!keep_kind) m.set_index_type(RegType(g.below(32))); else m.set_index_id(weird_id(g)); break;
      case 4: m.set_offset(int64_t(g.next()) >> g.below(64)); break;
      case 5: m.set_offset_lo32(int32_t(g.u32())); break;
      case 6: if (m.has_base_label()) m.set_base_id(pick_label(g, c, false)); else { OperandSignature s = m.signature(); s.set_size(g.below(256)); m.set_signature(s); } break;
      case 7:
        if (a64) { a64::Mem& am = o.as<a64::Mem>(); if (g.chance(50)) am.set_shift(g.below(64)); else { OperandSignature s = am.signature(); s.set_predicate(g.below(16)); am.set_signature(s); } }
        else { x86::Mem& xm = o.as<x86::Mem>(); switch (g.below(4)) { case 0: xm.set_shift(g.below(4)); break; case 1: { OperandSignature s = xm.signature(); s.set_field<x86::Mem::kSignatureMemSegmentMask>(g.below(8)); xm.set_signature(s); break; }
                 case 2: xm.set_broadcast(x86::Mem::Broadcast(g.below(8))); break; default: xm.set_addr_type(x86::Mem::AddrType(g.below(4))); break; } }
        break;
      default:
        if (a64) { a64::Mem& am = o.as<a64::Mem>(); am.set_offset_mode(arm::OffsetMode(g.below(4))); }
        else { x86::Mem& xm = o.as<x86::Mem>(); xm.set_size(g.below(256)); }
        break;
    }
  }
  else if (o.is_label()) { o.as<Label>().set_id(pick_label(g, c, false)); }
  else if (o.is_imm()) {
    Imm& i = o.as<Imm>();
    if (g.chance(70)) i.set_value(int64_t(g.next()) >> g.below(64)); else { OperandSignature s = i.signature(); s.set_predicate(g.below(16)); i.set_signature(s); }
  }
  else { if (!keep_kind) { o.set_signature(OperandSignature{g.u32()}); o._base_id = g.u32(); o._data[0] = g.u32(); o._data[1] = g.u32(); } }
}

static Operand random_operand(Rng& g, Ctx& c) {
  Operand o;
  switch (g.below(6)) {
    case 0: { Reg r; OperandSignature s = OperandSignature::from_op_type(OperandType::kReg) | OperandSignature::from_reg_type(RegType(g.below(32))) | OperandSignature::from_reg_group(RegGroup(g.below(16))) | OperandSignature::from_size(g.below(256));
              r.set_signature(s); r.set_id(g.chance(50) ? g.below(40) : weird_id(g)); o.copy_from(r); break; }
    case 1: { BaseMem m; m.set_base_type(RegType(g.below(32))); m.set_base_id(g.chance(50) ? g.below(40) : weird_id(g)); m.set_index_type(RegType(g.below(32))); m.set_index_id(g.below(40));
              if (m.base_type() == RegType::kNone) m.set_offset(int64_t(g.next()) >> g.below(64)); else m.set_offset_lo32(int32_t(g.u32()));
              OperandSignature s = m.signature(); s.set_size(g.below(256)); m.set_signature(s); o.copy_from(m); break; }
    case 2: o = mk_imm(int64_t(g.next()) >> g.below(64)); break;
    case 3: o = mk_label(g.chance(50) ? pick_label(g, c, true) : pick_label(g, c, false)); break;
    case 4: o.set_signature(OperandSignature{g.u32()}); o._base_id = g.u32(); o._data[0] = g.u32(); o._data[1] = g.u32(); break;     // arbitrary 32-bit signature
    default: o.set_signature(OperandSignature{(g.u32() & 0xFFFFFFF8u) | g.below(8)}); o._base_id = g.below(64); break;
  }
  return o;
}

// never let an instruction reference a label that is bound in ANOTHER section (DESIGN 7.14, C03's finding: it corrupts the label entry)
static void avoid_cross_section_refs(Ctx& c, Call& k) {
  if (!c.as) return;
  uint32_t cur = c.as->_section->section_id();
  for (auto& o : k.ops) {
    uint32_t id = Globals::kInvalidId; bool is_lbl = false;
    if (o.is_label()) { id = o.id(); is_lbl = true; }
    else if (o.is_mem() && o.as<BaseMem>().has_base_label()) { id = o.as<BaseMem>().base_id(); }
    if (id != Globals::kInvalidId && c.code.is_label_valid(id) && c.code.is_label_bound(id) && c.code.label_entry_of(id).section_id() != cur) {
      uint32_t repl = uint32_t(c.code.label_count()) + 7;
      for (uint32_t j = 0; j < c.code.label_count(); j++) if (!c.code.is_label_bound(j) || c.code.label_entry_of(j).section_id() == cur) { repl = j; break; }
      if (is_lbl) o.as<Label>().set_id(repl); else o.as<BaseMem>().set_base_id(repl);
    }
  }
}

static std::string ops_str(const Call& k) {
  char b[96]; std::string s;
  for (int i = 0; i < 6; i++) { if (k.ops[i].is_none() && i > 0) { bool rest = false; for (int j = i; j < 6; j++) rest |= !k.ops[j].is_none(); if (!rest) break; }
    snprintf(b, sizeof(b), " %08x:%08x:%08x:%08x", k.ops[i]._signature.bits(), k.ops[i]._base_id, k.ops[i]._data[0], k.ops[i]._data[1]); s += b; }
  return s;
}

// oracle helper: does an ACCEPTED instruction name a register that does not exist?  (x86: id >= 32 / extra {k} id >= 8;
// a64: physical id 32..62 or >= 64, or a virtual id, on an Assembler).  Returns a description or "".
static std::string bad_reg_ids(Ctx& c, const Call& k, const Snap& pre) {
  std::string s; char b[64];
  bool a64 = c.arch == AR_A64;
  auto bad = [&](uint32_t id) { return a64 ? (id > 31 && id != 63) : (id >= 32); };
  for (int i = 0; i < int(a64 ? k.nform : 6); i++) {   // a64: only the operands of the accepted form this call derives from (extra operands are ignored by the encoder)
    const Operand& o = k.ops[i];
    if (o.is_reg() && o.as<Reg>().reg_type() != RegType::kNone && bad(o.id())) { snprintf(b, sizeof(b), " op%d", i); s += b; }
    if (o.is_mem()) {
      const BaseMem& m = o.as<BaseMem>();
      if (m.has_base_reg() && uint32_t(m.base_type()) > 1 && uint32_t(m.base_type()) != uint32_t(RegType::kPC) && bad(m.base_id())) { snprintf(b, sizeof(b), " op%d.base", i); s += b; }
      if (m.has_index_reg() && bad(m.index_id())) { snprintf(b, sizeof(b), " op%d.index", i); s += b; }
      if (!a64 && o.as<x86::Mem>().segment_id() > 6) { snprintf(b, sizeof(b), " op%d.segment", i); s += b; }   // 3-bit field, segment registers are 1..6
    }
  }
  if (!a64 && pre.esig != 0) {
    OperandSignature es{pre.esig};
    if (es.reg_type() == RegType::kMask && pre.eid >= 8) s += " extra.k";
  }
  return s;
}


// ------------------------------------------------------------------------------------------------ x86 VEX-only sweep
// Deterministic: for every instruction whose database row has a VEX but no EVEX encoding (and for the three-operand,
// vector-mask forms of the VSIB gathers, which exist VEX-encoded only) forms are built from the instruction signatures;
// in every accepted form each vector register position (operand, vector index of the memory operand) is given an id of
// 16..31 - registers only an EVEX prefix can name. Acceptance is printed as "W <inst id> <mnemonic> <position> <bytes>".
static void sweep_vexonly() {
  using namespace x86;
  static Ctx* cp = new Ctx(); Ctx& c = *cp; c.init(AR_X64, FL_ASM, H_NONE, false, false, 0);   // static: stays reachable (LeakSanitizer)
  uint32_t insts = 0, forms = 0, accepted = 0;
  for (uint32_t id = 1; id < Inst::_kIdCount; id++) {
    const InstDB::InstInfo& info = InstDB::inst_info_by_id(id);
    const InstDB::CommonInfo& ci = info.common_info();
    if (!ci.has_flag(InstDB::InstFlags::kVex)) continue;
    bool inst_vex_only = !ci.has_flag(InstDB::InstFlags::kEvex);
    bool gather = ci.has_flag(InstDB::InstFlags::kVsib);
    if (!inst_vex_only && !gather) continue;
    Span<const InstDB::InstSignature> sigs = info.inst_signatures();
    bool counted = false;
    String name; InstAPI::inst_id_to_string(Arch::kX64, id, InstStringifyOptions::kNone, name);
    for (size_t si = 0; si < sigs.size(); si++) {
      const InstDB::InstSignature& sg = sigs[si];
      if (!sg.supports_mode(InstDB::Mode::kX64)) continue;
      if (!inst_vex_only && sg.op_count() != 3) continue;     // gathers: only the three-operand (vector mask) form is VEX-only
      Rng g{ 0xE7E7ull * id + si };
      for (int t = 0; t < 12; t++) {
        Call k; k.kind = K_INST; k.a = id; uint32_t n = 0;
        for (uint32_t i = 0; i < sg.op_count(); i++) {
          const InstDB::OpSignature& os = sg.op_signature(i);
          uint64_t fl = uint64_t(os.flags());
          if (fl & uint64_t(InstDB::OpFlags::kFlagImplicit)) continue;
          uint64_t opm = fl & uint64_t(InstDB::OpFlags::kOpMask);
          if (!opm) continue;
          k.ops[n++] = x86_op_from_flag(g, c, pick_bit(g, opm), fl, os._reg_mask);
        }
        auto is_vec = [](RegType rt) { return rt == RegType::kVec128 || rt == RegType::kVec256 || rt == RegType::kVec512; };
        bool low = true; int nvec = 0;
        for (uint32_t i = 0; i < n; i++) {
          if (k.ops[i].is_reg() && is_vec(k.ops[i].as<Reg>().reg_type())) { nvec++; if (k.ops[i].id() > 15) low = false; }
          if (k.ops[i].is_mem() && is_vec(k.ops[i].as<BaseMem>().index_type())) { nvec++; if (k.ops[i].as<BaseMem>().index_id() > 15) low = false; }
        }
        if (!nvec || !low) continue;
        Call z; z.kind = K_RESETSTATE; exec(c, z);
        Res r = exec(c, k);
        if (r.ret != 0) continue;
        if (!counted) { insts++; counted = true; }
        forms++;
        for (uint32_t i = 0; i < n; i++) {
          for (int part = 0; part < 2; part++) {
            Call m = k; char pos[32];
            if (part == 0) { if (!(k.ops[i].is_reg() && is_vec(k.ops[i].as<Reg>().reg_type()))) continue; m.ops[i].as<Reg>().set_id(16 + (id + i) % 16); snprintf(pos, sizeof(pos), "op%u", i); }
            else { if (!(k.ops[i].is_mem() && is_vec(k.ops[i].as<BaseMem>().index_type()))) continue; m.ops[i].as<BaseMem>().set_index_id(16 + (id + i) % 16); snprintf(pos, sizeof(pos), "op%u.index", i); }
            for (int noval = 0; noval < 2; noval++) {   // with strict validation, and with the encoder alone (the default configuration)
              if (noval) c.em->clear_diagnostic_options(DiagnosticOptions::kValidateAssembler);
              exec(c, z);
              size_t before = c.code.text_section()->buffer_size();
              Res r2 = exec(c, m);
              if (noval) c.em->add_diagnostic_options(DiagnosticOptions::kValidateAssembler);
              if (r2.ret == 0) {
                accepted++;
                size_t after = c.code.text_section()->buffer_size();
                printf("W %u %s %s%s", id, name.data(), pos, noval ? "/encoder-alone" : "");
                for (size_t q = before; q < after && q < before + 15; q++) printf(" %02x", c.code.text_section()->data()[q]);
                printf("\n");
              }
            }
          }
        }
        break;
      }
    }
  }
  printf("V vexonly insts=%u forms=%u accepted=%u\n", insts, forms, accepted);
}

// ------------------------------------------------------------------------------------------------ a64 register-id sweep
// Deterministic (independent of the seed): for every instruction id, forms are discovered with a fixed-seed palette
// search; in every accepted form each register position (operand, memory base, memory index) is given an id that
// names no register (40, 200, a virtual id) — acceptance is printed as "W <encoding> <position> <inst id> <bad id>".
static void sweep_a64() {
  using namespace a64;
  Ctx* cp = new Ctx(); Ctx& c = *cp; c.init(AR_A64, FL_ASM, H_NONE, false, false, 0);
  for (int i = 0; i < 4; i++) c.em->new_label();
  std::vector<std::string> seen;
  static const uint32_t bad_ids[] = { 40, 200, 300 };
  uint32_t with_form = 0, forms = 0;
  for (uint32_t id = 1; id < Inst::_kIdCount; id++) {
    uint32_t forms_here = 0;
    Rng g{ 0xA64A64ull * id + 17 };
    uint32_t enc = InstDB::inst_info_by_id(id)._encoding;
    for (int t = 0; t < 3000; t++) {
      Call k; k.kind = K_INST; k.a = id;
      uint32_t n = a64_tuple(g, c, k.ops);
      g_scratch->reset(4);
      if (g_scratch->a._emit(k.a, k.ops[0], k.ops[1], k.ops[2], &k.ops[3]) != Error::kOk) continue;
      a64_trim(4, k); n = 0; while (n < 6 && !k.ops[n].is_none()) n++;
      forms_here++;
      for (uint32_t i = 0; i < n; i++) for (int part = 0; part < 3; part++) for (uint32_t bid : bad_ids) {
        Call m = k; Operand& o = m.ops[i]; char pos[32];
        if (part == 0) { if (!o.is_reg()) continue; o.as<Reg>().set_id(bid); snprintf(pos, sizeof(pos), "op%u", i); }
        else if (part == 1) { if (!o.is_mem() || !o.as<BaseMem>().has_base_reg()) continue; o.as<BaseMem>().set_base_id(bid); snprintf(pos, sizeof(pos), "op%u.base", i); }
        else { if (!o.is_mem() || !o.as<BaseMem>().has_index_reg()) continue; o.as<BaseMem>().set_index_id(bid); snprintf(pos, sizeof(pos), "op%u.index", i); }
        g_scratch->reset(4);
        if (g_scratch->a._emit(m.a, m.ops[0], m.ops[1], m.ops[2], &m.ops[3]) == Error::kOk) {
          char key[64]; snprintf(key, sizeof(key), "%u %s", enc, pos);
          bool dup = false; for (auto& x : seen) if (x == key) dup = true;
          if (!dup) { seen.push_back(key); printf("W %s %u %u%s\n", key, id, bid, ops_str(m).c_str()); }
        }
      }
    }
    forms += forms_here; with_form += forms_here ? 1 : 0;
    if (!forms_here) printf("WN %u\n", id);
  }
  printf("WS instructions=%u with_accepted_form=%u accepted_forms=%u\n", unsigned(Inst::_kIdCount - 1), with_form, forms);
  delete cp;
}

// ------------------------------------------------------------------------------------------------ Compiler function bodies
// a small set of ordinary instructions over the session's virtual registers (the register allocator must be able to
// digest what was ACCEPTED; the failing calls come from the perturbations applied afterwards)
static Operand vreg_of(Rng& g, Ctx& c, RegType t) {
  std::vector<Reg*> m; for (auto& r : c.vregs) if (r.reg_type() == t) m.push_back(&r);
  Operand o; if (!m.empty()) o.copy_from(*m[g.below(uint32_t(m.size()))]); return o;
}
static bool gen_func_body_inst(Rng& g, Ctx& c, Call& k) {
  for (auto& o : k.ops) o.reset();
  k.kind = K_INST; k.nform = 0;
  if (c.arch == AR_A64) {
    using namespace a64;
    bool x = g.chance(50); RegType t = x ? RegType::kGp64 : RegType::kGp32;
    switch (g.below(6)) {
      case 0: { static const uint32_t ids[] = { Inst::kIdAdd, Inst::kIdSub, Inst::kIdAnd, Inst::kIdOrr, Inst::kIdEor, Inst::kIdMul };
                k.a = g.pick(ids); k.ops[0] = vreg_of(g, c, t); k.ops[1] = vreg_of(g, c, t); k.ops[2] = vreg_of(g, c, t); break; }
      case 1: k.a = Inst::kIdMov; k.ops[0] = vreg_of(g, c, t); k.ops[1] = g.chance(50) ? vreg_of(g, c, t) : mk_imm(int64_t(g.below(4096))); break;
      case 2: k.a = Inst::kIdAdd; k.ops[0] = vreg_of(g, c, t); k.ops[1] = vreg_of(g, c, t); k.ops[2] = mk_imm(int64_t(g.below(4096))); break;
      case 3: { k.a = g.chance(50) ? Inst::kIdLdr : Inst::kIdStr; k.ops[0] = vreg_of(g, c, t); Operand b = vreg_of(g, c, RegType::kGp64);
                Mem m = a64::ptr(b.as<Gp>(), int32_t(g.below(32)) * 8); k.ops[1].copy_from(m); break; }
      case 4: { k.a = g.chance(50) ? Inst::kIdAdd_v : Inst::kIdFadd_v; for (int i = 0; i < 3; i++) { Operand v = vreg_of(g, c, RegType::kVec128); v.as<Vec>().set_element_type(VecElementType::kS); k.ops[i] = v; } break; }
      default: k.a = Inst::kIdCmp; k.ops[0] = vreg_of(g, c, t); k.ops[1] = vreg_of(g, c, t); break;
    }
  } else {
    using namespace x86;
    bool x = c.arch == AR_X64 && g.chance(50); RegType t = x ? RegType::kGp64 : RegType::kGp32;
    auto mem = [&](uint32_t size) { Operand b = vreg_of(g, c, c.arch == AR_X64 ? RegType::kGp64 : RegType::kGp32); x86::Mem m = x86::ptr(b.as<Gp>(), int32_t(g.below(64)) * 4, size); Operand o; o.copy_from(m); return o; };
    static const uint32_t alu[] = { Inst::kIdAdd, Inst::kIdSub, Inst::kIdAnd, Inst::kIdOr, Inst::kIdXor, Inst::kIdCmp, Inst::kIdMov, Inst::kIdTest };
    switch (g.below(7)) {
      case 0: case 1: k.a = g.pick(alu); k.ops[0] = vreg_of(g, c, t); k.ops[1] = vreg_of(g, c, t); break;
      case 2: k.a = g.pick(alu); k.ops[0] = vreg_of(g, c, t); k.ops[1] = mk_imm(int64_t(g.below(100000))); break;
      case 3: k.a = Inst::kIdMov; if (g.chance(50)) { k.ops[0] = vreg_of(g, c, t); k.ops[1] = mem(x ? 8 : 4); } else { k.ops[0] = mem(x ? 8 : 4); k.ops[1] = vreg_of(g, c, t); } break;
      case 4: k.a = Inst::kIdLea; k.ops[0] = vreg_of(g, c, t); k.ops[1] = mem(0); break;
      case 5: { static const uint32_t v[] = { Inst::kIdPaddd, Inst::kIdPxor, Inst::kIdAddps, Inst::kIdMovaps, Inst::kIdMulps };
                k.a = g.pick(v); k.ops[0] = vreg_of(g, c, RegType::kVec128); k.ops[1] = g.chance(75) ? vreg_of(g, c, RegType::kVec128) : mem(16); break; }
      default: k.a = Inst::kIdImul; k.ops[0] = vreg_of(g, c, t); k.ops[1] = vreg_of(g, c, t); break;
    }
  }
  while (k.nform < 6 && !k.ops[k.nform].is_none()) k.nform++;
  return k.nform > 0;
}

// ------------------------------------------------------------------------------------------------ session
static void run_session(uint64_t seed, uint64_t session, bool verbose) {
  Rng g{ (seed * 0x9E3779B97F4A7C15ull) ^ (session * 0xD1B54A32D192ED03ull) ^ 0xC14C14C14ull };
  g.next();
  int arch = int(g.below(3)); uint32_t f = g.below(100); int fl = f < 64 ? FL_ASM : f < 82 ? FL_BUILDER : FL_COMPILER;
  int hk = int(g.below(4)); bool lg = g.chance(35); bool absb = g.chance(25);
  uint32_t fmt = g.chance(50) ? g.u32() & 0xFF : 0;
  bool hloc = g.chance(50); bool fm = g.chance(60);
  Ctx* cp = new Ctx(); Ctx& c = *cp;
  c.init(arch, fl, hk, lg, absb, fmt, hloc, fm);
  Snap pre; take(c, pre);
  printf("N %" PRIu64 " fl=%d arch=%d h=%d log=%d abs=%d hloc=%d fm=%d | S %s\n", session, fl, arch, hk, int(lg), int(absb), int(hloc), int(c.func_mode), snap_str(pre).c_str());
  std::vector<Call> history; std::vector<Res> results; std::vector<uint8_t> bound_in_builder;
  Call valid_form; bool have_form = false;
  uint32_t ncalls = 40 + g.below(17);
  std::vector<Call> pending;
  if (c.as && g.chance(35)) {   // a second section from the start: cross-section label references become frequent
    Call ns; ns.kind = K_NEWSECTION; ns.what = "new_section"; ns.a = 8; ns.name = ".data"; pending.push_back(ns);
  }
  for (uint32_t ci = 0; ci < ncalls; ci++) {
    if (pending.empty() && c.as && c.code.section_count() > 1 && g.chance(6)) {   // hop between sections
      Call sw; sw.kind = K_SECTION; sw.what = "section"; sw.a = g.below(uint32_t(c.code.section_count())); sw.flag = false; pending.push_back(sw);
    }
    g_verbose = verbose; g_session = session; g_call = ci;
    Call k; k.kind = K_EMBED; char cmd[256]; cmd[0] = 0;
    uint32_t w = g.below(100);
    uint32_t nlab = uint32_t(c.code.label_count());
    bool is_inst = false;
    if (pending.empty() && c.as && g.chance(12)) {     // label-path instruction: reset_state(), optional short/long option, instruction
      Call z; z.kind = K_RESETSTATE; z.what = "reset_state"; pending.push_back(z);
      if (arch != AR_A64 && g.chance(45)) { Call o; o.kind = K_SETOPT; o.what = "set_inst_options"; static const uint32_t sl[] = {0x10u, 0x20u, 0x30u, 0x10u}; o.a = g.pick(sl); pending.push_back(o); }
      Call j; j.kind = K_REL; j.what = "rel";
      if (arch == AR_A64) j.a = 5 + g.below(7); else { j.a = g.below(5); if (j.a == 4 && arch == AR_X86) j.a = 3; }
      j.b = g.chance(75) && nlab ? g.below(nlab) : pick_label(g, c, false);
      j.c = g.below(8) | (uint64_t(g.below(64)) << 3);
      if (arch == AR_A64) { j.c = g.u32(); static const uint32_t wr[] = {31, 32, 40, 62, 63, 64, 200, 255, 300}; j.nform = g.chance(75) ? g.below(31) : g.pick(wr); }   // nform = register id of cbz/tbz/adr/ldr
      pending.push_back(j);
    }
    if (pending.empty() && c.as && arch != AR_A64 && g.chance(3)) {   // boundary bind: short jmp to a fresh label, 126..129 bytes, bind
      Call nl; nl.kind = K_NEWLABEL; nl.what = "new_label"; pending.push_back(nl);
      Call z; z.kind = K_RESETSTATE; z.what = "reset_state"; pending.push_back(z);
      Call o; o.kind = K_SETOPT; o.what = "set_inst_options"; o.a = 0x10u; pending.push_back(o);
      Call j; j.kind = K_REL; j.what = "rel"; j.a = g.below(2); j.b = nlab; j.c = 0; pending.push_back(j);
      Call e; e.kind = K_EMBED; e.what = "embed"; e.a = 125 + g.below(5); pending.push_back(e);
      Call b; b.kind = K_BIND; b.what = "bind"; b.a = nlab; pending.push_back(b);
      if (nlab && g.chance(60)) {   // delta of two labels that may be > 127 bytes apart, in a 1- or 2-byte field
        Call d; d.kind = K_EMBEDLABELDELTA; d.what = "embed_label_delta"; bool sw = g.chance(50);
        d.a = sw ? nlab : g.below(nlab); d.b = sw ? g.below(nlab) : nlab; d.c = g.chance(70) ? 1 : 2; pending.push_back(d);
      }
    }
    if (pending.empty() && c.as && arch != AR_A64 && g.chance(6)) {   // EVEX + VSIB path instruction: reset_state(), set_extra_reg(k), vgatherdps v, [vsib]
      Call z; z.kind = K_RESETSTATE; z.what = "reset_state"; pending.push_back(z);
      if (g.chance(88)) { Call x; x.kind = K_SETEXTRA; x.what = "set_extra_reg"; static const uint32_t kw[] = {0, 8, 9, 15};
        Reg kr = Reg::from_type_and_id(g.chance(95) ? RegType::kMask : RegType::kGp32, g.chance(88) ? 1 + g.below(7) : g.pick(kw));
        x.a = kr.signature().bits(); x.b = kr.id(); pending.push_back(x); }
      Call vq; vq.kind = K_VSIB2; vq.what = "vsib2"; vq.nform = 2;
      bool x64 = arch == AR_X64;
      uint32_t r = g.below(100);
      uint32_t vt = r < 35 ? uint32_t(RegType::kVec128) : r < 65 ? uint32_t(RegType::kVec256) : r < 95 ? uint32_t(RegType::kVec512) : uint32_t(RegType::kGp32);
      r = g.below(100);
      uint32_t it = r < 30 ? uint32_t(RegType::kVec128) : r < 55 ? uint32_t(RegType::kVec256) : r < 80 ? uint32_t(RegType::kVec512) : r < 88 ? 0u : r < 95 ? uint32_t(x64 ? RegType::kGp64 : RegType::kGp32) : g.below(13);
      if (g.chance(60) && vt >= uint32_t(RegType::kVec128)) it = vt;
      r = g.below(100);
      uint32_t bt = r < 75 ? uint32_t(x64 ? RegType::kGp64 : RegType::kGp32) : r < 88 ? 0u : r < 94 ? uint32_t(RegType::kGp32) : (2 + g.below(11));
      uint32_t nid = x64 ? 32 : 8;
      x86::Mem m;
      m.set_base_type(RegType(bt)); m.set_base_id(g.chance(90) ? g.below(x64 ? 16 : 8) : 8 + g.below(24));
      m.set_index_type(RegType(it)); m.set_index_id(g.chance(88) ? g.below(nid) : g.below(40));
      m.set_shift(g.below(4));
      { OperandSignature sg = m.signature(); sg.set_field<x86::Mem::kSignatureMemSegmentMask>(g.chance(85) ? 0 : g.below(8)); m.set_signature(sg); }
      { static const uint32_t sz[] = {0, 0, 0, 4, 4, 8, 16, 64}; m.set_size(g.pick(sz)); }
      int64_t off;
      switch (g.below(6)) { case 0: off = 0; break; case 1: off = (int64_t(g.below(256)) - 128) * 4; break; case 2: off = int64_t(g.below(1100)) - 550; break; case 3: off = int32_t(g.u32()); break;
                            case 4: off = int64_t(g.below(6)) - 3 + (g.chance(50) ? 508 : -512); break; default: off = int64_t(g.below(4)) - 2 + (g.chance(50) ? 127 : -128); break; }
      if (bt == 0) m.set_offset(int64_t(int32_t(off))); else m.set_offset_lo32(int32_t(off));
      vq.ops[0] = mk_reg(vt, g.chance(88) ? g.below(nid) : g.below(40));
      vq.ops[1].copy_from(m);
      pending.push_back(vq);
    }
    if (pending.empty() && c.as && arch != AR_A64 && g.chance(5)) {   // VEX / EVEX register form: reset_state(), optional set_extra_reg(k), vaddps v, v, v
      Call z; z.kind = K_RESETSTATE; z.what = "reset_state"; pending.push_back(z);
      if (g.chance(40)) { Call x; x.kind = K_SETEXTRA; x.what = "set_extra_reg"; static const uint32_t kw[] = {0, 8, 9, 15};
        Reg kr = Reg::from_type_and_id(g.chance(95) ? RegType::kMask : RegType::kGp32, g.chance(88) ? 1 + g.below(7) : g.pick(kw));
        x.a = kr.signature().bits(); x.b = kr.id(); pending.push_back(x); }
      Call vq; vq.kind = K_VRRR; vq.what = "vrrr"; vq.nform = 3;
      bool x64 = arch == AR_X64;
      uint32_t r = g.below(100);
      uint32_t vt = r < 40 ? uint32_t(RegType::kVec128) : r < 70 ? uint32_t(RegType::kVec256) : r < 95 ? uint32_t(RegType::kVec512) : uint32_t(RegType::kGp32);
      uint32_t nid = x64 ? (g.chance(50) ? 16 : 32) : 8;
      auto id = [&]() { return g.chance(90) ? g.below(nid) : g.below(40); };
      vq.ops[0] = mk_reg(vt, id()); vq.ops[1] = mk_reg(g.chance(92) ? vt : uint32_t(RegType::kVec128), id()); vq.ops[2] = mk_reg(g.chance(92) ? vt : uint32_t(RegType::kVec256), id());
      pending.push_back(vq);
    }
    if (pending.empty() && c.as && arch != AR_A64 && g.chance(5)) {   // shift / rotate r, imm
      using namespace x86;
      Call z; z.kind = K_RESETSTATE; z.what = "reset_state"; pending.push_back(z);
      if (g.chance(40)) { Call o; o.kind = K_SETOPT; o.what = "set_inst_options"; o.a = 0x20u; pending.push_back(o); }
      Call sq; sq.kind = K_SHIFT; sq.what = "shift"; sq.nform = 2;
      static const uint32_t ids[] = { Inst::kIdShl, Inst::kIdShr, Inst::kIdSar, Inst::kIdRol, Inst::kIdRor, Inst::kIdRcl, Inst::kIdRcr, Inst::kIdSal };
      sq.a = g.pick(ids);
      bool x64 = arch == AR_X64;
      uint32_t r = g.below(100);
      uint32_t rt = r < 20 ? uint32_t(RegType::kGp8Lo) : r < 32 ? uint32_t(RegType::kGp8Hi) : r < 47 ? uint32_t(RegType::kGp16) : r < 70 ? uint32_t(RegType::kGp32)
                  : r < 90 ? uint32_t(RegType::kGp64) : r < 95 ? uint32_t(RegType::kVec128) : 2 + g.below(30);
      static const uint32_t wid[] = {4, 7, 8, 15, 16, 31, 32, 255, 256, 0xFFFFFFFFu};
      uint32_t rid = g.chance(80) ? g.below(x64 ? 16 : 8) : g.pick(wid);
      if (rt == uint32_t(RegType::kVec128) && g.chance(70)) { static const uint32_t vb[] = {15, 16, 17, 31, 32}; rid = g.pick(vb); }   // the validator's EVEX-only register boundary
      int64_t imm;
      switch (g.below(6)) { case 0: imm = 1; break; case 1: imm = int64_t(g.below(64)); break; case 2: imm = 257; break; case 3: imm = int64_t(g.below(600)) - 300; break;
                            case 4: imm = int64_t(g.next()); break; default: imm = int64_t(g.below(8)); break; }
      sq.ops[0] = mk_reg(rt, rid); if (!sq.ops[0].is_reg()) sq.ops[0] = mk_reg(uint32_t(RegType::kGp32), rid);   // a type without a signature makes no register operand
      sq.ops[1] = mk_imm(imm); sq.c = uint64_t(imm);
      pending.push_back(sq);
    }
    if (pending.empty() && c.as && arch != AR_A64 && g.chance(3)) {   // push / pop sreg
      Call z; z.kind = K_RESETSTATE; z.what = "reset_state"; pending.push_back(z);
      Call pq; pq.kind = K_PUSHPOP; pq.what = "pushpop"; pq.flag = g.chance(50);
      static const uint32_t wid[] = {0, 7, 8, 15, 31, 32, 255, 256, 1000, 0xFFFFFFFFu};
      pq.a = g.chance(70) ? 1 + g.below(6) : g.pick(wid);
      pq.ops[0] = mk_reg(uint32_t(RegType::kSegment), pq.a);
      pending.push_back(pq);
    }
    if (pending.empty() && c.as && arch == AR_A64 && g.chance(8)) {   // a64 SIMD / FP load / store addressing path
      using namespace a64;
      Call z; z.kind = K_RESETSTATE; z.what = "reset_state"; pending.push_back(z);
      Call lq; lq.kind = K_SIMDLS; lq.what = "simdls"; lq.nform = 2;
      lq.a = g.chance(50) ? Inst::kIdLdr_v : Inst::kIdStr_v;
      uint32_t r = g.below(100);
      uint32_t rt = r < 88 ? uint32_t(RegType::kVec8) + g.below(5) : r < 94 ? uint32_t(RegType::kGp64) : 2 + g.below(30);
      static const uint32_t wr[] = {31, 32, 40, 62, 63, 64, 200, 255, 300, 0xFFFFFFFFu};
      uint32_t rid = g.chance(82) ? g.below(32) : g.pick(wr);
      Operand reg = mk_reg(rt, rid); if (!reg.is_reg()) reg = mk_reg(uint32_t(RegType::kVec128), rid);
      if (reg.as<Reg>().reg_type() == RegType::kVec128 && g.chance(12)) {
        if (g.chance(50)) reg.as<Vec>().set_element_type(VecElementType(1 + g.below(4))); else { reg.as<Vec>().set_element_type(VecElementType::kS); reg.as<Vec>().set_element_index(g.below(4)); }
      }
      r = g.below(100);
      uint32_t bt = r < 86 ? uint32_t(RegType::kGp64) : r < 90 ? uint32_t(RegType::kGp32) : r < 94 ? uint32_t(RegType::kVec128) : r < 97 ? 0u : 2 + g.below(30);
      if (bt == 0 && lq.a == Inst::kIdLdr_v) bt = uint32_t(RegType::kGp64);      // ldr has a literal form: not modelled here
      r = g.below(100);
      uint32_t it = r < 50 ? 0u : r < 72 ? uint32_t(RegType::kGp64) : r < 92 ? uint32_t(RegType::kGp32) : r < 96 ? uint32_t(RegType::kVec128) : 2 + g.below(30);
      a64::Mem m;
      m.set_base_type(RegType(bt)); m.set_base_id(g.chance(85) ? g.below(32) : g.pick(wr));
      m.set_index_type(RegType(it)); m.set_index_id(g.chance(80) ? g.below(31) : g.pick(wr));
      m.set_shift_op(ShiftOp(g.chance(45) ? 0 : g.below(16)));
      { static const uint32_t sv[] = {0, 0, 0, 1, 2, 3, 4, 31}; m.set_shift(g.pick(sv)); }
      m.set_offset_mode(arm::OffsetMode(g.chance(70) ? 0 : g.below(4)));
      int32_t off;
      switch (g.below(8)) { case 0: off = 0; break; case 1: off = int32_t(g.below(512)) * 16; break; case 2: off = int32_t(g.below(600)) - 300; break;
                            case 3: off = int32_t(4090 + g.below(12)) << g.below(5); break; case 4: off = int32_t(g.u32()); break; case 5: off = int32_t(g.below(8192)); break;
                            case 6: off = -256 + int32_t(g.below(3)) - 1; break; default: off = 255 + int32_t(g.below(3)) - 1; break; }
      if (it != 0 && g.chance(80)) off = 0;
      if (bt != 0) m.set_offset_lo32(off);
      lq.ops[0] = reg; lq.ops[1].copy_from(m);
      pending.push_back(lq);
    }
    if (pending.empty() && c.as && arch == AR_A64 && g.chance(7)) {   // a64 load / store pair path
      using namespace a64;
      Call z; z.kind = K_RESETSTATE; z.what = "reset_state"; pending.push_back(z);
      Call pq; pq.kind = K_LDP; pq.what = "ldp"; pq.nform = 3;
      static const uint32_t ids[] = { Inst::kIdLdp, Inst::kIdStp, Inst::kIdLdnp, Inst::kIdStnp, Inst::kIdLdpsw, Inst::kIdStgp, Inst::kIdLdp, Inst::kIdStp };
      pq.a = g.pick(ids);
      bool xonly = pq.a == Inst::kIdLdpsw || pq.a == Inst::kIdStgp;
      uint32_t r = g.below(100);
      uint32_t rt0 = r < 45 ? uint32_t(RegType::kGp64) : r < 90 ? uint32_t(RegType::kGp32) : r < 95 ? uint32_t(RegType::kVec128) : 2 + g.below(30);
      if (xonly && rt0 == uint32_t(RegType::kGp32) && g.chance(80)) rt0 = uint32_t(RegType::kGp64);
      uint32_t rt1 = g.chance(88) ? rt0 : (rt0 == uint32_t(RegType::kGp64) ? uint32_t(RegType::kGp32) : uint32_t(RegType::kGp64));
      static const uint32_t wr[] = {31, 32, 40, 62, 63, 64, 200, 255, 300, 0xFFFFFFFFu};
      uint32_t rid0 = g.chance(85) ? g.below(31) : g.pick(wr), rid1 = g.chance(85) ? g.below(31) : g.pick(wr);
      r = g.below(100);
      uint32_t bt = r < 86 ? uint32_t(RegType::kGp64) : r < 91 ? uint32_t(RegType::kGp32) : r < 95 ? uint32_t(RegType::kVec128) : 2 + g.below(30);
      uint32_t it = g.chance(88) ? 0u : (g.chance(50) ? uint32_t(RegType::kGp64) : uint32_t(RegType::kGp32));
      a64::Mem m;
      m.set_base_type(RegType(bt)); m.set_base_id(g.chance(88) ? g.below(32) : g.pick(wr));
      m.set_index_type(RegType(it)); m.set_index_id(g.below(31));
      m.set_offset_mode(arm::OffsetMode(g.chance(60) ? 0 : g.below(4)));
      int32_t off;
      switch (g.below(7)) { case 0: off = 0; break; case 1: off = (int32_t(g.below(128)) - 64) * 8; break; case 2: off = (int32_t(g.below(128)) - 64) * 4; break;
                            case 3: off = (int32_t(g.below(128)) - 64) * 16; break; case 4: off = int32_t(g.below(1200)) - 600; break; case 5: off = int32_t(g.u32()); break;
                            default: off = (g.chance(50) ? 63 : -64) * (4 << g.below(3)) + (int32_t(g.below(3)) - 1) * (4 << g.below(3)); break; }
      m.set_offset_lo32(off);
      pq.ops[0] = mk_reg(rt0, rid0); pq.ops[1] = mk_reg(rt1, rid1);
      if (!pq.ops[0].is_reg()) pq.ops[0] = mk_reg(uint32_t(RegType::kGp64), rid0);
      if (!pq.ops[1].is_reg()) pq.ops[1] = mk_reg(uint32_t(RegType::kGp64), rid1);
      pq.ops[2].copy_from(m);
      pending.push_back(pq);
    }
    if (pending.empty() && c.as && arch == AR_A64 && g.chance(12)) {   // a64 load / store addressing path
      using namespace a64;
      Call z; z.kind = K_RESETSTATE; z.what = "reset_state"; pending.push_back(z);
      Call lq; lq.kind = K_LDST; lq.what = "ldst"; lq.nform = 2;
      static const uint32_t ids[] = { Inst::kIdLdr, Inst::kIdStr, Inst::kIdLdrb, Inst::kIdLdrh, Inst::kIdLdrsb, Inst::kIdLdrsh, Inst::kIdLdrsw, Inst::kIdStrb, Inst::kIdStrh };
      lq.a = g.pick(ids);
      bool literal = lq.a == Inst::kIdLdr || lq.a == Inst::kIdLdrsw;   // these have a literal (label / absolute) form: not modelled here
      uint32_t r = g.below(100);
      uint32_t rt = r < 45 ? uint32_t(RegType::kGp64) : r < 90 ? uint32_t(RegType::kGp32) : r < 95 ? uint32_t(RegType::kVec128) : 2 + g.below(30);
      if (g.chance(80)) {   // mostly the register width the instruction takes
        bool wonly = lq.a == Inst::kIdLdrb || lq.a == Inst::kIdLdrh || lq.a == Inst::kIdStrb || lq.a == Inst::kIdStrh;
        if (wonly && rt == uint32_t(RegType::kGp64)) rt = uint32_t(RegType::kGp32);
        if (lq.a == Inst::kIdLdrsw && rt == uint32_t(RegType::kGp32)) rt = uint32_t(RegType::kGp64);
      }
      static const uint32_t wr[] = {31, 32, 40, 62, 63, 64, 200, 255, 300, 0xFFFFFFFFu};
      uint32_t rid = g.chance(80) ? g.below(31) : g.pick(wr);
      r = g.below(100);
      uint32_t bt = r < 84 ? uint32_t(RegType::kGp64) : r < 89 ? uint32_t(RegType::kGp32) : r < 93 ? uint32_t(RegType::kVec128) : r < 97 ? 0u : 2 + g.below(30);
      if (bt == 0 && literal) bt = uint32_t(RegType::kGp64);
      r = g.below(100);
      uint32_t it = r < 45 ? 0u : r < 68 ? uint32_t(RegType::kGp64) : r < 90 ? uint32_t(RegType::kGp32) : r < 95 ? uint32_t(RegType::kVec128) : 2 + g.below(30);
      a64::Mem m;
      m.set_base_type(RegType(bt)); m.set_base_id(g.chance(85) ? g.below(32) : g.pick(wr));
      m.set_index_type(RegType(it)); m.set_index_id(g.chance(80) ? g.below(31) : g.pick(wr));
      m.set_shift_op(ShiftOp(g.chance(45) ? 0 : g.below(16)));
      { static const uint32_t sv[] = {0, 0, 0, 1, 2, 3, 4, 31}; m.set_shift(g.pick(sv)); }
      m.set_offset_mode(arm::OffsetMode(g.chance(70) ? 0 : g.below(4)));
      int32_t off;
      switch (g.below(8)) { case 0: off = 0; break; case 1: off = int32_t(g.below(512)) * 8; break; case 2: off = int32_t(g.below(600)) - 300; break;
                            case 3: off = int32_t(4090 + g.below(12)) << g.below(4); break; case 4: off = int32_t(g.u32()); break; case 5: off = int32_t(g.below(8192)); break;
                            case 6: off = -256 + int32_t(g.below(3)) - 1; break; default: off = 255 + int32_t(g.below(3)) - 1; break; }
      if (it != 0 && g.chance(80)) off = 0;
      if (bt != 0) m.set_offset_lo32(off);
      lq.ops[0] = mk_reg(rt, rid); lq.ops[1].copy_from(m);
      pending.push_back(lq);
    }
    if (pending.empty() && c.as && arch != AR_A64 && g.chance(8)) {   // mov r, [mem] / mov [mem], r - half of them accumulator + base-less address (moffs)
      Call z; z.kind = K_RESETSTATE; z.what = "reset_state"; pending.push_back(z);
      Call mv; mv.kind = K_MOVM; mv.what = "movm"; mv.flag = g.chance(50); mv.nform = 2;
      { static const uint32_t ar[] = { x86::Inst::kIdAdd, x86::Inst::kIdOr, x86::Inst::kIdAdc, x86::Inst::kIdSbb, x86::Inst::kIdAnd, x86::Inst::kIdSub, x86::Inst::kIdXor, x86::Inst::kIdCmp };
        mv.a = g.chance(60) ? uint32_t(x86::Inst::kIdMov) : g.pick(ar); }     // mov (with its moffs form) or one of the eight kEncodingX86Arith instructions
      bool x64 = arch == AR_X64;
      uint32_t r = g.below(100);
      uint32_t rt = r < 15 ? uint32_t(RegType::kGp8Lo) : r < 23 ? uint32_t(RegType::kGp8Hi) : r < 38 ? uint32_t(RegType::kGp16) : r < 68 ? uint32_t(RegType::kGp32)
                  : r < 92 ? uint32_t(RegType::kGp64) : r < 96 ? uint32_t(RegType::kVec128) : 2 + g.below(22);
      static const uint32_t wid[] = {4, 5, 7, 8, 12, 15, 16, 31, 32, 255, 0xFFFFFFFFu};
      uint32_t rid = g.chance(45) ? 0 : g.chance(85) ? g.below(x64 ? 16 : 8) : g.pick(wid);
      Operand reg = mk_reg(rt, rid); if (!reg.is_reg()) reg = mk_reg(uint32_t(RegType::kGp32), rid);
      uint32_t nat = uint32_t(x64 ? (g.chance(75) ? RegType::kGp64 : RegType::kGp32) : RegType::kGp32);
      bool baseless = g.chance(50);
      uint32_t bt = baseless ? 0u : (g.chance(80) ? nat : g.chance(50) ? uint32_t(RegType::kGp16) : g.below(14));
      uint32_t it = baseless ? 0u : (g.chance(60) ? 0u : g.chance(85) ? nat : g.below(14));
      if (bt == 1) bt = 0; if (it == 1) it = 0;     // label bases belong to the label-path model
      x86::Mem m;
      m.set_base_type(RegType(bt)); m.set_base_id(g.chance(88) ? g.below(x64 ? 16 : 8) : g.pick(wid));
      m.set_index_type(RegType(it)); m.set_index_id(g.chance(88) ? g.below(x64 ? 16 : 8) : g.pick(wid));
      m.set_shift(g.chance(60) ? 0 : g.below(4));
      { OperandSignature sg = m.signature(); sg.set_field<x86::Mem::kSignatureMemSegmentMask>(g.chance(70) ? 0 : g.below(8)); m.set_signature(sg); }
      m.set_addr_type(x86::Mem::AddrType(g.chance(65) ? 0 : g.below(4)));
      { uint32_t rsz = reg.x86_rm_size(); static const uint32_t sz[] = {0, 1, 2, 4, 8, 16}; m.set_size(g.chance(80) ? (g.chance(50) ? rsz : 0) : g.pick(sz)); }
      int64_t off;
      switch (g.below(6)) { case 0: off = 0; break; case 1: off = int64_t(g.below(256)) - 128; break; case 2: off = int64_t(g.below(4)) - 2 + (g.chance(50) ? 127 : -128); break;
                            case 3: off = int32_t(g.u32()); break; case 4: off = int64_t(g.u32() & 0xFFFF) - 0x8000; break; default: off = int64_t(g.next()) >> g.below(40); break; }
      if (bt == 0 && it == 0 && g.chance(70)) { static const int64_t av[] = {0x1000, 0x10040, 0x7FFFFFFF, 0x80000000ll, 0xFFFFFFFFll, 0x100000000ll, -1, -4096, 0x12345678ll, 0x8000FFFFll, 0x123456789All, 0x7FFFFFFFFFFFFF00ll};
        off = g.pick(av) + int64_t(g.below(64)); }
      if (bt == 0) m.set_offset(x64 ? off : int64_t(int32_t(off))); else m.set_offset_lo32(int32_t(off));
      Operand mo; mo.copy_from(m);
      mv.ops[0] = mv.flag ? mo : reg; mv.ops[1] = mv.flag ? reg : mo;
      pending.push_back(mv);
    }
    if (pending.empty() && c.as && arch != AR_A64 && g.chance(9)) {   // memory-operand path instruction
      Call z; z.kind = K_RESETSTATE; z.what = "reset_state"; pending.push_back(z);
      Call mq; mq.kind = K_MEM; mq.what = "mem";
      bool x64 = arch == AR_X64;
      uint32_t nat = uint32_t(x64 ? (g.chance(75) ? RegType::kGp64 : RegType::kGp32) : RegType::kGp32);
      auto pick_type = [&](bool base) -> uint32_t {
        uint32_t r = g.below(100);
        if (r < (base ? 62u : 38u)) return nat;
        if (r < (base ? 76u : 46u)) return uint32_t(RegType::kGp16);
        if (r < (base ? 90u : 92u)) return 0;
        if (r < 95) return uint32_t(g.chance(50) ? RegType::kVec128 : RegType::kGp8Lo);
        uint32_t t = g.below(32); return (t == 1 || t == 31) ? 0 : t; };
      auto pick_id = [&]() -> uint32_t { static const uint32_t w[] = {4, 5, 12, 13, 8, 15, 16, 31, 32, 255, 256, 0xFFFFFFFFu};
        return g.chance(85) ? g.below(x64 ? 16 : 8) : g.pick(w); };
      uint32_t bt = pick_type(true), it = pick_type(false);
      uint32_t dst = g.chance(85) ? g.below(x64 ? 16 : 8) : pick_id();
      x86::Mem m;
      m.set_base_type(RegType(bt)); m.set_base_id(pick_id());
      m.set_index_type(RegType(it)); m.set_index_id(pick_id());
      m.set_shift(g.chance(60) ? 0 : g.below(4));
      { OperandSignature sg = m.signature(); sg.set_field<x86::Mem::kSignatureMemSegmentMask>(g.chance(75) ? 0 : g.below(8)); m.set_signature(sg); }
      m.set_addr_type(x86::Mem::AddrType(g.chance(70) ? 0 : g.below(4)));
      { static const uint32_t sz[] = {0, 0, 0, 4, 4, 4, 4, 4, 4, 4, 8, 2, 1, 3, 16}; m.set_size(g.pick(sz)); }
      int64_t off;
      switch (g.below(6)) { case 0: off = 0; break; case 1: off = int64_t(g.below(256)) - 128; break; case 2: off = int64_t(g.below(4)) - 2 + (g.chance(50) ? 127 : -128); break;
                            case 3: off = int32_t(g.u32()); break; case 4: off = int64_t(g.u32() & 0xFFFF) - 0x8000; break; default: off = int64_t(g.next()) >> g.below(40); break; }
      if (bt == 0 && it == 0 && x64 && g.chance(50)) { static const int64_t av[] = {0x1000, 0x10040, 0x7FFFFFFF, 0x80000000ll, 0xFFFFFFFFll, 0x100000000ll, -1, -4096, 0x12345678ll, 0x8000FFFFll};
        off = g.pick(av) + int64_t(g.below(64)); }
      if (bt == 0) m.set_offset(off); else m.set_offset_lo32(int32_t(off));
      mq.ops[0] = mk_reg(uint32_t(RegType::kGp32), dst); mq.ops[1].copy_from(m); mq.a = dst;
      pending.push_back(mq);
    }
    if (pending.empty() && c.as && arch != AR_A64 && g.chance(5)) {   // VEX + VSIB path instruction (VEX forms only: ids < 16, no 512-bit)
      Call z; z.kind = K_RESETSTATE; z.what = "reset_state"; pending.push_back(z);
      Call vq; vq.kind = K_VSIB; vq.what = "vsib";
      bool x64 = arch == AR_X64;
      uint32_t r = g.below(100);
      uint32_t vt = r < 55 ? uint32_t(RegType::kVec128) : r < 90 ? uint32_t(RegType::kVec256) : (g.chance(50) ? uint32_t(RegType::kGp32) : uint32_t(RegType::kX86_Mm));
      r = g.below(100);
      uint32_t it = r < 50 ? uint32_t(RegType::kVec128) : r < 75 ? uint32_t(RegType::kVec256) : r < 85 ? 0u : r < 95 ? uint32_t(x64 ? RegType::kGp64 : RegType::kGp32) : g.below(13);
      if (g.chance(60) && vt >= uint32_t(RegType::kVec128)) it = vt;             // matching forms are the accepted ones
      r = g.below(100);
      uint32_t bt = r < 70 ? uint32_t(x64 ? RegType::kGp64 : RegType::kGp32) : r < 85 ? 0u : r < 92 ? uint32_t(RegType::kGp32) : (2 + g.below(11));
      uint32_t nid = x64 ? 16 : 8;
      x86::Mem m;
      static const bool vexonly_fixed = getenv("C14_VEXONLY") != nullptr;   // ids 16..31 in the VEX-only form: only when the sweep found them refused
      uint32_t hid = (vexonly_fixed && x64) ? 32 : 16;
      m.set_base_type(RegType(bt)); m.set_base_id(g.chance(90) ? g.below(nid) : 8 + g.below(24));
      m.set_index_type(RegType(it)); m.set_index_id(g.chance(85) ? g.below(nid) : g.below(hid));
      m.set_shift(g.below(4));
      { OperandSignature sg = m.signature(); sg.set_field<x86::Mem::kSignatureMemSegmentMask>(g.chance(80) ? 0 : g.below(8)); m.set_signature(sg); }
      { static const uint32_t sz[] = {0, 0, 0, 4, 4, 8, 16}; m.set_size(g.pick(sz)); }
      int64_t off;
      switch (g.below(4)) { case 0: off = 0; break; case 1: off = int64_t(g.below(256)) - 128; break; case 2: off = int32_t(g.u32()); break; default: off = int64_t(g.below(4)) - 2 + (g.chance(50) ? 127 : -128); break; }
      if (bt == 0) m.set_offset(int64_t(int32_t(off))); else m.set_offset_lo32(int32_t(off));
      vq.ops[0] = mk_reg(vt, g.chance(85) ? g.below(nid) : g.below(hid));
      vq.ops[1].copy_from(m);
      vq.ops[2] = mk_reg(vt, g.chance(85) ? g.below(nid) : g.below(hid));
      pending.push_back(vq);
    }
    if (!pending.empty()) {
      k = pending.front(); pending.erase(pending.begin());
      if (k.kind == K_RESETSTATE) snprintf(cmd, sizeof(cmd), "RS");
      else if (k.kind == K_SETOPT) snprintf(cmd, sizeof(cmd), "O %u", k.a);
      else if (k.kind == K_MEM) {
        const x86::Mem& m = k.ops[1].as<x86::Mem>();
        long long off = m.base_type() == RegType::kNone ? (long long)m.offset() : (long long)m.offset_lo32();
        snprintf(cmd, sizeof(cmd), "K %u %u %u %u %u %u %u %u %u %u %lld", unsigned(x86::Inst::kIdAdd), k.a, unsigned(m.base_type()), m.base_id(), unsigned(m.index_type()), m.index_id(),
                 m.shift(), unsigned(m.segment_id()), unsigned(m.addr_type()), unsigned(m.size()), off);
      }
      else if (k.kind == K_VSIB) {
        const x86::Mem& m = k.ops[1].as<x86::Mem>();
        long long off = m.base_type() == RegType::kNone ? (long long)m.offset() : (long long)m.offset_lo32();
        snprintf(cmd, sizeof(cmd), "V %u %u %u %u %u %u %u %u %u %u %u %u %u %lld", unsigned(x86::Inst::kIdVgatherdps), unsigned(k.ops[0].as<Reg>().reg_type()), k.ops[0].id(), k.ops[2].id(),
                 k.ops[0].x86_rm_size() | k.ops[2].x86_rm_size(), unsigned(m.base_type()), m.base_id(), unsigned(m.index_type()), m.index_id(), m.shift(), unsigned(m.segment_id()),
                 unsigned(m.addr_type()), unsigned(m.size()), off);
      }
      else if (k.kind == K_SETEXTRA) snprintf(cmd, sizeof(cmd), "X %u %u", k.a, k.b);
      else if (k.kind == K_VSIB2) {
        const x86::Mem& m = k.ops[1].as<x86::Mem>();
        long long off = m.base_type() == RegType::kNone ? (long long)m.offset() : (long long)m.offset_lo32();
        snprintf(cmd, sizeof(cmd), "V2 %u %u %u %u %u %u %u %u %u %u %u %u %lld", unsigned(x86::Inst::kIdVgatherdps), unsigned(k.ops[0].as<Reg>().reg_type()), k.ops[0].id(),
                 k.ops[0].x86_rm_size(), unsigned(m.base_type()), m.base_id(), unsigned(m.index_type()), m.index_id(), m.shift(), unsigned(m.segment_id()),
                 unsigned(m.addr_type()), unsigned(m.size()), off);
      }
      else if (k.kind == K_MOVM) {
        const x86::Mem& m = k.ops[k.flag ? 0 : 1].as<x86::Mem>(); const Operand& rg = k.ops[k.flag ? 1 : 0];
        long long off = m.base_type() == RegType::kNone ? (long long)m.offset() : (long long)m.offset_lo32();
        snprintf(cmd, sizeof(cmd), "MV %u %d %u %u %u %u %u %u %u %u %u %u %u %lld", k.a, int(k.flag), unsigned(rg.as<Reg>().reg_type()), rg.id(), unsigned(rg.x86_rm_size()),
                 unsigned(m.base_type()), m.base_id(), unsigned(m.index_type()), m.index_id(), m.shift(), unsigned(m.segment_id()), unsigned(m.addr_type()), unsigned(m.size()), off);
      }
      else if (k.kind == K_VRRR)
        snprintf(cmd, sizeof(cmd), "VR %u %u %u %u %u %u %u %u", unsigned(x86::Inst::kIdVaddps), unsigned(k.ops[0].as<Reg>().reg_type()), k.ops[0].id(), unsigned(k.ops[1].as<Reg>().reg_type()), k.ops[1].id(),
                 unsigned(k.ops[2].as<Reg>().reg_type()), k.ops[2].id(), unsigned(k.ops[0].x86_rm_size() | k.ops[1].x86_rm_size()));
      else if (k.kind == K_SIMDLS) {
        const a64::Mem& m = k.ops[1].as<a64::Mem>(); const a64::Vec& v = k.ops[0].as<a64::Vec>();
        snprintf(cmd, sizeof(cmd), "LV %u %u %u %u %d %u %u %u %u %u %u %u %d", k.a, unsigned(v.reg_type()), v.id(), unsigned(v.element_type()), int(v.has_element_index()), unsigned(m.base_type()), m.base_id(),
                 unsigned(m.index_type()), m.index_id(), unsigned(m.shift_op()), m.shift(), unsigned(m.offset_mode()), m.base_type() == RegType::kNone ? 0 : int(m.offset_lo32()));
      }
      else if (k.kind == K_LDP) {
        const a64::Mem& m = k.ops[2].as<a64::Mem>();
        snprintf(cmd, sizeof(cmd), "LP %u %u %u %u %u %u %u %u %u %d", k.a, unsigned(k.ops[0].as<Reg>().reg_type()), k.ops[0].id(), unsigned(k.ops[1].as<Reg>().reg_type()), k.ops[1].id(),
                 unsigned(m.base_type()), m.base_id(), unsigned(m.index_type()), unsigned(m.offset_mode()), m.base_type() == RegType::kNone ? 0 : int(m.offset_lo32()));
      }
      else if (k.kind == K_SHIFT)
        snprintf(cmd, sizeof(cmd), "SH %u %u %u %u %lld", k.a, unsigned(k.ops[0].as<Reg>().reg_type()), k.ops[0].id(), unsigned(k.ops[0].x86_rm_size()), (long long)int64_t(k.c));
      else if (k.kind == K_LDST) {
        const a64::Mem& m = k.ops[1].as<a64::Mem>();
        snprintf(cmd, sizeof(cmd), "LS %u %u %u %u %u %u %u %u %u %u %d", k.a, unsigned(k.ops[0].as<Reg>().reg_type()), k.ops[0].id(), unsigned(m.base_type()), m.base_id(),
                 unsigned(m.index_type()), m.index_id(), unsigned(m.shift_op()), m.shift(), unsigned(m.offset_mode()), m.base_type() == RegType::kNone ? 0 : int(m.offset_lo32()));
      }
      else if (k.kind == K_PUSHPOP) snprintf(cmd, sizeof(cmd), "PP %d %u %u", int(k.flag), unsigned(k.flag ? x86::Inst::kIdPop : x86::Inst::kIdPush), k.a);
      else if (k.kind == K_NEWLABEL) snprintf(cmd, sizeof(cmd), "L");
      else if (k.kind == K_EMBED) snprintf(cmd, sizeof(cmd), "E %u", k.a);
      else if (k.kind == K_BIND) { /* cmd is printed after the call (B id pf) */ }
      else if (k.kind == K_EMBEDLABELDELTA) snprintf(cmd, sizeof(cmd), "ELD %u %u %u", k.a, k.b, unsigned(k.c));
      else if (k.kind == K_NEWSECTION) snprintf(cmd, sizeof(cmd), "NS %u %u", k.a, unsigned(k.name.size()));
      else if (k.kind == K_SECTION) snprintf(cmd, sizeof(cmd), "S %u %d", k.a, int(k.flag));
      else {
        // labels bound in another section are referenced too (holder-level cross-section fixups, DESIGN 7.14 repaired)
        snprintf(cmd, sizeof(cmd), "J %u %u %d %u", k.a, k.b, (k.a == 3 || k.a == 4) ? int(k.c >> 3) : 0, k.a >= 8 ? k.nform : 0u);
      }
    }
    else if (w < 8) { k.kind = K_SETOPT; static const uint32_t opts[] = { 0x1u, 0x2u, 0x4u, 0x8u, 0x10u, 0x20u, 0x40u, 0x80u, 0x100u, 0x200u, 0x400u, 0x1000u, 0x2000u, 0x4000u, 0x8000u, 0x10000u, 0x20000u, 0x40000u,
                                                      0x100000u, 0x200000u, 0x400000u, 0x1000000u, 0x4000000u, 0x10000000u, 0x80000000u };
                 k.a = g.chance(70) ? g.pick(opts) : g.u32(); k.what = "set_inst_options"; snprintf(cmd, sizeof(cmd), "O %u", k.a); }
    else if (w < 13) { k.kind = K_SETEXTRA; Reg x;
                 if (g.chance(70)) x = Reg::from_type_and_id(RegType::kMask, g.chance(60) ? 1 + g.below(7) : weird_id(g));
                 else if (g.chance(50)) x = Reg::from_type_and_id(RegType(g.below(32)), g.below(40));
                 else { x.set_signature(OperandSignature{g.u32()}); x.set_id(g.u32()); }
                 k.a = x.signature().bits(); k.b = x.id(); k.what = "set_extra_reg"; snprintf(cmd, sizeof(cmd), "X %u %u", k.a, k.b); }
    else if (w < 16) { k.kind = K_SETCMT; k.what = "set_inline_comment"; snprintf(cmd, sizeof(cmd), "M"); }
    else if (w < 70) {   // instruction
      is_inst = true; k.kind = K_INST; k.what = "inst";
      uint32_t cls = g.below(100);
      bool ok = false;
      if (cls < 35 || !have_form) {           // fresh valid form
        ok = c.func_mode ? gen_func_body_inst(g, c, k) : (arch == AR_A64 ? gen_a64_valid(g, c, k) : gen_x86_valid(g, c, k));
        if (ok) { k.nform = 0; while (k.nform < 6 && !k.ops[k.nform].is_none()) k.nform++; valid_form = k; have_form = true; k.what = "inst-valid"; }
      }
      if (!ok && have_form && cls < 85) {     // perturbation of a valid form (1..3 fields)
        k = valid_form; k.what = "inst-perturbed"; ok = true;
        bool keep_kind = arch == AR_A64 ? g.chance(85) : g.chance(50);
        uint32_t nmut = 1 + g.below(3);
        for (uint32_t m = 0; m < nmut; m++) {
          uint32_t which = g.below(12);
          uint32_t nops = 0; while (nops < 6 && !k.ops[nops].is_none()) nops++;
          if (which < 8 && nops) perturb_operand(g, c, k.ops[g.below(nops)], keep_kind);
          else if (which == 8 && nops >= 2 && !keep_kind) { uint32_t i = g.below(nops), j = g.below(nops); Operand t = k.ops[i]; k.ops[i] = k.ops[j]; k.ops[j] = t; }
          else if (which == 9 && nops && !keep_kind) { k.ops[nops - 1].reset(); }
          else if (which == 10 && nops < 6 && !keep_kind) { k.ops[nops] = random_operand(g, c); }
          else { if (arch == AR_A64) k.a = g.chance(50) ? (k.a & 0xFFFF) | (g.below(16) << 27) : 1 + g.below(a64::Inst::_kIdCount + 8);
                 else k.a = g.chance(50) ? 1 + g.below(x86::Inst::_kIdCount + 8) : (g.chance(50) ? 0 : g.u32()); }
        }
      }
      if (!ok) {                              // arbitrary tuple
        k.kind = K_INST; k.what = "inst-random"; k.nform = 0;
        k.a = arch == AR_A64 ? g.below(a64::Inst::_kIdCount + 8) : g.below(x86::Inst::_kIdCount + 8);
        if (g.chance(5)) k.a = g.u32();
        for (auto& o : k.ops) o.reset();
        uint32_t n = g.below(7);
        for (uint32_t i = 0; i < n; i++) k.ops[i] = random_operand(g, c);
      }
    }
    else if (w < 76) { k.kind = K_NEWLABEL; k.what = "new_label"; snprintf(cmd, sizeof(cmd), "L"); }
    else if (w < 79) {
      k.kind = K_NAMEDLABEL; k.what = "new_named_label";
      uint32_t t = g.below(100);
      k.a = t < 25 ? 0 : t < 45 ? 1 : t < 75 ? 2 : t < 90 ? 3 : 4 + g.below(250);
      uint32_t nl = g.chance(8) ? 0 : g.chance(5) ? 2049 + g.below(10) : g.chance(3) ? 2048 : 1 + g.below(6);
      k.name.clear(); for (uint32_t i = 0; i < nl; i++) k.name.push_back(char('a' + g.below(nl > 6 ? 26 : 2)));
      k.b = g.chance(50) ? Globals::kInvalidId : (g.chance(70) && nlab ? g.below(nlab) : nlab + g.below(5));
      bool dup = false; char key[32]; snprintf(key, sizeof(key), "%u:", k.b); std::string full = std::string(key) + k.name;
      for (auto& s : c.names) if (s == full) dup = true;
      k.flag = dup;
      snprintf(cmd, sizeof(cmd), "NL %u %u %u %d", nl, k.a, k.b, int(dup));
    }
    else if (w < 86) {
      k.kind = K_BIND; k.what = "bind";
      bool want_valid = g.chance(65) && nlab;
            k.a = want_valid ? g.below(nlab) : (g.chance(50) && nlab ? g.below(nlab) : pick_label(g, c, false));
    }
    else if (w < 91) { k.kind = K_ALIGN; k.what = "align"; static const uint32_t al[] = {0, 1, 2, 4, 8, 16, 32, 64, 128, 3, 5, 12, 48, 65, 256, 0x80000000u, 0xFFFFFFFFu};
                       k.a = g.chance(85) ? g.below(3) : 3 + g.below(250); k.b = g.pick(al); snprintf(cmd, sizeof(cmd), "A %u %u", k.a, k.b); }
    else if (w < 94) { k.kind = K_EMBED; k.what = "embed"; k.a = g.chance(20) ? 0 : 1 + g.below(arch == AR_A64 && g.chance(70) ? 16 : 40); if (arch == AR_A64 && g.chance(70)) k.a &= ~3u; snprintf(cmd, sizeof(cmd), "E %u", k.a); }
    else if (w < 97 && g.chance(30)) {   // embed_const_pool
      k.kind = K_CONSTPOOL; k.what = "embed_const_pool"; k.b = 1 + g.below(4);
      uint32_t r = g.below(100);
      if (r < 25 || !nlab) k.a = pick_label(g, c, false);
      else if (r < 45) { k.a = g.below(nlab);                     // any label: bound / node active ones are refused
        if (c.as && !getenv("C14_POOL_ATOMIC") && !c.code.is_label_bound(k.a) && c.code.label_entry_of(k.a).unresolved_fixups()) k.a = pick_label(g, c, false); }
      else {                                                      // an unbound label; one with pending fixups only when the call is atomic
        k.a = nlab; bool any_pending = getenv("C14_POOL_ATOMIC") != nullptr;
        for (uint32_t t = 0; t < 8; t++) { uint32_t cand = g.below(nlab);
          if (!c.code.is_label_bound(cand) && (any_pending || !c.code.label_entry_of(cand).unresolved_fixups())) { k.a = cand; break; } }
      }
      uint32_t psize = k.b == 4 ? 16 : 8 * k.b, palign = k.b == 4 ? 16 : 8;
      snprintf(cmd, sizeof(cmd), "CP %u %u %u", k.a, psize, palign);
    }
    else if (w < 97) { static const uint32_t sz[] = {0, 1, 2, 4, 8, 3, 5, 6, 7, 16, 9, 255, 0x100};
                       if (g.chance(60)) { k.kind = K_EMBEDLABEL; k.what = "embed_label";
                         k.a = g.chance(70) && nlab ? g.below(nlab) : pick_label(g, c, false); k.b = g.pick(sz); snprintf(cmd, sizeof(cmd), "EL %u %u", k.a, k.b); }
                       else { k.kind = K_EMBEDLABELDELTA; k.what = "embed_label_delta";
                         k.a = g.chance(75) && nlab ? g.below(nlab) : pick_label(g, c, false); k.b = g.chance(75) && nlab ? g.below(nlab) : pick_label(g, c, false); k.c = g.pick(sz);
                         snprintf(cmd, sizeof(cmd), "ELD %u %u %u", k.a, k.b, unsigned(k.c)); } }
    else if (w < 99 && c.as) { k.kind = K_SECTION; k.what = "section"; uint32_t ns = uint32_t(c.code.section_count());
                       k.flag = g.chance(25); k.a = k.flag ? g.below(3) : (g.chance(85) ? g.below(ns) : g.below(ns));
                       snprintf(cmd, sizeof(cmd), "S %u %d", k.a, int(k.flag)); }
    else if (c.as && c.code.section_count() < 4) { k.kind = K_NEWSECTION; k.what = "new_section"; static const uint32_t al[] = {0, 1, 2, 8, 64, 3, 6, 100};
                       k.a = g.pick(al); uint32_t nl = g.chance(80) ? 2 + g.below(6) : 34 + g.below(5); k.name = "."; for (uint32_t i = 1; i < nl; i++) k.name.push_back(char('a' + g.below(26)));
                       snprintf(cmd, sizeof(cmd), "NS %u %u", k.a, nl); }
    else { k.kind = K_EMBED; k.what = "embed"; k.a = 4; snprintf(cmd, sizeof(cmd), "E 4"); }

    if (k.kind == K_INST && c.func_mode) {   // register size fields > 64 are exercised by the `probe-rwsize` mode only (known UB in query_rw_info)
      for (auto& o : k.ops) if (o.is_reg() && o._signature.size() > 64) { OperandSignature sg = o._signature; sg.set_size(sg.size() % 65); o._signature = sg; }
      if (arch == AR_A64) {   // likewise left to `probe-rwindex` / `probe-raphys`: element index x size >= 64 (a64 query_rw_info), physical ids 32..255 (RA bit sets)
        static const uint8_t esz[8] = { 0, 1, 2, 4, 8, 4, 4, 0 };
        for (auto& o : k.ops) {
          if (!o.is_reg()) continue;
          a64::Vec& v = o.as<a64::Vec>();
          if (v.has_element_index() && v.element_index() * esz[uint32_t(v.element_type()) & 7] >= 64) v.set_element_index(0);
          if (o.id() >= 32 && o.id() < Operand::kVirtIdMin && o.id() != 63) o.as<Reg>().set_id(o.id() % 32);
        }
        for (auto& o : k.ops) if (o.is_mem()) { BaseMem& m = o.as<BaseMem>();
          if (m.has_base_reg() && m.base_id() >= 32 && m.base_id() < Operand::kVirtIdMin && m.base_id() != 63) m.set_base_id(m.base_id() % 32);
          if (m.has_index_reg() && m.index_id() >= 32 && m.index_id() < Operand::kVirtIdMin && m.index_id() != 63) m.set_index_id(m.index_id() % 32); }
      }
    }
    // bind: how many pending fixups of the label the binding resolves (to compute `patchfail` below)
    uint32_t resolvable = 0;
    if (k.kind == K_BIND && c.as && k.a < nlab && !c.code.is_label_bound(k.a)) {
      uint32_t cur = c.as->_section->section_id();
      for (Fixup* fx = c.code.label_entry_of(k.a).unresolved_fixups(); fx; fx = fx->next) if (fx->label_or_reloc_id != Globals::kInvalidId || fx->section_id == cur) resolvable++;
    }
    if (verbose) { fprintf(stderr, "RUN session=%" PRIu64 " call=%u arch=%d flavour=%d %s [%s] a=%u b=%u c=%" PRIu64 "%s\n", session, ci, arch, fl, k.what, cmd, k.a, k.b, k.c, k.kind == K_INST ? ops_str(k).c_str() : ""); fflush(stderr); }
    Res r = exec(c, k);
    Snap post; take(c, post);
    if (k.kind == K_NAMEDLABEL && r.ret == 0) { char key[32]; snprintf(key, sizeof(key), "%u:", k.b); if (k.a != 0 && !k.name.empty()) c.names.push_back(std::string(key) + k.name); }
    std::string info;
    if (k.kind == K_INST) {
      if (r.ret == 0 && !r.thrown) {
        uint64_t nb = c.as ? post.sizes[pre.cur] - pre.sizes[pre.cur] : 0;
        long fixl = -1; for (size_t i = 0; i < pre.lpend.size() && i < post.lpend.size(); i++) if (post.lpend[i] > pre.lpend[i]) fixl = long(i);
        if (fixl < 0 && post.fix > pre.fix) {   // holder-level fixup: the referenced label is bound to another section
          for (auto& o : k.ops) {
            uint32_t id = Globals::kInvalidId;
            if (o.is_label()) id = o.id(); else if (o.is_mem() && o.as<BaseMem>().has_base_label()) id = o.as<BaseMem>().base_id();
            if (id < pre.lbound.size() && pre.lbound[id] && pre.lsec[id] != pre.cur) { fixl = long(id); info += " xsec-fixup"; break; }
          }
        }
        uint64_t drel = post.rel - pre.rel, dadr = post.adr - pre.adr, dsec = post.sizes.size() - pre.sizes.size();
        // position / addend / format of the fixup the encoder created (the newest one chained to the label)
        long long foff = 0, frel = 0; unsigned fbits = 0, fdis = 0;
        if (fixl >= 0 && size_t(fixl) < c.code.label_count() && !c.code.is_label_bound(uint32_t(fixl))) {
          if (Fixup* fx = c.code.label_entry_of(uint32_t(fixl)).unresolved_fixups()) { foff = (long long)fx->offset; frel = (long long)fx->rel; fbits = fx->format.imm_bit_count(); fdis = fx->format.imm_discard_lsb(); }
        }
        snprintf(cmd, sizeof(cmd), "I ok %" PRIu64 " %ld %d %" PRIu64 " %" PRIu64 " %" PRIu64 " %lld %lld %u %u", nb, fixl, int(fixl >= 0 && drel > 0), drel, dadr, dsec, foff, frel, fbits, fdis);
        std::string bad = bad_reg_ids(c, k, pre);
        if (!bad.empty() && c.as) {
          uint32_t enc = 0;
          if (arch == AR_A64) { uint32_t rid = k.a & 0xFFFF; enc = rid < a64::Inst::_kIdCount ? a64::InstDB::inst_info_by_id(rid)._encoding : 0; }
          else { enc = k.a < x86::Inst::_kIdCount ? x86::InstDB::inst_info_by_id(k.a)._encoding : 0; }
          char b[64]; snprintf(b, sizeof(b), " badreg enc=%u", enc); info += b; info += bad;
        }
      }
      else snprintf(cmd, sizeof(cmd), "I err %u", r.ret);
      char b[64]; snprintf(b, sizeof(b), " %s id=%u", k.what, k.a); info += b; info += ops_str(k);
    }
    else if (k.kind == K_MEM || k.kind == K_VSIB || k.kind == K_LDST || k.kind == K_SHIFT || k.kind == K_VSIB2 || k.kind == K_LDP || k.kind == K_MOVM || k.kind == K_SIMDLS || k.kind == K_VRRR) {
      if (r.ret == 0 && !r.thrown) { std::string bad = bad_reg_ids(c, k, pre); if (!bad.empty()) { info += " badreg enc=0"; info += bad; info += " inst-modelled"; } }
      info += k.kind == K_MEM ? " mem" : k.kind == K_LDST ? " ldst" : k.kind == K_SHIFT ? " shift" : k.kind == K_VSIB2 ? " vsib2" : k.kind == K_LDP ? " ldp" : k.kind == K_MOVM ? " movm" : k.kind == K_SIMDLS ? " simdls" : k.kind == K_VRRR ? " vrrr" : " vsib"; info += ops_str(k);
    }
    else if (k.kind == K_REL) { char b[96]; snprintf(b, sizeof(b), " rel kind=%u label=%u c=%" PRIu64, k.a, k.b, k.c); info += b;
      if (r.ret == 0 && !r.thrown && k.b < pre.lbound.size() && pre.lbound[k.b] && pre.lsec[k.b] != pre.cur && post.fix > pre.fix) info += " xsec-fixup"; }
    else if (k.kind == K_BIND) {
      uint32_t pf = 0;
      if (c.as && r.ret == uint32_t(Error::kInvalidDisplacement)) { uint64_t dec = pre.fix - post.fix; pf = resolvable > dec ? uint32_t(resolvable - dec) : 0; }
      snprintf(cmd, sizeof(cmd), "B %u %u", k.a, pf);
    }
    printf("C %s | R %u %d %u %d | S %s #%s %s\n", cmd, r.ret, r.calls, r.herr, r.thrown, snap_str(post).c_str(), k.what, info.c_str());
    history.push_back(k); results.push_back(r);
    pre = post;
    (void)is_inst;
  }

  // ---- fresh-emitter comparison
  Ctx* fp = new Ctx(); Ctx& fr = *fp;
  fr.init(arch, fl, hk, lg, absb, fmt, hloc, fm);
  int replay_fail = 0;
  for (size_t i = 0; i < history.size(); i++) {
    const Call& k = history[i]; const Res& r = results[i];
    bool failed = r.ret != 0 || r.thrown;
    if (!failed) { Res r2 = exec(fr, k); if (r2.ret != 0 || r2.thrown) replay_fail++; }
    else if (k.kind == K_INST || k.kind == K_REL || k.kind == K_MEM || k.kind == K_VSIB || k.kind == K_PUSHPOP || k.kind == K_LDST || k.kind == K_SHIFT || k.kind == K_VSIB2 || k.kind == K_LDP || k.kind == K_MOVM || k.kind == K_SIMDLS || k.kind == K_VRRR) { Call z; z.kind = K_RESETSTATE; exec(fr, z); }
    else if (k.kind == K_BIND && c.as) {
      if (r.ret == uint32_t(Error::kInvalidDisplacement)) exec(fr, k); else { Call z; z.kind = K_RESETCMT; exec(fr, z); }
    }
    else if (k.kind == K_CONSTPOOL && c.as && r.ret == uint32_t(Error::kInvalidDisplacement)) {
      // the bind inside embed_const_pool was refused: like a refused bind() it consumes the inline comment (the model's `residual`)
      Call z; z.kind = K_RESETCMT; exec(fr, z);
    }
  }
  Snap s1, s2; take(c, s1); take(fr, s2);
  std::string a1 = snap_str(s1), a2 = snap_str(s2);
  int fin_same = 1; uint32_t e1 = 0, e2 = 0; std::string b1, b2; int fc1 = 0, fc2 = 0; int fin2 = -1;
  if (c.bld) {
    auto fin = [](Ctx& x) -> uint32_t { x.end_func(); x.handler.calls = 0; try { return uint32_t(x.em->finalize()); } catch (const Thrown& t) { return 0x10000u | uint32_t(t.err); } };
    e1 = fin(c); e2 = fin(fr); fc1 = c.handler.calls; fc2 = fr.handler.calls;
    Snap t1, t2; take(c, t1); take(fr, t2); b1 = snap_str(t1); b2 = snap_str(t2);
    fin_same = (e1 == e2) && (b1 == b2);
    // a failed (possibly thrown-out-of) finalize() must leave both emitters usable and equivalent: finalize once more
    if (e1 != 0 && fin_same && (!c.func_mode || getenv("C14_REFINALIZE"))) {   // after a failed register allocation only when the probe showed that the RA cleans up after itself
      int k1 = c.handler.calls, k2 = fr.handler.calls;
      auto fin_again = [](Ctx& x) -> uint32_t { try { return uint32_t(x.em->finalize()); } catch (const Thrown& t) { return 0x10000u | uint32_t(t.err); } };
      uint32_t g1 = fin_again(c), g2 = fin_again(fr);
      Snap u1, u2; take(c, u1); take(fr, u2);
      if (g1 != g2 || snap_str(u1) != snap_str(u2) || (c.handler.calls - k1) != (fr.handler.calls - k2)) { fin_same = 0; b1 = "second finalize: " + snap_str(u1); b2 = "second finalize: " + snap_str(u2); }
      fin2 = int(g1);
    }
  }
  printf("F %" PRIu64 " same=%d replay_fail=%d fin_same=%d fin=%u/%u fcalls=%d/%d fin2=%d\n", session, int(a1 == a2), replay_fail, fin_same, e1, e2, fc1, fc2, fin2);
  if (a1 != a2) printf("FD recycled: %s\nFD fresh   : %s\n", a1.c_str(), a2.c_str());
  if (!fin_same) printf("FD fin recycled: %s\nFD fin fresh   : %s\n", b1.c_str(), b2.c_str());
  delete fp; delete cp;
}


// probe: does bind_label refuse BEFORE binding when a pending displacement does not fit (fixes/C14-bind-atomic.patch)?
static int probe_bind_atomic() {
  CodeHolder code; code.init(Environment(Arch::kX64)); x86::Assembler a(&code);
  Label l = a.new_label();
  a.short_().jmp(l);
  a.embed(kData, 200);
  Error e = a.bind(l);
  if (e != Error::kInvalidDisplacement) return -1;
  return code.is_label_bound(l) ? 0 : 1;
}

int main(int argc, char** argv) {
  if (argc == 2 && !strcmp(argv[1], "probe-rwsize")) {
    // x86 Compiler: an accepted instruction whose register operand carries a size field > 64 (public setter) reaches
    // query_rw_info() -> lsb_mask<uint64_t>(size): shift by 64 - size (UBSan aborts here while the defect is present)
    CodeHolder code; code.init(Environment(Arch::kX64)); x86::Compiler cc(&code);
    cc.add_diagnostic_options(DiagnosticOptions::kValidateIntermediate);
    cc.add_func(FuncSignature::build<void>());
    x86::Gp a = cc.new_gp32(), b = cc.new_gp32();
    Reg wide = a; { OperandSignature sg = wide.signature(); sg.set_size(199); wide.set_signature(sg); }
    Operand o0, o1, none; o0.copy_from(wide); o1.copy_from(b); Operand ext[3];
    Error e1 = cc._emit(x86::Inst::kIdTest, o0, o1, none, ext);
    cc.end_func();
    Error e2 = cc.finalize();
    printf("PROBE rwsize emit=%u finalize=%u\nEND\n", unsigned(e1), unsigned(e2));
    return 0;
  }
  if (argc == 2 && (!strcmp(argv[1], "probe-rwindex") || !strcmp(argv[1], "probe-raphys"))) {
    // a64 Compiler function body: (rwindex) a register operand carrying an element index with index x element size >= 64
    // reaches a64 query_rw_info's `<< (index * size)`; (raphys) a physical register id 40 reaches the allocator's 32-bit sets
    bool rwi = !strcmp(argv[1], "probe-rwindex");
    CodeHolder code; code.init(Environment(Arch::kAArch64)); a64::Compiler cc(&code);
    cc.add_func(FuncSignature::build<void>());
    a64::Gp a = cc.new_gp64(), b = cc.new_gp64();
    Operand o0, o1, o2, ext[3]; o0.copy_from(a); o1.copy_from(b); o2.copy_from(b);
    if (rwi) { o1.as<a64::Vec>().set_element_type(a64::VecElementType::kD); o1.as<a64::Vec>().set_element_index(10); }
    else o2.as<Reg>().set_id(40);
    Error e1 = cc._emit(a64::Inst::kIdAdd, o0, o1, o2, ext);
    cc.end_func();
    Error e2 = cc.finalize();
    printf("PROBE %s emit=%u finalize=%u\nEND\n", argv[1], unsigned(e1), unsigned(e2));
    return 0;
  }
  if (argc == 3 && !strcmp(argv[1], "probe-refinalize")) {
    // Compiler::finalize() called three times: after an RA failure (0: unknown virtual id, 1: jump to a label that is never
    // bound), after a serialization failure (2: invalid label id in a memory operand) and after a success (3)
    int variant = atoi(argv[2]);
    CodeHolder code; code.init(Environment(Arch::kX64)); x86::Compiler cc(&code);
    cc.add_diagnostic_options(DiagnosticOptions::kValidateIntermediate);
    cc.add_func(FuncSignature::build<void>());
    x86::Gp a = cc.new_gp32(), b = cc.new_gp32();
    cc.mov(a, 1); cc.mov(b, 2); cc.add(a, b);
    if (variant == 0) { x86::Gp ghost = a; ghost.set_id(a.id() + 100); Operand o0, o1, none, ext[3]; o0.copy_from(ghost); o1.copy_from(b); (void)cc._emit(x86::Inst::kIdAdd, o0, o1, none, ext); }
    else if (variant == 1) { Label L = cc.new_label(); cc.jmp(L); }
    else if (variant == 2) { Label bad; bad.set_id(12345); cc.lea(x86::rax, x86::ptr(bad)); }
    cc.end_func();
    Error e1 = cc.finalize(); Error e2 = cc.finalize(); Error e3 = cc.finalize();
    printf("PROBE refinalize %d %u %u %u\nEND\n", variant, unsigned(e1), unsigned(e2), unsigned(e3));
    return 0;
  }
  if (argc == 2 && !strcmp(argv[1], "probe-jumpregs")) {
    // AArch64 Compiler: `b` given three virtual registers instead of a label (nothing validates a64 instructions): the RA's
    // CFG builder hands out a scratch register per tied register of a jump - only two exist
    CodeHolder code; code.init(Environment(Arch::kAArch64)); a64::Compiler cc(&code);
    cc.add_func(FuncSignature::build<void>());
    a64::Gp a = cc.new_gp32(), b = cc.new_gp32(), c = cc.new_gp32();
    cc.mov(a, 1); cc.mov(b, 2); cc.mov(c, 3);
    Operand o0, o1, o2, ext[3]; o0.copy_from(a); o1.copy_from(b); o2.copy_from(c);
    Error e0 = cc._emit(a64::Inst::kIdB, o0, o1, o2, ext);
    cc.end_func();
    Error e1 = cc.finalize();
    printf("PROBE jumpregs %u %u\nEND\n", unsigned(e0), unsigned(e1));
    return 0;
  }
  if (argc == 2 && !strcmp(argv[1], "probe-constpool-pad")) {
    // embed_const_pool(label, pool) whose bind is refused (a pending rel8 displacement does not fit): no padding may stay behind
    ArenaTmp<512> arena(512); ConstPool pool(arena); uint64_t v = 0x1122334455667788ull; size_t off; pool.add(&v, 8, Out(off));
    CodeHolder code; code.init(Environment(Arch::kX64)); x86::Assembler a(&code);
    Label l = a.new_label(); a.short_().jmp(l); a.embed(kData, 200); a.embed(kData, 3);
    size_t before = a.offset(); Error e1 = a.embed_const_pool(l, pool); size_t after = a.offset();
    printf("PROBE constpoolpad err=%u size=%zu/%zu bound=%d\nEND\n", unsigned(e1), before, after, int(code.is_label_bound(l)));
    return 0;
  }
  if (argc == 2 && !strcmp(argv[1], "probe-constpool")) {
    // embed_const_pool(label, pool) with a label that is ALREADY bound: the call must fail without padding the section /
    // appending an align node first
    ArenaTmp<512> arena(512); ConstPool pool(arena); uint64_t v = 0x1122334455667788ull; size_t off; pool.add(&v, 8, Out(off));
    CodeHolder code; code.init(Environment(Arch::kX64)); x86::Assembler a(&code);
    Label l = a.new_label(); a.bind(l); a.embed(kData, 3);
    size_t before = a.offset(); Error e1 = a.embed_const_pool(l, pool); size_t after = a.offset();
    CodeHolder code2; code2.init(Environment(Arch::kX64)); x86::Builder b(&code2);
    Label l2 = b.new_label(); b.bind(l2); b.embed(kData, 3);
    size_t n0 = 0; for (BaseNode* n = b.first_node(); n; n = n->next()) n0++;
    Error e2 = b.embed_const_pool(l2, pool);
    size_t n1 = 0; for (BaseNode* n = b.first_node(); n; n = n->next()) n1++;
    printf("PROBE constpool asm_err=%u asm_size=%zu/%zu builder_err=%u builder_nodes=%zu/%zu\nEND\n", unsigned(e1), before, after, unsigned(e2), n0, n1);
    return 0;
  }
  if (argc == 2 && !strcmp(argv[1], "sweep-vexonly")) { sweep_vexonly(); printf("END\n"); return 0; }
  if (argc == 2 && !strcmp(argv[1], "sweep")) { g_scratch = new Scratch(); sweep_a64(); printf("END\n"); return 0; }
  if (argc < 4) { fprintf(stderr, "usage: c14_harness seed first n [v] | sweep\n"); return 2; }
  uint64_t seed = strtoull(argv[1], nullptr, 10), first = strtoull(argv[2], nullptr, 10), n = strtoull(argv[3], nullptr, 10);
  bool verbose = argc > 4;
  for (size_t i = 0; i < sizeof(kData); i++) kData[i] = uint8_t(i * 37 + 1);
  // numeric values of the constants the model mirrors (compared with the model's `model_constants`)
  printf("T %u %u %u %u %u %u %u %u %u %u %u %u %u %u %u %u %u %u %u %u %u %u %u %u %u %u %u %u\n", unsigned(Error::kInvalidArgument), unsigned(Error::kInvalidState), unsigned(Error::kInvalidLabel),
         unsigned(Error::kLabelAlreadyBound), unsigned(Error::kLabelAlreadyDefined), unsigned(Error::kLabelNameTooLong), unsigned(Error::kInvalidLabelName),
         unsigned(Error::kInvalidParentLabel), unsigned(Error::kInvalidSection), unsigned(Error::kInvalidSectionName), unsigned(Error::kInvalidDisplacement),
         unsigned(Error::kInvalidOperandSize), unsigned(Globals::kMaxAlignment), unsigned(Globals::kMaxSectionNameSize), unsigned(Globals::kMaxLabelNameSize),
         unsigned(AlignMode::kMaxValue), unsigned(Globals::kInvalidId), unsigned(InstOptions::kShortForm), unsigned(InstOptions::kLongForm), unsigned(Error::kInvalidPhysId),
         unsigned(Error::kInvalidRexPrefix), unsigned(Error::kInvalidAddress), unsigned(Error::kInvalidAddressIndex), unsigned(Error::kInvalidAddress64Bit),
         unsigned(Error::kInvalidSegment), unsigned(Error::kInvalidInstruction), unsigned(Error::kInvalidAddressScale), unsigned(Error::kInvalidRegType));
  printf("P bind_atomic=%d\n", probe_bind_atomic());
  g_scratch = new Scratch();
  for (uint64_t s = first; s < first + n; s++) { run_session(seed, s, verbose); fflush(stdout); }
  printf("END\n");
  return 0;
}

// C20 correspondence harness: drives the real formatter / logger of /repo's working tree.
// Protocol (stdin, one command per line, fields separated by single spaces; answers one line each):
//   T                     -> "T <enum constants>"  (FormatFlags, InstOptions, RegType codes, Broadcast, AddrType, paddings)
//   D                     -> "D <raw x86 reg_format_info tables>" (type_entries, type_strings, name_entries, name_strings; hex)
//   DN arch               -> "DN <count> <index table words, hex> <string table bytes, hex>" raw instruction-name tables of the instdb
//   N base width flags v  -> "N <text>"   String::append_uint/_op_number(v, base, width, flags)    (v = raw uint64)
//   O arch fflags <op>    -> "O <text>"   Formatter::format_operand (no emitter)
//   X arch fflags id mnem options <extra> n <op>*n   -> "X <text>"  Formatter::format_instruction (no emitter)
//   E arch fflags id mnem options <extra> comment n <op>*n
//                         -> "E <err> <hex of appended bytes or -> <logger line, '\n' shown as '$'>"
//                            really emits with an Assembler + StringLogger(fflags); labels L0..L3 bound, L4..L7 unbound
//   W fflags optype vidx vtype name|-   -> "W <text>"  Formatter::format_operand of a VIRTUAL register (x86::Compiler session)
//   U fflags nv (vtype name|-)*nv <M op>  -> "U <text>"  format_operand of a memory operand whose base/index may be virtual ids
//   K fflags nv (vtype name|-)*nv id mnem options <extra> n <op>*n -> "K <text>" format_instruction through the x86::Compiler (virtual ids; H = home mem)
//   J fflags nv (vtype name|-)*nv <op> <op>   -> "J <text>" format_node of a FuncRetNode of the Compiler
//   W6 fflags optype vidx vtype name|- et ei -> "W6 <text>" format_operand of a virtual register of an a64::Compiler
//   Q fflags ret nargs (type vreg|-)*nargs [<expected assignment, ignored>] -> "Q <text>" format_node of the FuncNode of a fresh x86::Compiler
//        (SysV x86-64; type 0 void 1 int32 2 uint32 3 int64 4 uint64 5 float32 6 float64; vreg = n: bind a new named register a<n>, u: unnamed)
//   QI fflags <target op>  -> "QI <text>" format_node of an InvokeNode (call through a register / memory / immediate target)
//   RL arch regtype mask  -> "RL <text>" Formatter::format_operand of a register-list operand (arch 5 = AArch32, 6 = AArch64)
//   B id <description ignored>          -> "B <text>"  Formatter::format_label on the x86-64 emission session's labels
//   Y a64 size rep hexbytes            -> "Y <text>"  Formatter::format_data (size 1 2 4 8 16 = uint8..uint64, uint8x16)
//   Z fflags inline|- position(0=none) <node>           -> "Z <text>"  Formatter::format_node on a fresh x86::Builder: L | A mode n | C text |
//                                         D size count rep | S name | I id mnem options <extra> n <op>*n
//   <op>    := N | R type id | I value | L id | M size seg addr basekind basetype baseid hasindex indextype indexid shift off bcst
//              (x86)  basekind 0 none 1 label 2 reg
//            | V type id elemtype elemindex(-1 none)                       (a64 vector/gp register with element)
//            | A basekind basetype baseid hasindex indextype indexid shiftop shift offmode off   (a64 mem; offmode 0 fixed 1 pre 2 post)
//            | J value predicate                                            (a64 immediate with shift predicate)
//   <extra> := N | R type id
#include <asmjit/core.h>
#include <asmjit/x86.h>
#include <asmjit/a64.h>
#include <asmjit/core/formatter_p.h>
#include <asmjit/core/emitterutils_p.h>
#include <asmjit/x86/x86instdb_p.h>
#include <asmjit/arm/a64instdb_p.h>
#include <asmjit/arm/armformatter_p.h>
#include <asmjit/x86/x86formatter.cpp>   // file-static reg_format_info (archive member is then not pulled in)
#include <cstdio>
#include <cstring>
#include <cinttypes>
#include <string>
#include <sstream>
#include <vector>

using namespace asmjit;

static std::string hex(const void* p, size_t n) {
  static const char d[] = "0123456789abcdef";
  std::string s;
  const uint8_t* b = static_cast<const uint8_t*>(p);
  for (size_t i = 0; i < n; i++) { s += d[b[i] >> 4]; s += d[b[i] & 15]; }
  return s;
}

static bool read_op(std::istringstream& in, Operand_& out) {
  std::string k;
  if (!(in >> k)) return false;
  Operand op;
  if (k == "N") {
  }
  else if (k == "R") {
    uint32_t t, id; in >> t >> id;
    op = Reg::from_type_and_id(RegType(t), id);
  }
  else if (k == "I") {
    int64_t v; in >> v;
    op = Imm(v);
  }
  else if (k == "L") {
    uint32_t id; in >> id;
    Label l; l.set_id(id);
    op = l;
  }
  else if (k == "M" || k == "H") {
    uint32_t size, seg, addr, bk, bt, bid, hi, it, iid, sh, bc; int64_t off;
    in >> size >> seg >> addr >> bk >> bt >> bid >> hi >> it >> iid >> sh >> off >> bc;
    x86::Mem m;
    if (bk == 1) { Label l; l.set_id(bid); m = x86::Mem(l, 0, 0); }
    else if (bk == 2) { m = x86::Mem(Reg::from_type_and_id(RegType(bt), bid), 0, 0); }
    if (hi) m.set_index(Reg::from_type_and_id(RegType(it), iid), sh);
    else if (sh) m.set_shift(sh);
    m.set_size(size);
    if (seg) m.set_segment(x86::SReg(seg));
    m.set_addr_type(x86::Mem::AddrType(addr));
    m.set_broadcast(x86::Mem::Broadcast(bc));
    m.set_offset(off);
    if (k == "H") m.set_reg_home();       // the memory operand is the home (spill slot) of a virtual register
    op = m;
  }
  else if (k == "V") {
    uint32_t t, id, et; int64_t ei; in >> t >> id >> et >> ei;
    a64::Vec v(OperandSignature{Reg::signature_of(RegType(t)).bits()}, id);
    v.set_element_type(a64::VecElementType(et));
    if (ei >= 0) v.set_element_index(uint32_t(ei));
    op = v;
  }
  else if (k == "A") {
    uint32_t bk, bt, bid, hi, it, iid, sop, sh, om; int64_t off;
    in >> bk >> bt >> bid >> hi >> it >> iid >> sop >> sh >> om >> off;
    a64::Mem m;
    if (bk == 1) { Label l; l.set_id(bid); m = a64::Mem(l, 0); }
    else if (bk == 2) { m = a64::Mem(Reg::from_type_and_id(RegType(bt), bid), 0); }
    if (hi) m.set_index(Reg::from_type_and_id(RegType(it), iid));
    m.set_shift(a64::Shift(a64::ShiftOp(sop), sh));
    m.set_offset_mode(a64::OffsetMode(om));
    m.set_offset(off);
    op = m;
  }
  else if (k == "J") {
    int64_t v; uint32_t pred; in >> v >> pred;
    Imm i(v); i.set_predicate(pred);
    op = i;
  }
  else return false;
  out = op;
  return !in.fail();
}

// keeps the message an emitter reports through the CodeHolder's error handler ("<error>: <instruction> ; <comment>" for a refused instruction)
struct CaptureErrors : public ErrorHandler {
  std::string last;
  void handle_error(Error, const char* message, BaseEmitter*) override { last = message ? message : ""; }
};

struct Session {
  Environment env;
  CodeHolder code;
  StringLogger logger;
  CaptureErrors errors;
  x86::Assembler xa;
  a64::Assembler aa;
  BaseAssembler* as = nullptr;
  std::vector<Label> labels;
  Arch arch;
  bool live = false;

  void start(Arch a) {
    if (live) { code.reset(); }
    arch = a;
    env = Environment(a);
    code.init(env);
    code.set_logger(&logger);
    code.set_error_handler(&errors);
    if (a == Arch::kAArch64) { code.attach(&aa); as = &aa; } else { code.attach(&xa); as = &xa; }
    as->add_diagnostic_options(DiagnosticOptions::kValidateAssembler);   // only well-formed instruction forms are emitted
    labels.clear();
    logger.set_flags(FormatFlags::kNone);
    for (int i = 0; i < 8; i++) {
      Label l = as->new_label();
      labels.push_back(l);
    }
    // named labels: L8 global "gsym", L9 local "loc" of L8 ("gsym.loc"), L10 anonymous with a name ("L10@tmp"),
    // L11 local "inner" of the unnamed L0 ("L0.inner")
    labels.push_back(as->new_named_label("gsym", SIZE_MAX, LabelType::kGlobal));
    labels.push_back(as->new_named_label("loc", SIZE_MAX, LabelType::kLocal, labels[8].id()));
    labels.push_back(as->new_named_label("tmp", SIZE_MAX, LabelType::kAnonymous));
    labels.push_back(as->new_named_label("inner", SIZE_MAX, LabelType::kLocal, labels[0].id()));
    // bind L0..L3 at different places; a few filler instructions in between
    for (int i = 0; i < 4; i++) {
      as->bind(labels[i]);
      if (a == Arch::kAArch64) aa.nop(); else xa.nop();
    }
    logger.clear();
    live = true;
  }
};

struct CompilerSession {
  CodeHolder code;
  x86::Compiler cc;
  std::vector<Reg> regs;
  bool live = false;
  void start() {
    code.init(Environment(Arch::kX64));
    code.attach(&cc);
    regs.push_back(cc.new_gp32());          // %0  gpd
    regs.push_back(cc.new_gp64("cnt"));     // cnt gpq
    regs.push_back(cc.new_xmm());           // %2  xmm
    regs.push_back(cc.new_ymm("acc"));      // acc ymm
    regs.push_back(cc.new_gp16());          // %4  gpw
    regs.push_back(cc.new_zmm("z"));        // z   zmm
    regs.push_back(cc.new_gp8("b8"));       // b8  gpb
    regs.push_back(cc.new_gp64("tmp_1"));   // tmp_1 gpq
    regs.push_back(cc.new_xmm("v.Lo2"));    // v.Lo2 xmm
    regs.push_back(cc.new_gp32());          // %9  gpd
    regs.push_back(cc.new_gp32());          // %10 gpd  (two-digit index)
    regs.push_back(cc.new_gp64());          // %11 gpq
    regs.push_back(cc.new_gp64("L7"));      // names at the edges of the alphabet of VirtNames.env_ok: looks like a label,
    regs.push_back(cc.new_gp32("gpd"));     // is a register-type word,
    regs.push_back(cc.new_xmm("9lives"));   // starts with a digit,
    regs.push_back(cc.new_gp16("Z_.z"));    // upper case, underscore, dot
    live = true;
  }
};

struct A64CompilerSession {
  CodeHolder code;
  a64::Compiler cc;
  bool live = false;
  void start() {
    code.init(Environment(Arch::kAArch64));
    code.attach(&cc);
    cc.new_gp32();          // %0 w
    cc.new_gp64("ptr");     // ptr x
    cc.new_vec128();        // %2 q/v
    cc.new_vec128("vacc");  // vacc
    cc.new_vec(TypeId::kFloat64, "dbl");   // dbl d
    for (int i = 0; i < 6; i++) cc.new_gp64();   // %5 .. %10 x (two-digit index)
    live = true;
  }
};

static bool check_vtable(CompilerSession& CS, std::istringstream& in, uint32_t nv) {
  if (!CS.live) CS.start();
  bool okt = nv == CS.regs.size();
  for (uint32_t k = 0; k < nv; k++) {
    uint32_t vt; std::string nm; in >> vt >> nm;
    if (okt) {
      VirtReg* vr = CS.cc.virt_reg_by_id(Operand::virt_index_to_virt_id(k));
      std::string real = vr->name_size() ? std::string(vr->name(), vr->name_size()) : std::string("-");
      if (uint32_t(vr->reg_type()) != vt || real != nm) okt = false;
    }
  }
  return okt;
}

int main() {
  static Session S;
  static CompilerSession CS;
  static A64CompilerSession CS6;
  std::string line;
  char buf[1 << 16];
  while (fgets(buf, sizeof(buf), stdin)) {
    line = buf;
    while (!line.empty() && (line.back() == '\n' || line.back() == '\r')) line.pop_back();
    std::istringstream in(line);
    std::string cmd; in >> cmd;
    if (cmd == "T") {
      printf("T ff %u %u %u %u %u %u %u %u io %u %u %u %u %u %u %u %u %u %u %u %u %u %u %u %u %u %u %u rt %u %u %u %u %u %u %u %u %u %u %u %u %u %u %u %u %u %u %u %u %u %u bc %u %u at %u %u %u pad %u %u seg %u %u a64 %u %u %u %u om %u %u %u\n",
        unsigned(FormatFlags::kMachineCode), unsigned(FormatFlags::kShowAliases), unsigned(FormatFlags::kExplainImms), unsigned(FormatFlags::kHexImms),
        unsigned(FormatFlags::kHexOffsets), unsigned(FormatFlags::kRegCasts), unsigned(FormatFlags::kPositions), unsigned(FormatFlags::kRegType),
        unsigned(InstOptions::kShortForm), unsigned(InstOptions::kLongForm), unsigned(InstOptions::kX86_ModMR), unsigned(InstOptions::kX86_ModRM),
        unsigned(InstOptions::kX86_Vex3), unsigned(InstOptions::kX86_Vex), unsigned(InstOptions::kX86_Evex), unsigned(InstOptions::kX86_Lock),
        unsigned(InstOptions::kX86_Rep), unsigned(InstOptions::kX86_Repne), unsigned(InstOptions::kX86_XAcquire), unsigned(InstOptions::kX86_XRelease),
        unsigned(InstOptions::kX86_ER), unsigned(InstOptions::kX86_SAE), unsigned(InstOptions::kX86_RD_SAE), unsigned(InstOptions::kX86_RU_SAE),
        unsigned(InstOptions::kX86_RZ_SAE), unsigned(InstOptions::kX86_ZMask), unsigned(InstOptions::kX86_Rex),
        unsigned(RegType::kGp8Lo), unsigned(RegType::kGp8Hi), unsigned(RegType::kGp16), unsigned(RegType::kGp32), unsigned(RegType::kGp64),
        unsigned(RegType::kVec128), unsigned(RegType::kVec256), unsigned(RegType::kVec512), unsigned(RegType::kMask), unsigned(RegType::kTile),
        unsigned(RegType::kSegment), unsigned(RegType::kControl), unsigned(RegType::kDebug), unsigned(RegType::kX86_Mm), unsigned(RegType::kX86_St),
        unsigned(RegType::kX86_Bnd), unsigned(RegType::kPC), unsigned(RegType::kVec8), unsigned(RegType::kVec16), unsigned(RegType::kVec32),
        unsigned(RegType::kVec64), unsigned(RegType::kLabelTag),
        unsigned(x86::Mem::Broadcast::k1To2), unsigned(x86::Mem::Broadcast::k1To64),
        unsigned(x86::Mem::AddrType::kDefault), unsigned(x86::Mem::AddrType::kAbs), unsigned(x86::Mem::AddrType::kRel),
        unsigned(Formatter::padding_from_options(FormatOptions(), FormatPaddingGroup::kRegularLine)),
        unsigned(Formatter::padding_from_options(FormatOptions(), FormatPaddingGroup::kMachineCode)),
        unsigned(x86::SReg::kIdEs), unsigned(x86::SReg::kIdGs),
        unsigned(a64::Gp::kIdZr), unsigned(a64::Gp::kIdSp), unsigned(a64::VecElementType::kB), unsigned(a64::VecElementType::kH2),
        unsigned(a64::OffsetMode::kFixed), unsigned(a64::OffsetMode::kPreIndex), unsigned(a64::OffsetMode::kPostIndex));
    }
    else if (cmd == "D") {
      const x86::RegFormatInfo& fi = x86::reg_format_info;
      std::string o = "D";
      o += " te " + hex(fi.type_entries, sizeof(fi.type_entries));
      o += " ts " + hex(fi.type_strings, sizeof(fi.type_strings));
      o += " ne " + hex(fi.name_entries, sizeof(fi.name_entries));
      o += " ns " + hex(fi.name_strings, sizeof(fi.name_strings));
      puts(o.c_str());
    }
    else if (cmd == "DE") {
      // the error-name table over its whole domain (and two codes beyond): what the messages of refused instructions start with
      std::string out = "DE";
      for (uint32_t i = 0; i <= uint32_t(Error::kMaxValue) + 2u; i++) out += std::string(i ? "," : " ") + DebugUtils::error_as_string(Error(i));
      printf("%s\n", out.c_str());
    }
    else if (cmd == "DF") {
      // Formatter::format_feature over the whole CpuFeatures id range of an architecture (and two ids beyond)
      uint32_t arch; in >> arch;
      uint32_t maxv = arch == 6 ? uint32_t(CpuFeatures::ARM::kMaxValue) : uint32_t(CpuFeatures::X86::kMaxValue);
      std::string out = "DF";
      for (uint32_t i = 0; i <= maxv + 2u; i++) { String sb; Formatter::format_feature(sb, Arch(arch), i); out += std::string(i ? "," : " ") + sb.data(); }
      printf("%s\n", out.c_str());
    }
    else if (cmd == "DT") {
      // Formatter::format_type_id over all 256 TypeId values
      std::string out = "DT";
      for (uint32_t i = 0; i < 256; i++) { String sb; Formatter::format_type_id(sb, TypeId(i)); out += std::string(i ? "," : " ") + sb.data(); }
      printf("%s\n", out.c_str());
    }
    else if (cmd == "DS2") {
      // two more small tables over their whole domain: the size words of x86 memory operands for sizes 0..255 (text in front of '['), and the
      // AArch64 vector register text for element types 0..7 on a 64-bit and a 128-bit vector register (id 3)
      std::string out = "DS2 ";
      for (uint32_t sz = 0; sz < 256; sz++) {
        x86::Mem m = x86::ptr(x86::rax); m.set_size(sz);
        String sb; Formatter::format_operand(sb, FormatFlags::kNone, nullptr, Arch::kX64, m);
        std::string s0(sb.data()); size_t k = s0.find('[');
        out += (sz ? "," : "") + (k == std::string::npos ? std::string("<no bracket>") : s0.substr(0, k));
      }
      for (RegType rt : { RegType::kVec64, RegType::kVec128 }) {
        out += "|";
        for (uint32_t et = 0; et < 8; et++) {
          a64::Vec v(OperandSignature{Reg::signature_of(rt).bits()}, 3); v.set_element_type(a64::VecElementType(et));
          String sb; Formatter::format_operand(sb, FormatFlags::kNone, nullptr, Arch::kAArch64, v);
          out += (et ? "," : "") + std::string(sb.data());
        }
      }
      printf("%s\n", out.c_str());
    }
    else if (cmd == "DS") {
      // the small name tables of the formatters, over their whole domain: AArch64 condition codes 0..17, shift/extend operators 0..17,
      // data directive words of sizes 1,2,4,8 (x86-64, AArch64), address-size words of x86 memory operands
      std::string out = "DS";
      for (uint32_t i = 0; i < 18; i++) { String sb; arm::FormatterInternal::format_cond_code(sb, arm::CondCode(i)); out += std::string(i ? "," : " ") + sb.data(); }
      for (uint32_t i = 0; i < 18; i++) { String sb; arm::FormatterInternal::format_shift_op(sb, arm::ShiftOp(i)); out += std::string(i ? "," : " ") + sb.data(); }
      for (Arch a : { Arch::kX64, Arch::kAArch64 })
        for (uint32_t k = 0; k < 4; k++) {
          static const TypeId tids[4] = { TypeId::kUInt8, TypeId::kUInt16, TypeId::kUInt32, TypeId::kUInt64 };
          String sb; Formatter::format_data_type(sb, FormatFlags::kNone, a, tids[k]); out += std::string(k ? "," : " ") + sb.data();
        }
      printf("%s\n", out.c_str());
    }
    else if (cmd == "DN") {
      uint32_t arch; in >> arch;
      const uint32_t* idx = arch == 6 ? a64::InstDB::_inst_name_index_table : x86::InstDB::_inst_name_index_table;
      const char* str = arch == 6 ? a64::InstDB::_inst_name_string_table : x86::InstDB::_inst_name_string_table;
      uint32_t count = arch == 6 ? uint32_t(a64::Inst::_kIdCount) : uint32_t(x86::Inst::_kIdCount);
      size_t end = 0;
      for (uint32_t i = 0; i < count; i++) {
        uint32_t v = idx[i];
        if (v & 0x80000000u) continue;
        size_t pb = v & 0xFFFu, ps = (v >> 12) & 0xFu, sb = (v >> 16) & 0xFFFu, ss = (v >> 28) & 0x7u;
        if (pb + ps > end) end = pb + ps;
        if (sb == 0xFFFu) { size_t a = pb + ps; size_t e2 = a + 1 + uint8_t(str[a]); if (e2 > end) end = e2; }
        else if (sb + ss > end) end = sb + ss;
      }
      std::string o = "DN " + std::to_string(count) + " ";
      char w[16];
      for (uint32_t i = 0; i < count; i++) { snprintf(w, sizeof(w), "%08x", idx[i]); o += w; }
      o += " " + hex(str, end);
      puts(o.c_str());
    }
    else if (cmd == "N") {
      uint32_t base, width, fl; uint64_t v;
      in >> base >> width >> fl >> v;
      String sb;
      Error e = sb.append_uint(v, base, width, StringFormatFlags(fl));
      if (e != Error::kOk) printf("N <error>\n"); else printf("N %s\n", sb.data());
    }
    else if (cmd == "O") {
      uint32_t arch, ff; in >> arch >> ff;
      Operand_ op;
      if (!read_op(in, op)) { printf("O <bad-command>\n"); continue; }
      String sb;
      Error e = Formatter::format_operand(sb, FormatFlags(ff), nullptr, Arch(arch), op);
      printf("O %s%s\n", e == Error::kOk ? "" : "<error>", sb.data());
    }
    else if (cmd == "ED") {
      // ED arch ff indent kind ... : the non-instruction lines an Assembler logs. kinds: A mode n (align), B hex (embed), T typesize repeat hex
      // (embed_data_array), L labelidx size (embed_label), D labelidx baseidx size (embed_label_delta), C text (comment)
      uint32_t arch, ff, ind; std::string kind; in >> arch >> ff >> ind >> kind;
      if (!S.live || S.arch != Arch(arch) || S.code.text_section()->buffer_size() > (1u << 20)) S.start(Arch(arch));
      S.logger.set_flags(FormatFlags(ff));
      S.logger.set_indentation(FormatIndentationGroup::kCode, ind);
      S.logger.clear();
      size_t before = S.as->offset();
      Error e = Error::kOk;
      auto unhex = [](const std::string& hx) { std::vector<uint8_t> d; for (size_t i = 0; i + 1 < hx.size(); i += 2) d.push_back(uint8_t(strtoul(hx.substr(i, 2).c_str(), nullptr, 16))); return d; };
      bool bad = false;
      if (kind == "A") { uint32_t mode, n; in >> mode >> n; e = S.as->align(AlignMode(mode), n); }
      else if (kind == "B") { std::string hx; in >> hx; auto d = unhex(hx); e = S.as->embed(d.data(), d.size()); }
      else if (kind == "T") {
        uint32_t ts, rep; std::string hx; in >> ts >> rep >> hx; auto d = unhex(hx);
        TypeId tid = ts == 1 ? TypeId::kUInt8 : ts == 2 ? TypeId::kUInt16 : ts == 4 ? TypeId::kUInt32 : ts == 8 ? TypeId::kUInt64 : TypeId::kUInt8x16;
        e = S.as->embed_data_array(tid, d.data(), d.size() / ts, rep);
      }
      else if (kind == "L") { uint32_t li, sz; in >> li >> sz; if (li >= S.labels.size()) bad = true; else e = S.as->embed_label(S.labels[li], sz); }
      else if (kind == "D") { uint32_t li, bi, sz; in >> li >> bi >> sz; if (li >= S.labels.size() || bi >= S.labels.size()) bad = true; else e = S.as->embed_label_delta(S.labels[li], S.labels[bi], sz); }
      else if (kind == "C") { std::string txt; in >> txt; e = S.as->comment(txt.c_str(), txt.size()); }
      else bad = true;
      S.as->reset_state();
      S.logger.reset_indentation(FormatIndentationGroup::kCode);
      if (bad) { printf("ED <bad-command>\n"); continue; }
      size_t after = S.as->offset();
      std::string bytes = (after > before) ? hex(S.code.text_section()->data() + before, after - before) : std::string("-");
      std::string lg(S.logger.data(), S.logger.data_size());
      for (char& c : lg) if (c == '\n') c = '$';
      printf("ED %u %s %zu %zu %s\n", unsigned(e), bytes.c_str(), before, after, lg.c_str());
    }
    else if (cmd == "EB") {
      // EB indent pad1 pad2 ff comment : bind a fresh label of the x86 session with the logger options set; answers the label id and the log
      uint32_t ind, p1, p2, ff; std::string comment;
      in >> ind >> p1 >> p2 >> ff >> comment;
      if (!S.live || S.arch != Arch::kX64) S.start(Arch::kX64);
      S.logger.set_flags(FormatFlags(ff));
      S.logger.set_indentation(FormatIndentationGroup::kLabel, ind);
      S.logger.set_padding(FormatPaddingGroup::kRegularLine, p1);
      S.logger.set_padding(FormatPaddingGroup::kMachineCode, p2);
      S.logger.clear();
      Label l = S.as->new_label();
      if (comment != "-") S.as->set_inline_comment(comment.c_str());
      Error e = S.as->bind(l);
      S.as->reset_state();
      std::string lg(S.logger.data(), S.logger.data_size());
      for (char& c : lg) if (c == '\n') c = '$';
      S.logger.reset_indentation(FormatIndentationGroup::kLabel);
      S.logger.reset_padding(FormatPaddingGroup::kRegularLine);
      S.logger.reset_padding(FormatPaddingGroup::kMachineCode);
      printf("EB %u %u %s\n", unsigned(e), unsigned(l.id()), lg.c_str());
    }
    else if (cmd == "X" || cmd == "E" || cmd == "EO") {
      uint32_t arch, ff, id, opts; std::string mnem, comment;
      uint32_t lo_ind = 0, lo_p1 = 0, lo_p2 = 0;
      if (cmd == "EO") { in >> lo_ind >> lo_p1 >> lo_p2; cmd = "E"; }
      in >> arch >> ff >> id >> mnem >> opts;
      Operand_ ex; read_op(in, ex);
      if (cmd == "E") in >> comment;
      uint32_t n; in >> n;
      Operand_ ops[6];
      for (uint32_t i = 0; i < 6; i++) ops[i] = Operand();
      bool bad = n > 6;
      for (uint32_t i = 0; i < n && !bad; i++) if (!read_op(in, ops[i])) bad = true;
      if (bad) { printf("%s <bad-command>\n", cmd.c_str()); continue; }
      if (cmd == "X") {
        String sb;
        BaseInst inst(id, InstOptions(opts));
        if (ex.is_reg()) inst = BaseInst(id, InstOptions(opts), ex.as<Reg>());
        Error e = Formatter::format_instruction(sb, FormatFlags(ff), nullptr, Arch(arch), inst, Span<const Operand_>(ops, 6));
        printf("X %s%s\n", e == Error::kOk ? "" : "<error>", sb.data());
      }
      else {
        if (!S.live || S.arch != Arch(arch) || S.code.text_section()->buffer_size() > (1u << 20)) S.start(Arch(arch));
        S.logger.set_flags(FormatFlags(ff));
        S.logger.set_indentation(FormatIndentationGroup::kCode, lo_ind);
        S.logger.set_padding(FormatPaddingGroup::kRegularLine, lo_p1);
        S.logger.set_padding(FormatPaddingGroup::kMachineCode, lo_p2);
        S.logger.clear();
        S.errors.last.clear();
        // label operands address the session's labels by index
        size_t before = S.as->offset();
        S.as->set_inst_options(InstOptions(opts));
        if (ex.is_reg()) S.as->set_extra_reg(ex.as<Reg>());
        if (comment != "-") S.as->set_inline_comment(comment.c_str());
        Operand_ ext[3] = { ops[3], ops[4], ops[5] };
        Error e = S.as->_emit(id, ops[0], ops[1], ops[2], ext);
        S.as->reset_state();
        size_t after = S.as->offset();
        std::string bytes = (after > before) ? hex(S.code.text_section()->data() + before, after - before) : std::string("-");
        std::string lg(S.logger.data(), S.logger.data_size());
        for (char& c : lg) if (c == '\n') c = '$';
        if (e != Error::kOk) {
          std::string msg = S.errors.last;
          for (char& c : msg) if (c == '\n') c = '$';
          printf("E %u %s %s ## %s\n", unsigned(e), bytes.c_str(), lg.c_str(), msg.c_str());
        }
        else printf("E %u %s %s\n", unsigned(e), bytes.c_str(), lg.c_str());
      }
    }
    else if (cmd == "Y") {
      uint32_t a64, size, rep; std::string hx;
      in >> a64 >> size >> rep >> hx;
      std::vector<uint8_t> data;
      for (size_t i = 0; i + 1 < hx.size(); i += 2) data.push_back(uint8_t(strtoul(hx.substr(i, 2).c_str(), nullptr, 16)));
      TypeId tid = size == 1 ? TypeId::kUInt8 : size == 2 ? TypeId::kUInt16 : size == 4 ? TypeId::kUInt32 : size == 8 ? TypeId::kUInt64 : TypeId::kUInt8x16;
      String sb;
      Error e = Formatter::format_data(sb, FormatFlags::kNone, a64 ? Arch::kAArch64 : Arch::kX64, tid, data.data(), data.size() / size, rep);
      printf("Y %s%s\n", e == Error::kOk ? "" : "<error>", sb.data());
    }
    else if (cmd == "Z") {
      uint32_t ff, pos; std::string inl, kind;
      in >> ff >> inl >> pos >> kind;
      CodeHolder code; code.init(Environment(Arch::kX64));
      x86::Builder b(&code);
      static std::string keep;
      Error e = Error::kOk;
      if (kind == "L") { Label l = b.new_label(); e = b.bind(l); }
      else if (kind == "A") { uint32_t mode, n; in >> mode >> n; e = b.align(AlignMode(mode), n); }
      else if (kind == "C") { std::string c; in >> c; e = b.comment(c.c_str()); }
      else if (kind == "D") {
        uint32_t size, count, rep; in >> size >> count >> rep;
        std::vector<uint8_t> z(size_t(size) * count, 0);
        TypeId tid = size == 1 ? TypeId::kUInt8 : size == 2 ? TypeId::kUInt16 : size == 4 ? TypeId::kUInt32 : TypeId::kUInt64;
        e = b.embed_data_array(tid, z.data(), count, rep);
      }
      else if (kind == "S") { std::string nm; in >> nm; Section* sec = nullptr; e = code.new_section(Out<Section*>(sec), nm.c_str()); if (e == Error::kOk) e = b.section(sec); }
      else if (kind == "I") {
        uint32_t id, opts; std::string mnem; in >> id >> mnem >> opts;
        Operand_ ex; read_op(in, ex);
        uint32_t n; in >> n; Operand_ ops[6]; for (auto& o : ops) o = Operand();
        for (uint32_t i = 0; i < n && i < 6; i++) read_op(in, ops[i]);
        b.set_inst_options(InstOptions(opts));
        if (ex.is_reg()) b.set_extra_reg(ex.as<Reg>());
        Operand_ ext[3] = { ops[3], ops[4], ops[5] };
        e = b._emit(id, ops[0], ops[1], ops[2], ext);
      }
      else if (kind == "EL" || kind == "EX") {
        // embedded label / label delta nodes: EL id size, EX id base size (labels are created up to the larger id)
        uint32_t id, base = 0, size; in >> id; if (kind == "EX") in >> base; in >> size;
        std::vector<Label> ls; for (uint32_t i = 0; i <= (id > base ? id : base) && i < 64; i++) ls.push_back(b.new_label());
        if (id >= ls.size() || base >= ls.size()) { printf("Z <bad-command>\n"); continue; }
        e = kind == "EL" ? b.embed_label(ls[id], size) : b.embed_label_delta(ls[id], ls[base], size);
      }
      BaseNode* extra_node = nullptr;
      if (kind == "CP") {
        // constant pool node with n 8-byte and m 16-byte constants
        uint32_t n, m2; in >> n >> m2;
        ConstPoolNode* cp = nullptr; e = b.new_const_pool_node(Out<ConstPoolNode*>(cp));
        for (uint32_t i = 0; i < n && e == Error::kOk && cp; i++) { uint64_t v = 0x1111111111111111ull * (i + 1); size_t off; e = cp->add(&v, 8, Out<size_t>(off)); }
        for (uint32_t i = 0; i < m2 && e == Error::kOk && cp; i++) { uint64_t v[2] = { i + 1000u, i }; size_t off; e = cp->add(v, 16, Out<size_t>(off)); }
        extra_node = cp;
      }
      else if (kind == "SN") {
        uint32_t fe; in >> fe;
        SentinelNode* sn = nullptr; e = b.new_node_t<SentinelNode>(Out<SentinelNode*>(sn), fe ? SentinelType::kFuncEnd : SentinelType::kUnknown);
        extra_node = sn;
      }
      BaseNode* node = extra_node ? extra_node : b.last_node();
      if (e != Error::kOk || !node) { printf("Z <error %u>\n", unsigned(e)); continue; }
      if (inl != "-") { keep = inl; node->set_inline_comment(keep.c_str()); }
      if (pos) node->set_position(NodePosition(pos));
      FormatOptions fo; fo.set_flags(FormatFlags(ff));
      String sb;
      e = Formatter::format_node(sb, fo, &b, node);
      printf("Z %s%s\n", e == Error::kOk ? "" : "<error>", sb.data());
    }
    else if (cmd == "W") {
      uint32_t ff, optype, vidx, vtype; std::string name;
      in >> ff >> optype >> vidx >> vtype >> name;
      if (!CS.live) CS.start();
      uint32_t id = Operand::virt_index_to_virt_id(vidx);
      if (CS.cc.is_virt_id_valid(id)) {
        VirtReg* vr = CS.cc.virt_reg_by_id(id);
        std::string real = vr->name_size() ? std::string(vr->name(), vr->name_size()) : std::string("-");
        if (uint32_t(vr->reg_type()) != vtype || real != name) { printf("W <table-mismatch %u %s>\n", unsigned(vr->reg_type()), real.c_str()); continue; }
      }
      else if (name != "!") { printf("W <table-mismatch invalid>\n"); continue; }
      Operand_ op = Reg::from_type_and_id(RegType(optype), id);
      String sb;
      Error e = Formatter::format_operand(sb, FormatFlags(ff), &CS.cc, Arch::kX64, op);
      printf("W %s%s\n", e == Error::kOk ? "" : "<error>", sb.data());
    }
    else if (cmd == "U") {
      uint32_t ff, nv; in >> ff >> nv;
      if (!CS.live) CS.start();
      bool okt = nv == CS.regs.size();
      for (uint32_t k = 0; k < nv; k++) {
        uint32_t vt; std::string nm; in >> vt >> nm;
        if (okt) {
          VirtReg* vr = CS.cc.virt_reg_by_id(Operand::virt_index_to_virt_id(k));
          std::string real = vr->name_size() ? std::string(vr->name(), vr->name_size()) : std::string("-");
          if (uint32_t(vr->reg_type()) != vt || real != nm) okt = false;
        }
      }
      Operand_ op;
      if (!okt || !read_op(in, op)) { printf("U <table-mismatch>\n"); continue; }
      String sb;
      Error e = Formatter::format_operand(sb, FormatFlags(ff), &CS.cc, Arch::kX64, op);
      printf("U %s%s\n", e == Error::kOk ? "" : "<error>", sb.data());
    }
    else if (cmd == "K") {
      uint32_t ff, nv; in >> ff >> nv;
      bool okt = check_vtable(CS, in, nv);
      uint32_t id, opts; std::string mnem; in >> id >> mnem >> opts;
      Operand_ ex; read_op(in, ex);
      uint32_t n; in >> n; Operand_ ops[6]; for (auto& o : ops) o = Operand();
      bool bad = !okt || n > 6;
      for (uint32_t i = 0; i < n && !bad; i++) if (!read_op(in, ops[i])) bad = true;
      if (bad) { printf("K <bad-command>\n"); continue; }
      BaseInst inst(id, InstOptions(opts));
      if (ex.is_reg()) inst = BaseInst(id, InstOptions(opts), ex.as<Reg>());
      String sb;
      Error e = Formatter::format_instruction(sb, FormatFlags(ff), &CS.cc, Arch::kX64, inst, Span<const Operand_>(ops, 6));
      printf("K %s%s\n", e == Error::kOk ? "" : "<error>", sb.data());
    }
    else if (cmd == "KA") {
      // KA ff diag k (id mnem opts extra n ops...)*k : a whole function through x86::Compiler + register allocator + Assembler with a
      // StringLogger(ff) and DiagnosticOptions diag (kRAAnnotate 0x80, kRADebugLiveness 0x200); answers error, code bytes, log
      uint32_t ff, diag, k; in >> ff >> diag >> k;
      JitRuntime rt;
      CodeHolder code; code.init(Environment(Arch::kX64));
      StringLogger lg; lg.set_flags(FormatFlags(ff));
      code.set_logger(&lg);
      x86::Compiler cc(&code);
      cc.add_diagnostic_options(DiagnosticOptions(diag));
      FuncNode* fn = cc.add_func(FuncSignature::build<int, int, int>(CallConvId::kX64SystemV));
      x86::Gp a = cc.new_gp32("a"), b = cc.new_gp32("b"), u2 = cc.new_gp64(), p = cc.new_gp64("p");
      x86::Vec u4 = cc.new_xmm(), x = cc.new_xmm("x");
      (void)u2; (void)p; (void)u4; (void)x;
      Label xl2 = cc.new_label(), xl3 = cc.new_label();     // ids 2 and 3: targets of conditional jumps ("0 bind 0 N 1 L <id>" binds one)
      bool bad = !fn;
      if (!bad) { fn->set_arg(0, a); fn->set_arg(1, b); }
      Error e = Error::kOk;
      for (uint32_t j = 0; j < k && !bad; j++) {
        uint32_t id, opts, n; std::string mnem; in >> id >> mnem >> opts;
        Operand_ ex; read_op(in, ex);
        in >> n; Operand_ ops[6]; for (auto& o : ops) o = Operand();
        if (n > 6) { bad = true; break; }
        for (uint32_t i = 0; i < n && !bad; i++) if (!read_op(in, ops[i])) bad = true;
        if (bad) break;
        if (mnem == "bind") {
          Error e1 = cc.bind(ops[0].id() == xl2.id() ? xl2 : xl3);
          if (e1 != Error::kOk && e == Error::kOk) e = e1;
          continue;
        }
        cc.set_inst_options(InstOptions(opts));
        Operand_ ext[3] = { ops[3], ops[4], ops[5] };
        Error e1 = cc._emit(id, ops[0], ops[1], ops[2], ext);
        if (e1 != Error::kOk && e == Error::kOk) e = e1;
      }
      if (bad) { printf("KA <bad-command>\n"); continue; }
      cc.ret(a);
      cc.end_func();
      Error e2 = cc.finalize();
      if (e == Error::kOk) e = e2;
      std::string bytes = code.text_section()->buffer_size() ? hex(code.text_section()->data(), code.text_section()->buffer_size()) : std::string("-");
      std::string l(lg.data(), lg.data_size());
      for (char& c : l) if (c == '\n') c = '$';
      printf("KA %u %s %s\n", unsigned(e), bytes.c_str(), l.c_str());
    }
    else if (cmd == "KA6") {
      // the AArch64 counterpart of KA: a64::Compiler + register allocator + a64::Assembler with a StringLogger
      uint32_t ff, diag, k; in >> ff >> diag >> k;
      CodeHolder code; code.init(Environment(Arch::kAArch64));
      StringLogger lg; lg.set_flags(FormatFlags(ff));
      code.set_logger(&lg);
      a64::Compiler cc(&code);
      cc.add_diagnostic_options(DiagnosticOptions(diag));
      FuncNode* fn = cc.add_func(FuncSignature::build<int, int, int>(CallConvId::kCDecl));
      a64::Gp a = cc.new_gp32("a"), b = cc.new_gp32("b"), u2 = cc.new_gp64(), p = cc.new_gp64("p");
      a64::Vec u4 = cc.new_vec128(), x = cc.new_vec128("x");
      (void)u2; (void)p; (void)u4; (void)x;
      bool bad = !fn;
      if (!bad) { fn->set_arg(0, a); fn->set_arg(1, b); }
      Error e = Error::kOk;
      for (uint32_t j = 0; j < k && !bad; j++) {
        uint32_t id, opts, n; std::string mnem; in >> id >> mnem >> opts;
        Operand_ ex; read_op(in, ex);
        in >> n; Operand_ ops[6]; for (auto& o : ops) o = Operand();
        if (n > 6) { bad = true; break; }
        for (uint32_t i = 0; i < n && !bad; i++) if (!read_op(in, ops[i])) bad = true;
        if (bad) break;
        Operand_ ext[3] = { ops[3], ops[4], ops[5] };
        Error e1 = cc._emit(id, ops[0], ops[1], ops[2], ext);
        if (e1 != Error::kOk && e == Error::kOk) e = e1;
      }
      if (bad) { printf("KA6 <bad-command>\n"); continue; }
      cc.ret(a);
      cc.end_func();
      Error e2 = cc.finalize();
      if (e == Error::kOk) e = e2;
      std::string bytes = code.text_section()->buffer_size() ? hex(code.text_section()->data(), code.text_section()->buffer_size()) : std::string("-");
      std::string l(lg.data(), lg.data_size());
      for (char& c : l) if (c == '\n') c = '$';
      printf("KA6 %u %s %s\n", unsigned(e), bytes.c_str(), l.c_str());
    }
    else if (cmd == "K6") {
      // K6 ff nv (type name)* id mnem opts extra n ops... : one AArch64 line through Formatter::format_instruction with the a64::Compiler session
      uint32_t ff, nv; in >> ff >> nv;
      if (!CS6.live) CS6.start();
      for (uint32_t k = 0; k < nv; k++) { uint32_t vt; std::string nm; in >> vt >> nm; }
      uint32_t id, opts; std::string mnem; in >> id >> mnem >> opts;
      Operand_ ex; read_op(in, ex);
      uint32_t n; in >> n; Operand_ ops[6]; for (auto& o : ops) o = Operand();
      bool bad = n > 6;
      for (uint32_t i = 0; i < n && !bad; i++) if (!read_op(in, ops[i])) bad = true;
      if (bad) { printf("K6 <bad-command>\n"); continue; }
      BaseInst inst(id, InstOptions(opts));
      String sb;
      Error e = Formatter::format_instruction(sb, FormatFlags(ff), &CS6.cc, Arch::kAArch64, inst, Span<const Operand_>(ops, 6));
      printf("K6 %s%s\n", e == Error::kOk ? "" : "<error>", sb.data());
    }
    else if (cmd == "J") {
      uint32_t ff, nv; in >> ff >> nv;
      bool okt = check_vtable(CS, in, nv);
      Operand_ o0, o1;
      if (!okt || !read_op(in, o0) || !read_op(in, o1)) { printf("J <bad-command>\n"); continue; }
      FuncRetNode* node = nullptr;
      Error e = CS.cc.new_func_ret_node(Out<FuncRetNode*>(node), o0, o1);
      if (e != Error::kOk || !node) { printf("J <error %u>\n", unsigned(e)); continue; }
      FormatOptions fo; fo.set_flags(FormatFlags(ff));
      String sb;
      e = Formatter::format_node(sb, fo, &CS.cc, node);
      printf("J %s%s\n", e == Error::kOk ? "" : "<error>", sb.data());
    }
    else if (cmd == "W6") {
      uint32_t ff, optype, vidx, vtype, et; int64_t ei; std::string name;
      in >> ff >> optype >> vidx >> vtype >> name >> et >> ei;
      if (!CS6.live) CS6.start();
      uint32_t id = Operand::virt_index_to_virt_id(vidx);
      if (CS6.cc.is_virt_id_valid(id)) {
        VirtReg* vr = CS6.cc.virt_reg_by_id(id);
        std::string real = vr->name_size() ? std::string(vr->name(), vr->name_size()) : std::string("-");
        if (uint32_t(vr->reg_type()) != vtype || real != name) { printf("W6 <table-mismatch %u %s>\n", unsigned(vr->reg_type()), real.c_str()); continue; }
      }
      else if (name != "!") { printf("W6 <table-mismatch invalid>\n"); continue; }
      a64::Vec v(OperandSignature{Reg::signature_of(RegType(optype)).bits()}, id);
      v.set_element_type(a64::VecElementType(et));
      if (ei >= 0) v.set_element_index(uint32_t(ei));
      String sb;
      Error e = Formatter::format_operand(sb, FormatFlags(ff), &CS6.cc, Arch::kAArch64, v);
      printf("W6 %s%s\n", e == Error::kOk ? "" : "<error>", sb.data());
    }
    else if (cmd == "Q" || cmd == "QI") {
      static const TypeId tys[] = { TypeId::kVoid, TypeId::kInt32, TypeId::kUInt32, TypeId::kInt64, TypeId::kUInt64, TypeId::kFloat32, TypeId::kFloat64,
                                    TypeId::kInt32x4, TypeId::kFloat64x2, TypeId::kFloat32x8, TypeId::kInt8, TypeId::kUInt16 };
      const uint32_t NT = 12;
      uint32_t ff; in >> ff;
      FormatOptions fo; fo.set_flags(FormatFlags(ff));
      String sb;
      if (cmd == "Q") {
        // Q ff conv ret nargs (type bind)* : conv 0 System V, 1 Win64, 2 vectorcall, 6 AArch64 (a64::Compiler)
        uint32_t conv, ret, nargs; in >> conv >> ret >> nargs;
        FuncSignature sig(conv == 0 ? CallConvId::kX64SystemV : conv == 1 ? CallConvId::kX64Windows : conv == 2 ? CallConvId::kVectorCall : CallConvId::kCDecl);
        sig.set_ret(tys[ret % NT]);
        std::vector<std::string> binds;
        std::vector<uint32_t> at;
        for (uint32_t i = 0; i < nargs; i++) { uint32_t ty; std::string b; in >> ty >> b; sig.add_arg(tys[ty % NT]); binds.push_back(b); at.push_back(ty % NT); }
        auto is_vec = [](uint32_t k) { return (k >= 5 && k <= 9); };
        auto is64 = [](uint32_t k) { return k == 3 || k == 4; };
        Error e = Error::kOk;
        // what the FuncDetail says (the values the text has to denote): per value "T<typeid> (N | R type id | S offset) (d|i)"
        std::string dump;
        auto dump_value = [&](const FuncValue& v) {
          dump += " T" + std::to_string(unsigned(v.type_id()));
          if (!v.is_assigned()) { dump += " N"; return; }
          if (v.is_reg()) dump += " R " + std::to_string(unsigned(v.reg_type())) + " " + std::to_string(unsigned(v.reg_id()));
          if (v.is_stack()) dump += " S " + std::to_string(int(v.stack_offset()));
          dump += v.is_indirect() ? " i" : " d";
        };
        auto dump_detail = [&](const FuncDetail& fd) {
          uint32_t nr = 0; while (nr < Globals::kMaxValuePack && fd.ret_pack()[nr]) nr++;
          dump += " RET " + std::to_string(nr);
          for (uint32_t k = 0; k < nr; k++) dump_value(fd.ret_pack()[k]);
          dump += " ARGS " + std::to_string(unsigned(fd.arg_count()));
          for (uint32_t i = 0; i < fd.arg_count(); i++) {
            uint32_t c = 0; while (c < Globals::kMaxValuePack && fd.arg_pack(i)[c]) c++;
            dump += " P " + std::to_string(c);
            for (uint32_t k = 0; k < c; k++) dump_value(fd.arg_pack(i)[k]);
          }
        };
        if (conv == 6) {
          CodeHolder code; code.init(Environment(Arch::kAArch64));
          a64::Compiler cc(&code);
          FuncNode* fn = cc.add_func(sig);
          if (!fn) { printf("Q <error>\n"); continue; }
          for (uint32_t i = 0; i < nargs; i++) {
            if (binds[i] == "-") continue;
            std::string nm = "a" + std::to_string(i);
            Reg r;
            if (is_vec(at[i])) r = binds[i] == "u" ? cc.new_vec128() : cc.new_vec128(nm.c_str());
            else if (is64(at[i])) r = binds[i] == "u" ? cc.new_gp64() : cc.new_gp64(nm.c_str());
            else r = binds[i] == "u" ? cc.new_gp32() : cc.new_gp32(nm.c_str());
            fn->set_arg(i, r);
          }
          e = Formatter::format_node(sb, fo, &cc, fn);
          dump_detail(fn->detail());
        }
        else {
          CodeHolder code; code.init(Environment(Arch::kX64));
          x86::Compiler cc(&code);
          FuncNode* fn = cc.add_func(sig);
          if (!fn) { printf("Q <error>\n"); continue; }
          for (uint32_t i = 0; i < nargs; i++) {
            if (binds[i] == "-") continue;
            std::string nm = "a" + std::to_string(i);
            Reg r;
            if (is_vec(at[i])) r = binds[i] == "u" ? cc.new_xmm() : cc.new_xmm(nm.c_str());
            else if (is64(at[i])) r = binds[i] == "u" ? cc.new_gp64() : cc.new_gp64(nm.c_str());
            else r = binds[i] == "u" ? cc.new_gp32() : cc.new_gp32(nm.c_str());
            fn->set_arg(i, r);
          }
          e = Formatter::format_node(sb, fo, &cc, fn);
          dump_detail(fn->detail());
        }
        printf("Q %s%s ##%s\n", e == Error::kOk ? "" : "<error>", sb.data(), dump.c_str());
      }
      else {
        CodeHolder code; code.init(Environment(Arch::kX64));
        x86::Compiler cc(&code);
        FuncNode* fn = cc.add_func(FuncSignature::build<void>(CallConvId::kX64SystemV));
        x86::Gp v0 = cc.new_gp64(); x86::Gp v1 = cc.new_gp64("fnptr");
        Operand_ tgt; if (!fn || !read_op(in, tgt)) { printf("QI <bad-command>\n"); continue; }
        InvokeNode* inv = nullptr;
        Error e = cc.invoke_(Out<InvokeNode*>(inv), tgt, FuncSignature::build<void>(CallConvId::kX64SystemV));
        if (e != Error::kOk || !inv) { printf("QI <error %u>\n", unsigned(e)); continue; }
        e = Formatter::format_node(sb, fo, &cc, inv);
        printf("QI %s%s\n", e == Error::kOk ? "" : "<error>", sb.data());
      }
    }
    else if (cmd == "RL") {
      uint32_t arch, rt, mask; in >> arch >> rt >> mask;
      BaseRegList rl(OperandSignature::from_op_type(OperandType::kRegList) | OperandSignature::from_reg_type(RegType(rt)), RegMask(mask));
      String sb;
      Error e = Formatter::format_operand(sb, FormatFlags::kNone, nullptr, Arch(arch), rl);
      printf("RL %s%s\n", e == Error::kOk ? "" : "<error>", sb.data());
    }
    else if (cmd == "B") {
      uint32_t id; in >> id;
      if (!S.live || S.arch != Arch::kX64) S.start(Arch::kX64);
      String sb;
      Error e = Formatter::format_label(sb, FormatFlags::kNone, S.as, id);
      printf("B %s%s\n", e == Error::kOk ? "" : "<error>", sb.data());
    }
    else {
      printf("? unknown command\n");
    }
  }
  return 0;
}

// C17 correspondence harness: drives the real codec functions of /repo's working tree.
// Protocol (stdin, one command per line; all numbers decimal, offsets/values signed 64-bit or unsigned 64-bit):
//   R ty vsize bits shift discard lo count step old   -> enumerate `count` offsets lo, lo+step, ... ; one summary
//                                                        line "R <accepted> <hash>"
//   V ty vsize bits shift discard off old             -> "V <ok> <word>"       (write_offset on an LE word = old)
//   L imm width                                        -> "L <ok> <n> <s> <r>"  (encode_logical_imm)
//   A imm                                              -> "A <ok>"              (is_add_sub_imm)
//   F kind bits                                        -> "F <ok> <imm8>"       (is_fp{16,32,64}_imm8 + encode; kind=16|32|64)
//   B imm                                              -> "B <ok> <imm8>"       (is_byte_mask_imm + encode_imm64_byte_mask_to_imm8)
//   I imm                                              -> "I <ok> <enc>"        (encode_aarch32_imm)
//   M imm rd x is64                                    -> "M <count> w0 w1 w2 w3"(encode_mov_sequence_32/64)
//   H size idx                                         -> "H <ok> <lm> <h> <maxrm>" (encode_lmh)
//   X kind x a b                                        -> "X <ok> <sf> <N> <immr> <imms>" (a64::Assembler: kind 0 bfxil 1 sbfx 2 ubfx 3 bfi 4 sbfiz 5 ubfiz
//                                                                                  6 bfc 7 bfm 8 sbfm 9 ubfm 10 lsl 11 lsr 12 asr 13 ror (immediate forms; ror = EXTR Rd, Rn, Rn: the immr column then shows Rm); x = 1: X registers;
//                                                                                  a, b = lsb,width / immr,imms / shift,0; fields read back from the emitted word)
//   Y op form size acc optsize longform imm             -> "Y <ok> <has66> <rexw> <short> <opcode> <immsize> <field>"  (x86::Assembler, X64: op 0..7 =
//                                                                                  add or adc sbb and sub xor cmp, 8 = test, 9 = mov, 10 = imul r, r/m, imm (source rdx / [rcx]), 11 = push imm, 12..15 = shl sar ror rcl r/m, imm, 16/17 = shld/shrd r/m, rdx, imm (opcode 0x0FA4 / 0x0FAC); short = no ModRM byte; form 0: register (acc = 1: AL/AX/EAX/RAX, else CL/CX/ECX/RCX),
//                                                                                  form 1: <size> ptr [rcx]; EncodingOptions::kOptimizeForSize / InstOptions::kLongForm;
//                                                                                  the emitted bytes are parsed: 66?, REX?, opcode, ModRM unless short form, immediate = rest)
//   E width off nbits                                   -> "E <ok>"              (EmitterUtils::is_encodable_offset_32 / _64; width = 32|64)
//   N kind n x                                          -> "N <ok>"              (Support::is_int_n<n>/is_uint_n<n>; kind: 0 = is_int_n(int64), 1 = is_int_n(uint64),
//                                                                                  2 = is_uint_n(int64), 3 = is_uint_n(uint64), 4 = is_int_n(int32), 5 = is_uint_n(int32);
//                                                                                  n from the instantiated list, "N -1" for any other n)
#include <asmjit/core.h>
#include <asmjit/a64.h>
#include <asmjit/x86.h>
#include <asmjit/core/codewriter_p.h>
#include <asmjit/core/emitterutils_p.h>
#include <asmjit/arm/armutils.h>
#include <asmjit/arm/a64assembler.cpp>  // file-static encode_mov_sequence_*/encode_lmh (not linked twice: see vlib)
#include <cstdio>
#include <cstring>
#include <cinttypes>
#include <cstdlib>

using namespace asmjit;

// compile-time N of Support::is_int_n / is_uint_n: the instantiations offered to the stream
#define C17_NLIST(X) X(2) X(7) X(8) X(9) X(12) X(14) X(16) X(19) X(21) X(24) X(25) X(26) X(31) X(32) X(33) X(48) X(63) X(64)
template<typename T> static int call_is_int_n(unsigned n, T x) {
  switch (n) {
#define X(N) case N: return int(Support::is_int_n<N>(x));
    C17_NLIST(X)
#undef X
    default: return -1;
  }
}
template<typename T> static int call_is_uint_n(unsigned n, T x) {
  switch (n) {
#define X(N) case N: return int(Support::is_uint_n<N>(x));
    C17_NLIST(X)
#undef X
    default: return -1;
  }
}

static const uint64_t HMASK = (uint64_t(1) << 62) - 1;
static inline uint64_t hmix(uint64_t h, uint64_t x) { return ((h * 1000003u) ^ (x & HMASK)) & HMASK; }

static bool do_write(OffsetFormat& f, int64_t off, uint64_t old, uint64_t& word) {
  uint8_t buf[16];
  memset(buf, 0xCC, sizeof(buf));
  uint32_t vs = f.value_size();
  for (uint32_t i = 0; i < 8; i++) buf[4 + i] = (i < vs) ? uint8_t(old >> (8 * i)) : 0xCC;
  bool ok = CodeWriterUtils::write_offset(buf + 4, off, f);
  // guard bytes must be intact whatever happens
  for (uint32_t i = 0; i < 4; i++) if (buf[i] != 0xCC) { printf("GUARD-BROKEN-LOW\n"); }
  for (uint32_t i = 4 + (vs <= 8 ? vs : 8); i < 16; i++) if (buf[i] != 0xCC) { printf("GUARD-BROKEN-HIGH\n"); }
  word = 0;
  for (uint32_t i = 0; i < vs && i < 8; i++) word |= uint64_t(buf[4 + i]) << (8 * i);
  return ok;
}

static void mkfmt(OffsetFormat& f, unsigned ty, unsigned vsize, unsigned bits, unsigned shift, unsigned discard) {
  memset(&f, 0, sizeof(f));
  f._type = OffsetType(ty);
  f._flags = 0;
  f._region_size = uint8_t(vsize);
  f._value_size = uint8_t(vsize);
  f._value_offset = 0;
  f._imm_bit_count = uint8_t(bits);
  f._imm_bit_shift = uint8_t(shift);
  f._imm_discard_lsb = uint8_t(discard);
}

struct BfAsm {
  CodeHolder code;
  a64::Assembler a;
  bool ready;
  BfAsm() : ready(false) {}
  bool init() {
    if (ready) return true;
    Environment env(Arch::kAArch64);
    if (code.init(env) != Error::kOk) return false;
    if (code.attach(&a) != Error::kOk) return false;
    ready = true;
    return true;
  }
};

struct X86Asm {
  CodeHolder code;
  x86::Assembler a;
  bool ready;
  X86Asm() : ready(false) {}
  bool init() {
    if (ready) return true;
    Environment env(Arch::kX64);
    if (code.init(env) != Error::kOk) return false;
    if (code.attach(&a) != Error::kOk) return false;
    ready = true;
    return true;
  }
};

int main() {
  char line[512];
  static BfAsm bf;
  static X86Asm xa;
  while (fgets(line, sizeof(line), stdin)) {
    char c = line[0];
    if (c == 'T') {
      // numeric values of the OffsetType enumerators, in the order of the model's constructors
      printf("T %u %u %u %u %u %u %u %u %u %u %u %u\n", unsigned(OffsetType::kSignedOffset), unsigned(OffsetType::kUnsignedOffset),
             unsigned(OffsetType::kAArch64_ADR), unsigned(OffsetType::kAArch64_ADRP), unsigned(OffsetType::kThumb32_ADR),
             unsigned(OffsetType::kThumb32_BLX), unsigned(OffsetType::kThumb32_B), unsigned(OffsetType::kThumb32_BCond),
             unsigned(OffsetType::kAArch32_ADR), unsigned(OffsetType::kAArch32_U23_SignedOffset),
             unsigned(OffsetType::kAArch32_U23_0To3At0_4To7At8), unsigned(OffsetType::kAArch32_1To24At0_0At24));
    }
    else if (c == 'R') {
      unsigned ty, vs, bits, sh, dl; long long lo; unsigned long long cnt, old; long long step;
      if (sscanf(line + 1, "%u %u %u %u %u %lld %llu %lld %llu", &ty, &vs, &bits, &sh, &dl, &lo, &cnt, &step, &old) != 9) { printf("BAD\n"); continue; }
      OffsetFormat f; mkfmt(f, ty, vs, bits, sh, dl);
      uint64_t h = 0, acc = 0;
      int64_t off = lo;
      for (unsigned long long i = 0; i < cnt; i++, off = int64_t(uint64_t(off) + uint64_t(step))) {
        uint64_t w; bool ok = do_write(f, off, old, w);
        if (ok) { acc++; h = hmix(h, 1); h = hmix(h, w & 0xFFFFFFFFu); h = hmix(h, w >> 32); }
        else { h = hmix(h, 0); }
      }
      printf("R %" PRIu64 " %" PRIu64 "\n", acc, h);
    }
    else if (c == 'V') {
      unsigned ty, vs, bits, sh, dl; long long off; unsigned long long old;
      if (sscanf(line + 1, "%u %u %u %u %u %lld %llu", &ty, &vs, &bits, &sh, &dl, &off, &old) != 7) { printf("BAD\n"); continue; }
      OffsetFormat f; mkfmt(f, ty, vs, bits, sh, dl);
      uint64_t w; bool ok = do_write(f, off, old, w);
      if (ok) printf("V 1 %" PRIu64 "\n", w); else printf("V 0 %" PRIu64 "\n", (uint64_t)old);
    }
    else if (c == 'L') {
      unsigned long long imm; unsigned width;
      if (sscanf(line + 1, "%llu %u", &imm, &width) != 2) { printf("BAD\n"); continue; }
      arm::Utils::LogicalImm li; li.n = li.s = li.r = 0;
      bool ok = arm::Utils::encode_logical_imm(imm, width, Out(li));
      if (ok) printf("L 1 %u %u %u\n", li.n, li.s, li.r); else printf("L 0 0 0 0\n");
    }
    else if (c == 'A') {
      unsigned long long imm; sscanf(line + 1, "%llu", &imm);
      printf("A %d\n", int(arm::Utils::is_add_sub_imm(imm)));
    }
    else if (c == 'F') {
      unsigned kind; unsigned long long v; sscanf(line + 1, "%u %llu", &kind, &v);
      bool ok; uint32_t e;
      if (kind == 16) { ok = arm::Utils::is_fp16_imm8(uint32_t(v)); e = arm::Utils::encode_fp_to_imm8_generic<uint32_t, 3, 6, 6>(uint32_t(v)); }
      else if (kind == 32) { ok = arm::Utils::is_fp32_imm8(uint32_t(v)); e = arm::Utils::encode_fp_to_imm8_generic<uint32_t, 6, 6, 19>(uint32_t(v)); }
      else { ok = arm::Utils::is_fp64_imm8(uint64_t(v)); e = arm::Utils::encode_fp64_to_imm8(uint64_t(v)); }
      printf("F %d %u\n", int(ok), ok ? e : 0u);
    }
    else if (c == 'B') {
      unsigned long long v; sscanf(line + 1, "%llu", &v);
      bool ok = arm::Utils::is_byte_mask_imm(uint64_t(v));
      printf("B %d %u\n", int(ok), ok ? arm::Utils::encode_imm64_byte_mask_to_imm8(v) : 0u);
    }
    else if (c == 'I') {
      unsigned long long v; sscanf(line + 1, "%llu", &v);
      uint32_t e = 0; bool ok = arm::Utils::encode_aarch32_imm(v, Out(e));
      printf("I %d %u\n", int(ok), ok ? e : 0u);
    }
    else if (c == 'M') {
      unsigned long long imm; unsigned rd, x, is64; sscanf(line + 1, "%llu %u %u %u", &imm, &rd, &x, &is64);
      uint32_t out[4] = {0, 0, 0, 0};
      uint32_t n = is64 ? a64::encode_mov_sequence_64(out, imm, rd, x) : a64::encode_mov_sequence_32(out, uint32_t(imm), rd, x);
      printf("M %u", n);
      for (uint32_t i = 0; i < 4; i++) printf(" %u", i < n ? out[i] : 0u);
      printf("\n");
    }
    else if (c == 'X') {
      unsigned kind, x; unsigned long long va, vb;
      if (sscanf(line + 1, "%u %u %llu %llu", &kind, &x, &va, &vb) != 4 || !bf.init()) { printf("BAD\n"); continue; }
      static const InstId ids[14] = { a64::Inst::kIdBfxil, a64::Inst::kIdSbfx, a64::Inst::kIdUbfx, a64::Inst::kIdBfi, a64::Inst::kIdSbfiz,
                                      a64::Inst::kIdUbfiz, a64::Inst::kIdBfc, a64::Inst::kIdBfm, a64::Inst::kIdSbfm, a64::Inst::kIdUbfm,
                                      a64::Inst::kIdLsl, a64::Inst::kIdLsr, a64::Inst::kIdAsr, a64::Inst::kIdRor };
      if (kind > 13) { printf("BAD\n"); continue; }
      a64::Gp rd = x ? a64::Gp(a64::x3) : a64::Gp(a64::w3);
      a64::Gp rn = x ? a64::Gp(a64::x5) : a64::Gp(a64::w5);
      bf.a.set_offset(0);
      Error err;
      if (kind == 6) err = bf.a.emit(ids[kind], rd, Imm(uint64_t(va)), Imm(uint64_t(vb)));
      else if (kind >= 10) err = bf.a.emit(ids[kind], rd, rn, Imm(uint64_t(va)));
      else err = bf.a.emit(ids[kind], rd, rn, Imm(uint64_t(va)), Imm(uint64_t(vb)));
      if (err != Error::kOk || bf.a.offset() != 4) { printf("X 0 0 0 0 0\n"); continue; }
      uint32_t w; memcpy(&w, bf.code.text_section()->buffer().data(), 4);
      printf("X 1 %u %u %u %u\n", w >> 31, (w >> 22) & 1u, (w >> 16) & 63u, (w >> 10) & 63u);
    }
    else if (c == 'Y') {
      unsigned op, form, size, acc, optsize, longform; long long imm;
      if (sscanf(line + 1, "%u %u %u %u %u %u %lld", &op, &form, &size, &acc, &optsize, &longform, &imm) != 7 || !xa.init() || op > 17) { printf("BAD\n"); continue; }
      static const InstId ids[18] = { x86::Inst::kIdAdd, x86::Inst::kIdOr, x86::Inst::kIdAdc, x86::Inst::kIdSbb, x86::Inst::kIdAnd, x86::Inst::kIdSub, x86::Inst::kIdXor, x86::Inst::kIdCmp,
                                      x86::Inst::kIdTest, x86::Inst::kIdMov, x86::Inst::kIdImul, x86::Inst::kIdPush,
                                      x86::Inst::kIdShl, x86::Inst::kIdSar, x86::Inst::kIdRor, x86::Inst::kIdRcl, x86::Inst::kIdShld, x86::Inst::kIdShrd };
      xa.a.set_offset(0);
      xa.a.clear_encoding_options(EncodingOptions::kOptimizeForSize);
      if (optsize) xa.a.add_encoding_options(EncodingOptions::kOptimizeForSize);
      if (longform) xa.a.add_inst_options(InstOptions::kLongForm);
      Error err;
      if (op == 11) {
        err = xa.a.emit(ids[op], Imm(int64_t(imm)));
      }
      else if (op >= 16) {
        uint32_t id = acc ? 0u : 1u;
        x86::Gp r = size == 2 ? x86::gpw(id) : size == 4 ? x86::gpd(id) : x86::gpq(id);
        x86::Gp s2 = size == 2 ? x86::gpw(2) : size == 4 ? x86::gpd(2) : x86::gpq(2);
        if (form == 0) err = xa.a.emit(ids[op], r, s2, Imm(int64_t(imm)));
        else err = xa.a.emit(ids[op], x86::ptr(x86::rcx, 0, size), s2, Imm(int64_t(imm)));
      }
      else if (op == 10) {
        uint32_t id = acc ? 0u : 1u;
        x86::Gp r = size == 2 ? x86::gpw(id) : size == 4 ? x86::gpd(id) : x86::gpq(id);
        x86::Gp s2 = size == 2 ? x86::gpw(2) : size == 4 ? x86::gpd(2) : x86::gpq(2);
        if (form == 0) err = xa.a.emit(ids[op], r, s2, Imm(int64_t(imm)));
        else err = xa.a.emit(ids[op], r, x86::ptr(x86::rcx, 0, size), Imm(int64_t(imm)));
      }
      else if (form == 0) {
        x86::Gp r;
        uint32_t id = acc ? 0u : 1u;
        switch (size) { case 1: r = x86::gpb(id); break; case 2: r = x86::gpw(id); break; case 4: r = x86::gpd(id); break; default: r = x86::gpq(id); break; }
        err = xa.a.emit(ids[op], r, Imm(int64_t(imm)));
      }
      else {
        x86::Mem m = x86::ptr(x86::rcx, 0, size);
        err = xa.a.emit(ids[op], m, Imm(int64_t(imm)));
      }
      size_t n = xa.a.offset();
      if (err != Error::kOk || n == 0 || n > 16) { printf("Y 0 0 0 0 0 0 0\n"); continue; }
      const uint8_t* b = xa.code.text_section()->buffer().data();
      size_t i = 0; unsigned has66 = 0, rexw = 0;
      if (b[i] == 0x66) { has66 = 1; i++; }
      if ((b[i] & 0xF0) == 0x40) { rexw = (b[i] >> 3) & 1u; i++; }
      unsigned opc = b[i++];
      if (opc == 0x0F) opc = 0x0F00u | b[i++];
      unsigned shortf = ((opc < 0x40 && ((opc & 7) == 4 || (opc & 7) == 5)) || opc == 0xA8 || opc == 0xA9 || opc == 0x68 || opc == 0x6A || (opc >= 0xB0 && opc <= 0xBF)) ? 1u : 0u;
      if (!shortf) i++;   // ModRM (register direct or [rcx]: no SIB, no displacement)
      uint64_t field = 0; unsigned immsize = unsigned(n - i);
      for (size_t k = 0; k < immsize && k < 8; k++) field |= uint64_t(b[i + k]) << (8 * k);
      printf("Y 1 %u %u %u %u %u %" PRIu64 "\n", has66, rexw, shortf, opc, immsize, field);
    }
    else if (c == 'E') {
      unsigned w, nb; long long off;
      if (sscanf(line + 1, "%u %lld %u", &w, &off, &nb) != 3) { printf("BAD\n"); continue; }
      bool ok = (w == 32) ? EmitterUtils::is_encodable_offset_32(int32_t(off), nb) : EmitterUtils::is_encodable_offset_64(int64_t(off), nb);
      printf("E %d\n", int(ok));
    }
    else if (c == 'N') {
      unsigned kind, n; char xs[64];
      if (sscanf(line + 1, "%u %u %63s", &kind, &n, xs) != 3) { printf("BAD\n"); continue; }
      int r = -1;
      if (kind == 0) r = call_is_int_n<int64_t>(n, int64_t(strtoll(xs, nullptr, 10)));
      else if (kind == 1) r = call_is_int_n<uint64_t>(n, uint64_t(strtoull(xs, nullptr, 10)));
      else if (kind == 2) r = call_is_uint_n<int64_t>(n, int64_t(strtoll(xs, nullptr, 10)));
      else if (kind == 3) r = call_is_uint_n<uint64_t>(n, uint64_t(strtoull(xs, nullptr, 10)));
      else if (kind == 4) r = call_is_int_n<int32_t>(n, int32_t(strtoll(xs, nullptr, 10)));
      else if (kind == 5) r = call_is_uint_n<int32_t>(n, int32_t(strtoll(xs, nullptr, 10)));
      printf("N %d\n", r);
    }
    else if (c == 'H') {
      unsigned sz, idx; sscanf(line + 1, "%u %u", &sz, &idx);
      a64::LMHImm o; o.lm = o.h = o.max_rm_id = 0;
      bool ok = a64::encode_lmh(sz, idx, Out(o));
      if (ok) printf("H 1 %u %u %u\n", o.lm, o.h, o.max_rm_id); else printf("H 0 0 0 0\n");
    }
  }
  return 0;
}

// C09 black-box monitor for asmjit::JitAllocator.
//
// The monitor is told ONLY public-API facts (spans returned by alloc/shrink/query, error codes, statistics) plus an
// auxiliary table of blocks {serial, rx_base, rw_base, bytes, pool, pool_granularity, has_padding} and the option mask.
// It keeps an interval map of live spans (keyed by rx address) and checks memory-safety / accounting / content
// properties. It never includes an asmjit header and never looks at allocator internals.
//
// Every finding is one line:   !V <key> hist=<history index> op=<op index in history, H=0> <free text>
// Lines are collected in `pending` while an op is processed; the harness prints them right after the op's answer line.
#ifndef C09_MONITOR_H_INCLUDED
#define C09_MONITOR_H_INCLUDED

#include <cerrno>
#include <cinttypes>
#include <cstdarg>
#include <cstdint>
#include <cstdio>
#include <cstring>
#include <algorithm>
#include <map>
#include <string>
#include <vector>
#include <sys/mman.h>
#include <unistd.h>

// ---------------------------------------------------------------------------------------------------------------------
// Content patterns (shared with the harness, which performs the writes).
// ---------------------------------------------------------------------------------------------------------------------

static inline uint64_t c09_mix(uint64_t x) {
  x ^= x >> 30; x *= 0xbf58476d1ce4e5b9ULL;
  x ^= x >> 27; x *= 0x94d049bb133111ebULL;
  x ^= x >> 31;
  return x;
}

static inline uint64_t c09_seed(uint64_t hist, uint64_t h, uint64_t counter) {
  return c09_mix(c09_mix(hist * 0x9E3779B97F4A7C15ULL + 0x1234567ULL) ^ (h * 0xD6E8FEB86659FD93ULL) ^ (counter * 0xC2B2AE3D27D4EB4FULL + 1));
}

static inline uint64_t c09_word(uint64_t seed, size_t i) {
  uint64_t x = seed + (uint64_t(i) + 1) * 0x9E3779B97F4A7C15ULL;
  x ^= x >> 29; x *= 0xbf58476d1ce4e5b9ULL; x ^= x >> 32;
  // no data byte equals a byte of the fill patterns (0xCC default, 0xA5/0xC3 custom): the range an operation overwrites
  // with the fill pattern is then exactly the range of bytes that changed (harness `f <off> <len>` answers)
  for (int k = 0; k < 8; k++) {
    uint8_t b = uint8_t(x >> (8 * k));
    if (b == 0xCC || b == 0xA5 || b == 0xC3) x ^= (uint64_t(0x10) << (8 * k));
  }
  return x;
}

static inline void c09_pattern_fill(uint8_t* dst, size_t n, uint64_t seed) {
  size_t i = 0, w = 0;
  for (; i + 8 <= n; i += 8, w++) { uint64_t v = c09_word(seed, w); memcpy(dst + i, &v, 8); }
  if (i < n) { uint64_t v = c09_word(seed, w); memcpy(dst + i, &v, n - i); }
}

// Returns the offset of the first byte that differs from the pattern, or -1.
static inline int64_t c09_pattern_check(const uint8_t* src, size_t n, uint64_t seed) {
  size_t i = 0, w = 0;
  for (; i + 8 <= n; i += 8, w++) {
    uint64_t v = c09_word(seed, w), m;
    memcpy(&m, src + i, 8);
    if (m != v) { const uint8_t* vb = reinterpret_cast<const uint8_t*>(&v); for (size_t k = 0; k < 8; k++) if (src[i + k] != vb[k]) return int64_t(i + k); }
  }
  if (i < n) {
    uint64_t v = c09_word(seed, w);
    const uint8_t* vb = reinterpret_cast<const uint8_t*>(&v);
    for (size_t k = 0; i + k < n; k++) if (src[i + k] != vb[k]) return int64_t(i + k);
  }
  return -1;
}

// ---------------------------------------------------------------------------------------------------------------------
// Auxiliary block facts handed to the monitor.
// ---------------------------------------------------------------------------------------------------------------------

struct C09Block {
  int64_t serial;
  uintptr_t rx_base;
  uintptr_t rw_base;
  size_t bytes;
  uint32_t pool;
  uint32_t pool_granularity;
  bool has_padding;
};

// ---------------------------------------------------------------------------------------------------------------------
// Monitor
// ---------------------------------------------------------------------------------------------------------------------

class C09Monitor {
public:
  enum : uint32_t { kOptFill = 4u, kOptImmediateRelease = 8u, kOptCustomFill = 0x10000000u };

  struct Rec {
    uintptr_t rx = 0, rw = 0;
    size_t size = 0;
    size_t requested = 0;
    uint64_t seed = 0;
    int64_t blk = -1;         // serial of the block that contains rx (by the auxiliary table), -1 if none
    bool live = false;
    bool in_rx_map = false;
    bool in_rw_map = false;
    bool has_pattern = false;
    bool no_touch = false;    // never read or write the bytes of this span
    std::multimap<uintptr_t, uint32_t>::iterator rx_it, rw_it;
  };

  struct MBlock : C09Block { size_t live_count = 0; };

  struct Verdict { bool no_touch; bool poison; };

  // Output lines of the current op (without trailing newline).
  std::vector<std::string> pending;
  bool poisoned = false;

  // ---- history / op bookkeeping -------------------------------------------------------------------------------------

  void begin_history(uint64_t hist, uint32_t opt, uint32_t custom_fill) {
    _hist = hist; _op = 0; _opt = opt;
    _fill = (opt & kOptCustomFill) ? custom_fill : 0xCCCCCCCCu;
    _g0 = 0;
    _recs.clear(); _rx_map.clear(); _rw_map.clear();
    _blocks.clear(); _before.clear(); _new_serials.clear();
    _live_n = 0; _live_bytes = 0; _pad_sum = 0; _bytes_sum = 0;
    _empties_prev.clear();
    for (int i = 0; i < 4; i++) _last_delta[i] = 0;
    poisoned = false;
    _page = size_t(sysconf(_SC_PAGESIZE));
    if (!_page) _page = 4096;
  }

  void set_op(uint64_t op) { _op = op; }

  void on_create(bool constructed, bool is_initialized) {
    if (constructed && !is_initialized) emit("not-initialized", "is_initialized()=0 for a constructed allocator");
  }

  bool handle_touchable(uint32_t h) const { return h < _recs.size() && _recs[h].live && !_recs[h].no_touch; }

  // ---- alloc --------------------------------------------------------------------------------------------------------

  // `nb` is the new auxiliary table if it changed during the op (else nullptr).
  Verdict on_alloc(uint32_t h, const void* rx_, const void* rw_, size_t size, size_t requested, uint32_t g0, const std::vector<C09Block>* nb) {
    if (nb) set_blocks(*nb); else _new_serials.clear();
    _g0 = g0;
    if (_recs.size() <= h) _recs.resize(size_t(h) + 1);
    Rec& r = _recs[h];
    r = Rec();
    r.rx = uintptr_t(rx_); r.rw = uintptr_t(rw_); r.size = size; r.requested = requested; r.live = true;
    _live_n++; _live_bytes += size;

    Verdict v { false, false };

    if (!r.rx || !r.rw) {
      emit("span-null", "h=%u rx_null=%d rw_null=%d", h, int(!r.rx), int(!r.rw));
      r.no_touch = true; v.no_touch = true;
      return v;
    }

    if (g0 && ((r.rx % g0) || (r.rw % g0)))
      emit("span-misaligned", "h=%u rx_mod_g0=%" PRIu64 " rw_mod_g0=%" PRIu64 " g0=%u", h, uint64_t(r.rx % g0), uint64_t(r.rw % g0), g0);
    if (size < requested || (g0 && (size % g0)) || size == 0)
      emit("span-too-small", "h=%u len=%" PRIu64 " requested=%" PRIu64 " g0=%u", h, uint64_t(size), uint64_t(requested), g0);

    // Containment in a block of the auxiliary table.
    MBlock* b = find_block(r.rx);
    if (!b) {
      emit("span-outside-block", "h=%u len=%" PRIu64 " no block contains rx", h, uint64_t(size));
      r.no_touch = true; v.no_touch = true; v.poison = true;
    }
    else {
      r.blk = b->serial;
      b->live_count++;
      uint64_t off = uint64_t(r.rx - b->rx_base);
      if (off + size > b->bytes) {
        emit("span-outside-block", "h=%u blk=%" PRId64 " off=%" PRIu64 " len=%" PRIu64 " block_bytes=%" PRIu64, h, b->serial, off, uint64_t(size), uint64_t(b->bytes));
        r.no_touch = true; v.no_touch = true; v.poison = true;
      }
      if (b->pool_granularity && (r.rx % b->pool_granularity))
        emit("span-misaligned", "h=%u blk=%" PRId64 " off=%" PRIu64 " pool=%u pool_granularity=%u", h, b->serial, off, b->pool, b->pool_granularity);
      if (r.rw - b->rw_base != r.rx - b->rx_base) {
        emit("alias-mismatch", "h=%u blk=%" PRId64 " rx_off=%" PRIu64 " rw_off=%" PRId64, h, b->serial, off, int64_t(r.rw - b->rw_base));
        r.no_touch = true; v.no_touch = true;
      }
    }

    // Overlap with other live spans (rx view, then rw view).
    {
      r.rx_it = _rx_map.insert(std::make_pair(r.rx, h)); r.in_rx_map = true;
      int64_t other = neighbour_overlap(_rx_map, r.rx_it, r.rx, size, false);
      if (other >= 0) {
        const Rec& o = _recs[size_t(other)];
        emit("span-overlap", "view=rx h=%u blk=%" PRId64 " off=%" PRId64 " len=%" PRIu64 " other_h=%" PRId64 " other_blk=%" PRId64 " other_delta=%" PRId64 " other_len=%" PRIu64,
             h, r.blk, b ? int64_t(r.rx - b->rx_base) : int64_t(-1), uint64_t(size), other, o.blk, int64_t(o.rx - r.rx), uint64_t(o.size));
        r.no_touch = true; v.no_touch = true;
      }
      if (r.rw != r.rx) {
        r.rw_it = _rw_map.insert(std::make_pair(r.rw, h)); r.in_rw_map = true;
        int64_t other2 = neighbour_overlap(_rw_map, r.rw_it, r.rw, size, true);
        if (other2 >= 0) {
          emit("span-overlap", "view=rw h=%u blk=%" PRId64 " len=%" PRIu64 " other_h=%" PRId64, h, r.blk, uint64_t(size), other2);
          r.no_touch = true; v.no_touch = true;
        }
      }
    }

    // Is the memory really there?
    if (size) {
      int64_t bad = first_unmapped(r.rx, size);
      const char* view = "rx";
      if (bad < 0 && r.rw != r.rx) { bad = first_unmapped(r.rw, size); view = "rw"; }
      if (bad >= 0) {
        emit("span-unmapped", "h=%u view=%s blk=%" PRId64 " len=%" PRIu64 " first_unmapped_page_off=%" PRId64, h, view, r.blk, uint64_t(size), bad);
        r.no_touch = true; v.no_touch = true; v.poison = true;
      }
    }

    // Was a new block really necessary?
    if (!_new_serials.empty() && b && is_new(b->serial)) {
      uint32_t pg = b->pool_granularity ? b->pool_granularity : 1;
      for (const MBlock& ob : _before) {
        if (ob.pool != b->pool) continue;
        int64_t gap = find_gap(ob, size, pg);
        if (gap >= 0) {
          emit("reuse-failed", "h=%u len=%" PRIu64 " new_blk=%" PRId64 " pool=%u blk=%" PRId64 " gap_off=%" PRId64, h, uint64_t(size), b->serial, b->pool, ob.serial, gap);
          break;
        }
      }
    }

    // A new block must be filled (everything except the fresh span).
    if ((_opt & kOptFill) && !v.poison) {
      for (int64_t s : _new_serials) {
        MBlock* nbk = find_serial(s);
        if (!nbk) continue;
        uintptr_t lo = nbk->rx_base, hi = nbk->rx_base + nbk->bytes;
        uintptr_t slo = std::min(std::max(r.rx, lo), hi), shi = std::min(std::max(r.rx + size, lo), hi);
        if (r.blk != s) { slo = shi = hi; }
        bool ok = check_fill(*nbk, lo, slo, "new-block");
        if (ok) check_fill(*nbk, shi, hi, "new-block");
      }
    }

    // An alloc can only lower the number of empty blocks; keep the "previous" counters in sync.
    if (b && (b->live_count == 1 || !_new_serials.empty())) note_empties_after_alloc();

    if (v.poison) poisoned = true;
    return v;
  }

  // ---- content ------------------------------------------------------------------------------------------------------

  // The harness has just written pattern(seed) over the whole span (bytes in `expect`); read back through rx.
  void on_write(uint32_t h, uint64_t seed, const uint8_t* expect) {
    if (h >= _recs.size()) return;
    Rec& r = _recs[h];
    if (!r.live || r.no_touch) return;
    r.seed = seed; r.has_pattern = true;
    const uint8_t* p = reinterpret_cast<const uint8_t*>(r.rx);
    if (memcmp(p, expect, r.size) != 0) {
      size_t i = 0; while (i < r.size && p[i] == expect[i]) i++;
      emit("alias-mismatch", "h=%u blk=%" PRId64 " len=%" PRIu64 " first_diff=%" PRIu64 " (written through rw, read through rx)", h, r.blk, uint64_t(r.size), uint64_t(i));
    }
  }

  bool check_content(uint32_t h, size_t n, const char* when) {
    Rec& r = _recs[h];
    if (!r.live || r.no_touch || !r.has_pattern) return true;
    if (n > r.size) n = r.size;
    int64_t d = c09_pattern_check(reinterpret_cast<const uint8_t*>(r.rx), n, r.seed);
    if (d >= 0) {
      const MBlock* b = find_serial(r.blk);
      emit("content-corrupt", "h=%u blk=%" PRId64 " off=%" PRId64 " len=%" PRIu64 " first_diff=%" PRId64 " when=%s", h, r.blk,
           b ? int64_t(r.rx - b->rx_base) : int64_t(-1), uint64_t(r.size), d, when);
      r.has_pattern = false;   // report once; a later W re-arms the check
      return false;
    }
    return true;
  }

  void check_all_content(const char* when) {
    if (poisoned) return;
    for (auto it = _rx_map.begin(); it != _rx_map.end(); ++it) check_content(it->second, SIZE_MAX, when);
  }

  // Called once per op (after the op was executed).
  void tick() { if (_op && (_op % 64) == 0) check_all_content("periodic"); }

  void final_check() { check_all_content("final"); }

  // ---- release ------------------------------------------------------------------------------------------------------

  void pre_release(uint32_t h) { if (h < _recs.size() && !poisoned) check_content(h, SIZE_MAX, "before-release"); }

  // The span of `h` has been released successfully.
  void on_release(uint32_t h, const std::vector<C09Block>* nb) {
    if (h >= _recs.size() || !_recs[h].live) { if (nb) set_blocks(*nb); return; }
    Rec& r = _recs[h];
    uintptr_t rx = r.rx; size_t size = r.size; int64_t blk = r.blk;
    drop(h);
    if (nb) set_blocks(*nb);
    if ((_opt & kOptFill) && !r.no_touch) {
      MBlock* b = find_serial(blk);
      if (b) {
        uintptr_t lo = std::max(rx, b->rx_base), hi = std::min(rx + size, b->rx_base + b->bytes);
        if (lo < hi) check_fill(*b, lo, hi, "released");
      }
    }
    check_empties(false);
  }

  // ---- shrink -------------------------------------------------------------------------------------------------------

  void pre_shrink(uint32_t h) { if (h < _recs.size() && !poisoned) check_content(h, SIZE_MAX, "before-shrink"); }

  // shrink(span[h], requested) with requested != 0 returned `ok`; the span's size is now `new_size`.
  void on_shrink(uint32_t h, bool ok, size_t new_size, size_t requested, const std::vector<C09Block>* nb) {
    if (nb) set_blocks(*nb);
    if (h >= _recs.size() || !_recs[h].live) return;
    Rec& r = _recs[h];
    size_t old_size = r.size;
    if (!ok) {
      if (new_size != old_size) emit("span-too-small", "h=%u failed shrink changed len %" PRIu64 " -> %" PRIu64, h, uint64_t(old_size), uint64_t(new_size));
      return;
    }
    if (new_size < requested || new_size > old_size || (_g0 && (new_size % _g0)) || new_size == 0)
      emit("span-too-small", "h=%u shrink len=%" PRIu64 " requested=%" PRIu64 " old_len=%" PRIu64 " g0=%u", h, uint64_t(new_size), uint64_t(requested), uint64_t(old_size), _g0);
    if (new_size > old_size) {
      // Never trust a grown span: bytes past the old end were never ours.
      r.no_touch = true;
    }
    _live_bytes -= old_size; _live_bytes += new_size;
    r.size = new_size;
    if (new_size < r.requested) r.requested = new_size;
    if (!poisoned) check_content(h, std::min(new_size, old_size), "after-shrink");
    if ((_opt & kOptFill) && !r.no_touch && new_size < old_size) {
      MBlock* b = find_serial(r.blk);
      if (b) {
        uintptr_t lo = std::max(r.rx + new_size, b->rx_base), hi = std::min(r.rx + old_size, b->rx_base + b->bytes);
        if (lo < hi) check_fill(*b, lo, hi, "shrunk");
      }
    }
    check_empties(false);
  }

  // ---- reset --------------------------------------------------------------------------------------------------------

  void on_reset(const std::vector<C09Block>* nb) {
    for (Rec& r : _recs) { r.live = false; r.in_rx_map = r.in_rw_map = false; }
    _rx_map.clear(); _rw_map.clear();
    _live_n = 0; _live_bytes = 0;
    for (MBlock& b : _blocks) b.live_count = 0;
    if (nb) set_blocks(*nb);
    if (_opt & kOptFill) {
      for (MBlock& b : _blocks) check_fill(b, b.rx_base, b.rx_base + b.bytes, "after-reset");
    }
    check_empties(true);
  }

  // ---- query / foreign ----------------------------------------------------------------------------------------------

  void on_query(const void* ptr_, bool ok, const void* rx_, const void* rw_, size_t size) {
    uintptr_t ptr = uintptr_t(ptr_), rx = uintptr_t(rx_), rw = uintptr_t(rw_);
    if (ok) {
      const MBlock* b = find_block(rx);
      if (b && rw - b->rw_base != rx - b->rx_base)
        emit("alias-mismatch", "query blk=%" PRId64 " rx_off=%" PRIu64 " rw_off=%" PRId64, b->serial, uint64_t(rx - b->rx_base), int64_t(rw - b->rw_base));
    }
    // The start of a live span must be reported exactly.
    auto range = _rx_map.equal_range(ptr);
    for (auto it = range.first; it != range.second; ++it) {
      const Rec& r = _recs[it->second];
      if (!r.live) continue;
      if (!ok)
        emit("query-mismatch", "h=%u blk=%" PRId64 " len=%" PRIu64 " query(start of live span) failed", it->second, r.blk, uint64_t(r.size));
      else if (rx != r.rx || rw != r.rw || size != r.size)
        emit("query-mismatch", "h=%u blk=%" PRId64 " len=%" PRIu64 " got rx_delta=%" PRId64 " rw_delta=%" PRId64 " len=%" PRIu64, it->second, r.blk, uint64_t(r.size),
             int64_t(rx - r.rx), int64_t(rw - r.rw), uint64_t(size));
      break;
    }
  }

  // A finding made by the harness itself (it may look at internals, the monitor does not).
  void report(const char* key, const char* text, bool poison) { emit(key, "%s", text); if (poison) poisoned = true; }

  void on_foreign(unsigned k, bool ok) { if (ok) emit("foreign-accepted", "k=%u returned ok", k); }

  // ---- statistics ---------------------------------------------------------------------------------------------------

  void on_stats(uint64_t blocks, uint64_t allocs, uint64_t used, uint64_t reserved, bool after_reset) {
    uint64_t exp_blocks = _blocks.size(), exp_allocs = _live_n, exp_used = uint64_t(_live_bytes) + _pad_sum, exp_reserved = _bytes_sum;
    int64_t d[4] = { int64_t(blocks - exp_blocks), int64_t(allocs - exp_allocs), int64_t(used - exp_used), int64_t(reserved - exp_reserved) };
    bool nonzero = d[0] || d[1] || d[2] || d[3];
    bool changed = d[0] != _last_delta[0] || d[1] != _last_delta[1] || d[2] != _last_delta[2] || d[3] != _last_delta[3];
    if (after_reset) {
      if (d[1] || d[2])
        emit("reset-accounting", "allocs=%" PRIu64 " expected=0 used=%" PRIu64 " expected_used=%" PRIu64, allocs, used, exp_used);
      if (d[0] || d[3])
        emit("stats-mismatch", "after reset: blocks=%" PRIu64 "/%" PRIu64 " reserved=%" PRIu64 "/%" PRIu64 " (actual/expected)", blocks, exp_blocks, reserved, exp_reserved);
    }
    else if (nonzero && changed) {
      emit("stats-mismatch", "blocks=%" PRIu64 "/%" PRIu64 " allocs=%" PRIu64 "/%" PRIu64 " used=%" PRIu64 "/%" PRIu64 " reserved=%" PRIu64 "/%" PRIu64 " (actual/expected)",
           blocks, exp_blocks, allocs, exp_allocs, used, exp_used, reserved, exp_reserved);
    }
    for (int i = 0; i < 4; i++) _last_delta[i] = d[i];
  }

  // ---- block table --------------------------------------------------------------------------------------------------

  void set_blocks(const std::vector<C09Block>& nb) {
    _before.swap(_blocks);
    _blocks.clear();
    _new_serials.clear();
    _blocks.reserve(nb.size());
    _pad_sum = 0; _bytes_sum = 0;
    for (const C09Block& b : nb) {
      MBlock m; static_cast<C09Block&>(m) = b; m.live_count = 0;
      const MBlock* old = nullptr;
      for (const MBlock& ob : _before) if (ob.serial == b.serial) { old = &ob; break; }
      if (old) m.live_count = old->live_count; else _new_serials.push_back(b.serial);
      _blocks.push_back(m);
      _pad_sum += b.has_padding ? b.pool_granularity : 0;
      _bytes_sum += b.bytes;
    }
    std::sort(_blocks.begin(), _blocks.end(), [](const MBlock& a, const MBlock& b) { return a.rx_base < b.rx_base; });
    // A block that vanished while it still held live spans: those spans now point into unmapped memory.
    for (const MBlock& ob : _before) {
      if (!ob.live_count) continue;
      bool still = false;
      for (const MBlock& b : _blocks) if (b.serial == ob.serial) { still = true; break; }
      if (still) continue;
      size_t n = 0; int64_t first = -1;
      for (size_t h = 0; h < _recs.size(); h++) {
        Rec& r = _recs[h];
        if (r.live && r.blk == ob.serial) { r.no_touch = true; n++; if (first < 0) first = int64_t(h); }
      }
      emit("span-unmapped", "blk=%" PRId64 " was deleted while %" PRIu64 " live span(s) are inside, first h=%" PRId64, ob.serial, uint64_t(n), first);
      poisoned = true;
    }
  }

  size_t live_count() const { return _live_n; }

private:
  uint64_t _hist = 0, _op = 0;
  uint32_t _opt = 0, _fill = 0, _g0 = 0;
  size_t _page = 4096;
  std::vector<Rec> _recs;
  std::multimap<uintptr_t, uint32_t> _rx_map, _rw_map;
  std::vector<MBlock> _blocks, _before;     // sorted by rx_base
  std::vector<int64_t> _new_serials;        // blocks created by the current op
  size_t _live_n = 0, _live_bytes = 0;
  uint64_t _pad_sum = 0, _bytes_sum = 0;
  std::vector<size_t> _empties_prev;        // per pool
  int64_t _last_delta[4] = { 0, 0, 0, 0 };

  __attribute__((format(printf, 3, 4)))
  void emit(const char* key, const char* fmt, ...) {
    char buf[640];
    int n = snprintf(buf, sizeof(buf), "!V %s hist=%" PRIu64 " op=%" PRIu64 " ", key, _hist, _op);
    va_list ap; va_start(ap, fmt);
    vsnprintf(buf + n, sizeof(buf) - size_t(n), fmt, ap);
    va_end(ap);
    pending.emplace_back(buf);
  }

  bool is_new(int64_t serial) const { for (int64_t s : _new_serials) if (s == serial) return true; return false; }

  MBlock* find_block(uintptr_t a) {
    size_t lo = 0, hi = _blocks.size();
    while (lo < hi) { size_t mid = (lo + hi) / 2; if (_blocks[mid].rx_base <= a) lo = mid + 1; else hi = mid; }
    if (!lo) return nullptr;
    MBlock& b = _blocks[lo - 1];
    return (a - b.rx_base < b.bytes) ? &b : nullptr;
  }

  MBlock* find_serial(int64_t s) { for (MBlock& b : _blocks) if (b.serial == s) return &b; return nullptr; }

  void drop(uint32_t h) {
    Rec& r = _recs[h];
    if (r.in_rx_map) { _rx_map.erase(r.rx_it); r.in_rx_map = false; }
    if (r.in_rw_map) { _rw_map.erase(r.rw_it); r.in_rw_map = false; }
    r.live = false;
    _live_n--; _live_bytes -= r.size;
    MBlock* b = find_serial(r.blk);
    if (b && b->live_count) b->live_count--;
  }

  // Overlap of [a, a+n) (already inserted at `it`) with its neighbours in `m`. Returns the other handle or -1.
  int64_t neighbour_overlap(std::multimap<uintptr_t, uint32_t>& m, std::multimap<uintptr_t, uint32_t>::iterator it, uintptr_t a, size_t n, bool rw_view) {
    if (it != m.begin()) {
      auto p = std::prev(it);
      const Rec& o = _recs[p->second];
      uintptr_t oa = rw_view ? o.rw : o.rx;
      if (oa + o.size > a) return int64_t(p->second);
    }
    auto nx = std::next(it);
    if (nx != m.end()) {
      const Rec& o = _recs[nx->second];
      uintptr_t oa = rw_view ? o.rw : o.rx;
      if (oa < a + n) return int64_t(nx->second);
    }
    return -1;
  }

  // Byte offset (from `a`) of the first page of [a, a+n) that is not mapped, or -1.
  int64_t first_unmapped(uintptr_t a, size_t n) {
    uintptr_t lo = a & ~uintptr_t(_page - 1);
    uintptr_t hi = (a + n + _page - 1) & ~uintptr_t(_page - 1);
    if (msync(reinterpret_cast<void*>(lo), hi - lo, MS_ASYNC) == 0) return -1;
    if (errno != ENOMEM) return -1;
    for (uintptr_t p = lo; p < hi; p += _page) {
      if (msync(reinterpret_cast<void*>(p), _page, MS_ASYNC) != 0 && errno == ENOMEM)
        return p <= a ? 0 : int64_t(p - a);
    }
    return -1;
  }

  // A gap of at least `len` bytes (aligned to `pg`) between the live spans of block `b`; returns its offset or -1.
  int64_t find_gap(const MBlock& b, size_t len, uint32_t pg) {
    uintptr_t end = b.rx_base + b.bytes;
    uintptr_t cur = b.rx_base + (b.has_padding ? b.pool_granularity : 0);
    for (auto it = _rx_map.lower_bound(b.rx_base); it != _rx_map.end() && it->first < end; ++it) {
      const Rec& r = _recs[it->second];
      if (r.rx > cur && r.rx - cur >= len) return int64_t(cur - b.rx_base);
      uintptr_t e = r.rx + r.size;
      e = (e - b.rx_base + pg - 1) / pg * pg + b.rx_base;
      if (e > cur) cur = e;
    }
    // A span that starts before the block but reaches into it is ignored (it is reported elsewhere).
    if (cur < end && end - cur >= len) return int64_t(cur - b.rx_base);
    return -1;
  }

  // Every byte of [lo, hi) (inside block b) must equal the fill pattern (little-endian, aligned to 4-byte addresses).
  bool check_fill(const MBlock& b, uintptr_t lo, uintptr_t hi, const char* what) {
    if (lo >= hi) return true;
    const uint8_t* p = reinterpret_cast<const uint8_t*>(lo);
    size_t n = hi - lo, i = 0;
    uint8_t pat[4] = { uint8_t(_fill), uint8_t(_fill >> 8), uint8_t(_fill >> 16), uint8_t(_fill >> 24) };
    int64_t bad = -1;
    for (; i < n && ((lo + i) & 3); i++) if (p[i] != pat[(lo + i) & 3]) { bad = int64_t(i); break; }
    if (bad < 0) {
      uint32_t w; memcpy(&w, pat, 4);
      for (; i + 4 <= n; i += 4) { uint32_t m; memcpy(&m, p + i, 4); if (m != w) { for (size_t k = 0; k < 4; k++) if (p[i + k] != pat[k]) { bad = int64_t(i + k); break; } break; } }
    }
    if (bad < 0) for (; i < n; i++) if (p[i] != pat[(lo + i) & 3]) { bad = int64_t(i); break; }
    if (bad < 0) return true;
    emit("fill-missing", "%s blk=%" PRId64 " range_off=%" PRIu64 " range_len=%" PRIu64 " first_bad_off=%" PRIu64 " got=%u want=%u", what, b.serial,
         uint64_t(lo - b.rx_base), uint64_t(n), uint64_t(lo - b.rx_base) + uint64_t(bad), unsigned(p[bad]), unsigned(pat[(lo + size_t(bad)) & 3]));
    return false;
  }

  // Blocks without any live span, per pool. Reported when the count exceeds the policy and grew (always after a reset).
  void check_empties(bool after_reset) {
    std::vector<size_t> cnt;
    for (const MBlock& b : _blocks) {
      if (cnt.size() <= b.pool) cnt.resize(size_t(b.pool) + 1, 0);
      if (!b.live_count) cnt[b.pool]++;
    }
    size_t allowed = (_opt & kOptImmediateRelease) ? 0 : 1;
    for (size_t p = 0; p < cnt.size(); p++) {
      size_t prev = p < _empties_prev.size() ? _empties_prev[p] : 0;
      if (cnt[p] > allowed && (after_reset || cnt[p] > prev))
        emit("empty-blocks-retained", "pool=%" PRIu64 " count=%" PRIu64 " allowed=%" PRIu64, uint64_t(p), uint64_t(cnt[p]), uint64_t(allowed));
    }
    _empties_prev.swap(cnt);
  }

public:
  // After an alloc the number of empty blocks can only go down; keep the "previous" counters in sync.
  void note_empties_after_alloc() {
    std::vector<size_t> cnt;
    for (const MBlock& b : _blocks) {
      if (cnt.size() <= b.pool) cnt.resize(size_t(b.pool) + 1, 0);
      if (!b.live_count) cnt[b.pool]++;
    }
    _empties_prev.swap(cnt);
  }
};

#endif // C09_MONITOR_H_INCLUDED

// C14 translator (C++ part): prints the lookup tables of the x86 / AArch64 assemblers that are indexed by operand
// fields, their lengths (sizeof), the maximal value of every index expression (derived from the operand-signature field
// masks of the headers) and the data-driven indices of the instruction tables.  Compiled twice:
//   -DDUMP_X86 : #includes x86assembler.cpp, x86instapi.cpp, x86instdb.cpp (file-static tables, array sizes)
//   -DDUMP_A64 : #includes a64assembler.cpp
// Output: lines  "table <name> <len> v..." | "const <name> <value>" | "rows <name> <n> a:b:c ..."
#include <asmjit/core.h>
#include <cstdio>
#include <cstdint>

#ifdef DUMP_X86
#include <asmjit/x86/x86instdb.cpp>
#include <asmjit/x86/x86instapi.cpp>
#include <asmjit/x86/x86assembler.cpp>
#endif
#ifdef DUMP_A64
#include <asmjit/arm/a64assembler.cpp>
#endif

using namespace asmjit;

template<typename T, size_t N>
static void dump_table(const char* name, const T (&t)[N]) {
  printf("table %s %zu", name, N);
  for (size_t i = 0; i < N; i++) printf(" %llu", (unsigned long long)t[i]);
  printf("\n");
}
static void dump_const(const char* name, unsigned long long v) { printf("const %s %llu\n", name, v); }

int main() {
  typedef OperandSignature S;
  dump_const("reg_type_max", S::kRegTypeMask >> S::kRegTypeShift);
  dump_const("mem_base_type_max", S::kMemBaseTypeMask >> S::kMemBaseTypeShift);
  dump_const("mem_index_type_max", S::kMemIndexTypeMask >> S::kMemIndexTypeShift);
  dump_const("mem_base_and_index_types_max", (S::kMemBaseTypeMask | S::kMemIndexTypeMask) >> S::kMemBaseTypeShift);
  dump_const("size_max", S::kSizeMask >> S::kSizeShift);
  dump_const("predicate_max", S::kPredicateMask >> S::kPredicateShift);
  dump_const("reg_type_max_value", uint32_t(RegType::kMaxValue));
#ifdef DUMP_X86
  using namespace asmjit::x86;
  dump_table("mem_info_table", mem_info_table);
  dump_table("ll_by_reg_type_table", ll_by_reg_type_table);
  dump_table("ll_by_size_div_16_table", ll_by_size_div_16_table);
  dump_table("segment_prefix_table", segment_prefix_table);
  dump_table("opcode_push_sreg_table", opcode_push_sreg_table);
  dump_table("opcode_pop_sreg_table", opcode_pop_sreg_table);
  dump_table("opcode_pp_table", opcode_pp_table);
  { printf("table opcode_mm_table %zu", sizeof(opcode_mm_table) / sizeof(opcode_mm_table[0]));
    for (size_t i = 0; i < sizeof(opcode_mm_table) / sizeof(opcode_mm_table[0]); i++) printf(" %u", unsigned(opcode_mm_table[i].size));
    printf("\n"); }
  dump_table("vex_prefix_table", vex_prefix_table);
  dump_table("cdisp8_shl_table", cdisp8_shl_table);
  dump_table("mod16_base_table", mod16_base_table);
  dump_table("mod16_base_index_table", mod16_base_index_table);
  dump_table("main_opcode_table", InstDB::main_opcode_table);
  dump_table("alt_opcode_table", InstDB::alt_opcode_table);
  dump_table("allowed_reg_mask_x86", InstInternal::x86_validation_data.allowed_reg_mask);
  dump_table("allowed_reg_mask_x64", InstInternal::x64_validation_data.allowed_reg_mask);
  dump_const("allowed_mem_base_regs_x86", InstInternal::x86_validation_data.allowed_mem_base_regs);
  dump_const("allowed_mem_index_regs_x86", InstInternal::x86_validation_data.allowed_mem_index_regs);
  dump_const("allowed_mem_base_regs_x64", InstInternal::x64_validation_data.allowed_mem_base_regs);
  dump_const("allowed_mem_index_regs_x64", InstInternal::x64_validation_data.allowed_mem_index_regs);
  dump_const("mem_segment_max", Mem::kSignatureMemSegmentMask >> Mem::kSignatureMemSegmentShift);
  dump_const("mem_shift_max", Mem::kSignatureMemShiftValueMask >> Mem::kSignatureMemShiftValueShift);
  dump_const("validator_max_segment", 6);   // x86instapi.cpp: `if (m.segment_id() > 6) return kInvalidSegment` (checked textually by the python part)
  dump_const("sreg_id_count", SReg::kIdCount);
  dump_const("pp_index_max", Opcode::kPP_FPUMask >> Opcode::kPP_Shift);
  dump_const("mm_index_max", Opcode::kMM_Mask >> Opcode::kMM_Shift);
  dump_const("mm_shift", Opcode::kMM_Shift);
  dump_const("encoding_fpu_first", InstDB::kEncodingFpuOp);    // x87: opcodes are rebuilt from constants (two-byte FPU form), not looked up through mm
  dump_const("encoding_ext_first", InstDB::kEncodingExtRm);
  dump_const("encoding_vex_first", InstDB::kEncodingVexOp);   // every encoding from here on is emitted by EmitVex*/EmitAmx* (checked textually by the python part)
  { const InstDB::InstInfo& gi = InstDB::_inst_info_table[Inst::kIdVgatherdps];   // the gather instruction of the VEX/EVEX + VSIB path model
    dump_const("vgatherdps_id", Inst::kIdVgatherdps);
    dump_const("vgatherdps_has_vex", uint32_t(gi.common_info().has_flag(InstDB::InstFlags::kVex)));
    dump_const("vgatherdps_prefer_evex", uint32_t(gi.common_info().prefer_evex()));
    dump_const("vgatherdps_vsib", uint32_t(gi.common_info().has_flag(InstDB::InstFlags::kVsib))); }
  { const InstDB::InstInfo& ai = InstDB::_inst_info_table[Inst::kIdVaddps];   // the three-register instruction of the VEX/EVEX register-path model
    dump_const("vaddps_id", Inst::kIdVaddps);
    dump_const("vaddps_encoding_is_rvm_lx", uint32_t(ai._encoding == InstDB::kEncodingVexRvm_Lx));
    dump_const("vaddps_has_vex", uint32_t(ai.common_info().has_flag(InstDB::InstFlags::kVex)));
    dump_const("vaddps_has_evex", uint32_t(ai.common_info().has_flag(InstDB::InstFlags::kEvex)));
    dump_const("vaddps_prefer_evex", uint32_t(ai.common_info().prefer_evex())); }
  dump_const("vvvvv_shift", kVexVVVVVShift);
  dump_const("cdshl_shift", Opcode::kCDSHL_Shift);
  dump_const("cdshl_mask", Opcode::kCDSHL_Mask);
  dump_const("cdtt_shift", Opcode::kCDTT_Shift);
  dump_const("w_shift", Opcode::kW_Shift);
  dump_const("ll_mask", Opcode::kLL_Mask);
  dump_const("mm_mask", Opcode::kMM_Mask);
  dump_const("reg_type_mask", uint32_t(RegType::kMask));
  dump_const("id_shl", Inst::kIdShl); dump_const("id_push", Inst::kIdPush); dump_const("id_pop", Inst::kIdPop); dump_const("id_add", Inst::kIdAdd); dump_const("id_mov", Inst::kIdMov);   // ids used by the non-vacuity examples
  dump_const("encoding_x86_rot", InstDB::kEncodingX86Rot);
  dump_const("encoding_x86_arith", InstDB::kEncodingX86Arith);
  dump_const("pp_shift", Opcode::kPP_Shift);
  dump_const("rex_shift", Opcode::kREX_Shift);
  dump_const("opcode_w", Opcode::kW);
  dump_const("opcode_pp_66", Opcode::kPP_66);
  dump_const("opt_rex", uint32_t(InstOptions::kX86_Rex));
  dump_const("opt_invalid_rex", uint32_t(InstOptions::kX86_InvalidRex));
  dump_const("byte_invalid_rex", kX86ByteInvalidRex);
  dump_const("reg_type_gp8hi", uint32_t(RegType::kGp8Hi));
  dump_const("inst_id_count", Inst::_kIdCount);
  dump_const("inst_info_table_len", sizeof(InstDB::_inst_info_table) / sizeof(InstDB::_inst_info_table[0]));
  dump_const("common_info_table_len", sizeof(InstDB::_inst_common_info_table) / sizeof(InstDB::_inst_common_info_table[0]));
  dump_const("inst_signature_table_len", sizeof(InstDB::_inst_signature_table) / sizeof(InstDB::_inst_signature_table[0]));
  dump_const("op_signature_table_len", sizeof(InstDB::_op_signature_table) / sizeof(InstDB::_op_signature_table[0]));
  { size_t n = sizeof(InstDB::_inst_info_table) / sizeof(InstDB::_inst_info_table[0]);
    printf("rows x86_inst %zu", n);
    for (size_t i = 0; i < n; i++) {
      const InstDB::InstInfo& ii = InstDB::_inst_info_table[i];
      printf(" %u:%u:%u:%u", unsigned(ii._main_opcode_index), unsigned(ii._alt_opcode_index), unsigned(ii._common_info_index), unsigned(ii._encoding));
    }
    printf("\n"); }
  { size_t n = sizeof(InstDB::_inst_common_info_table) / sizeof(InstDB::_inst_common_info_table[0]);
    printf("rows x86_common %zu", n);
    for (size_t i = 0; i < n; i++) {
      const InstDB::CommonInfo& ci = InstDB::_inst_common_info_table[i];
      printf(" %u:%u", unsigned(ci._inst_signature_index), unsigned(ci._inst_signature_count));
    }
    printf("\n"); }
  { size_t n = sizeof(InstDB::_inst_signature_table) / sizeof(InstDB::_inst_signature_table[0]);
    printf("rows x86_isig %zu", n);
    for (size_t i = 0; i < n; i++) {
      const InstDB::InstSignature& is = InstDB::_inst_signature_table[i];
      unsigned mx = 0;
      for (unsigned k = 0; k < Globals::kMaxOpCount; k++) if (is._op_signature_indexes[k] > mx) mx = is._op_signature_indexes[k];
      printf(" %u:%u", unsigned(is._op_count), mx);
    }
    printf("\n"); }
#endif
#ifdef DUMP_A64
  using namespace asmjit::a64;
  { printf("table common_hi_reg_id_of_type_table %zu", size_t(common_hi_reg_id_of_type_table.size()));
    for (size_t i = 0; i < common_hi_reg_id_of_type_table.size(); i++) printf(" %u", unsigned(common_hi_reg_id_of_type_table[i]));
    printf("\n"); }
  dump_table("shift_op_to_ld_st_opt_map", shift_op_to_ld_st_opt_map);
  dump_const("size_op_table_count", sizeof(size_op_table) / sizeof(size_op_table[0]));
  dump_const("size_op_array_len", sizeof(size_op_table[0].array) / sizeof(size_op_table[0].array[0]));
  { size_t n = sizeof(size_op_map) / sizeof(size_op_map[0]);
    printf("table size_op_map_table_id %zu", n);
    for (size_t i = 0; i < n; i++) printf(" %u", unsigned(size_op_map[i].table_id));
    printf("\n"); }
  dump_const("vo_count", InstDB::kVO_Count);
  dump_const("reg_type_vec8", uint32_t(RegType::kVec8));
  dump_const("reg_type_vec128", uint32_t(RegType::kVec128));
  dump_const("element_type_max", Vec::kSignatureRegElementTypeMask >> Vec::kSignatureRegElementTypeShift);
  dump_const("inst_id_count", Inst::_kIdCount);
  { size_t n = Inst::_kIdCount;
    printf("rows a64_inst %zu", n);
    for (size_t i = 0; i < n; i++) {
      const InstDB::InstInfo& ii = InstDB::_inst_info_table[i];
      printf(" %u:%u", unsigned(ii._encoding), unsigned(ii._encoding_data_index));
    }
    printf("\n"); }
  // load / store addressing path (kEncodingBaseLdSt with its ldur/stur fallback kEncodingBaseRM_SImm9)
  { size_t n = Inst::_kIdCount;
    printf("table inst_encoding %zu", n);
    for (size_t i = 0; i < n; i++) printf(" %u", unsigned(InstDB::_inst_info_table[i]._encoding));
    printf("\ntable inst_encoding_data_index %zu", n);
    for (size_t i = 0; i < n; i++) printf(" %u", unsigned(InstDB::_inst_info_table[i]._encoding_data_index));
    printf("\n"); }
#define DUMP_FIELD(NAME, TABLE, EXPR) { size_t n = sizeof(InstDB::EncodingData::TABLE) / sizeof(InstDB::EncodingData::TABLE[0]); \
    printf("table " NAME " %zu", n); for (size_t i = 0; i < n; i++) { const auto& r = InstDB::EncodingData::TABLE[i]; printf(" %u", unsigned(EXPR)); } printf("\n"); }
  DUMP_FIELD("ldst_reg_type", baseLdSt, r.reg_type)
  DUMP_FIELD("ldst_u_offset_shift", baseLdSt, r.u_offset_shift)
  DUMP_FIELD("ldst_literal_op", baseLdSt, r.literal_op)
  DUMP_FIELD("ldst_u_alt_inst_id", baseLdSt, r.u_alt_inst_id)
  DUMP_FIELD("simm9_reg_type", baseRM_SImm9, r.reg_type)
  DUMP_FIELD("simm9_reg_hi_id", baseRM_SImm9, r.reg_hi_id)
  DUMP_FIELD("simm9_imm_shift", baseRM_SImm9, r.imm_shift)
  DUMP_FIELD("simm9_pre_post_op", baseRM_SImm9, r.pre_post_op())
  DUMP_FIELD("ldpstp_reg_type", baseLdpStp, r.reg_type)
  DUMP_FIELD("ldpstp_offset_shift", baseLdpStp, r.offset_shift)
  DUMP_FIELD("ldpstp_pre_post_op", baseLdpStp, r.pre_post_op)
  DUMP_FIELD("simdldst_literal_op", simdLdSt, r.literal_op)
  DUMP_FIELD("simdldst_u_alt_inst_id", simdLdSt, r.u_alt_inst_id)
  DUMP_FIELD("simdldur_opcode", simdLdurStur, r.opcode)
#undef DUMP_FIELD
  dump_const("id_ldr", Inst::kIdLdr); dump_const("id_str", Inst::kIdStr); dump_const("id_ldp", Inst::kIdLdp); dump_const("id_ldrb", Inst::kIdLdrb);   // ids used by the non-vacuity examples
  dump_const("encoding_base_ldst", InstDB::kEncodingBaseLdSt);
  dump_const("encoding_base_rm_simm9", InstDB::kEncodingBaseRM_SImm9);
  dump_const("encoding_base_ldpstp", InstDB::kEncodingBaseLdpStp);
  dump_const("encoding_simd_ldst", InstDB::kEncodingSimdLdSt);
  dump_const("id_ldr_v", Inst::kIdLdr_v); dump_const("id_str_v", Inst::kIdStr_v);
  dump_const("reg_type_label_tag", uint32_t(RegType::kLabelTag));
  dump_const("reg_type_gp32", uint32_t(RegType::kGp32));
  dump_const("reg_type_gp64", uint32_t(RegType::kGp64));
  dump_const("id_zr", Gp::kIdZr);
  dump_const("zr", kZR);
  dump_const("mem_shift_op_max", Mem::kSignatureMemShiftOpMask >> Mem::kSignatureMemShiftOpShift);
  dump_const("mem_shift_value_max", Mem::kSignatureMemShiftValueMask >> Mem::kSignatureMemShiftValueShift);
#endif
  return 0;
}

// C08 correspondence harness: the SAME emitter-call program is issued to an Assembler (reference), a Builder and a Compiler
// (physical registers only) of /repo's working tree; node lists are dumped for the node-list differential with the extracted
// Coq model (coq/theories/Builder/BuilderModel.v) and final images are printed for the implementation-vs-implementation oracle.
//
// usage:  c08_harness catalog                 -> numeric enum values, type-size table, instruction forms (input of the generator)
//         c08_harness run [-v] < programs     -> per program canonical answer lines (see tools/checks/c08.py)
//
// Program text (one command per line, decimal numbers, byte strings as hex, "-" = null pointer, "=" = empty string):
//   P <program index> <arch 0=x86 1=x64 2=a64> <base1> <base2> <flags bit0=pure(R1 meaningful) bit1=function program (Compiler vs Assembler)
//                                                 bit2=strict validation (kValidateIntermediate on Builder/Compiler, kValidateAssembler on the Assemblers)>
//   NL | NS <name> <align>                       new_label / new_section (all holders)
//   SO <opts> | AO <opts> | SX <sig> <id> | SC <hex>      one-shot emitter state
//   I <inst_id> <n> (<sig> <id> <d0> <d1>)*n     _emit with operands 0..n-1 (others none)
//   B <l> | A <mode> <n> | E <hex> | EA <type> <count> <repeat> <hex> | EL <l> <size> | ED <l> <base> <size>
//   CP <l> <align> <itemsize> <hex> | CM <hex> | S <section id>
//   NC <scope> <hex8> | JA <labels..> | IJ <inst> <annotation> <op> | IV <inst> 0 <op>     Compiler: _new_const / jump annotation / annotated jump / invoke
//   FN | FR | FE                                 Compiler: add_func(void()) / ret() / end_func(); reference: labels + emit_prolog/emit_epilog(frame)
//   SN <type>                                    Builder/Compiler: new_node_t<SentinelNode> + add_node; Assembler: nothing
//   CPN <align> <itemsize> <hex>                 Builder/Compiler: new_const_pool_node + add + add_node; Assembler: new_label + embed_const_pool
//   SCUR <idx|-1> | RM <idx> | RMR <i> <j> | RMP <k> | AA <k> <idx> | AB <k> <idx> | AN <k> | USL    node-list edits (Builder/Compiler only)
//   X                                            what follows is the reference program for the Assembler (oracle's edited sequence);
//                                                every line is prefixed by "@<origin command index>"
//   END
#include <asmjit/core.h>
#include <asmjit/x86.h>
#include <asmjit/a64.h>
#include <cstdio>
#include <cstring>
#include <cinttypes>
#include <string>
#include <vector>
#include <deque>
#include <sstream>
#include <iostream>
#include <algorithm>

using namespace asmjit;

// ------------------------------------------------------------------------------------------------ small utilities
static const uint64_t HMASK = (uint64_t(1) << 62) - 1;
static inline uint64_t hmix(uint64_t h, uint64_t x) { return ((h * 1000003u) ^ (x & HMASK)) & HMASK; }
static uint64_t hash_str(const std::string& s) { uint64_t h = 0; for (unsigned char c : s) h = hmix(h, c); return h; }

static std::string hex_of(const uint8_t* p, size_t n) {
  static const char* d = "0123456789abcdef";
  if (n == 0) return "=";
  std::string s; s.reserve(n * 2);
  for (size_t i = 0; i < n; i++) { s.push_back(d[p[i] >> 4]); s.push_back(d[p[i] & 15]); }
  return s;
}
static std::vector<uint8_t> unhex(const std::string& s) {
  std::vector<uint8_t> v;
  if (s == "=" || s == "-") return v;
  for (size_t i = 0; i + 1 < s.size(); i += 2) {
    auto h = [](char c) { return c <= '9' ? c - '0' : c - 'a' + 10; };
    v.push_back(uint8_t(h(s[i]) * 16 + h(s[i + 1])));
  }
  return v;
}
static std::string u(uint64_t v) { return std::to_string(v); }

struct Cmd { std::string k; std::vector<std::string> a; int origin = -1; };
static uint64_t num(const std::string& s) { return s[0] == '-' ? uint64_t(strtoll(s.c_str(), nullptr, 10)) : strtoull(s.c_str(), nullptr, 10); }

static Operand_ mkop(const std::vector<std::string>& a, size_t at) {
  Operand_ o;
  o._signature._bits = uint32_t(num(a[at]));
  o._base_id = uint32_t(num(a[at + 1]));
  o._data[0] = uint32_t(num(a[at + 2]));
  o._data[1] = uint32_t(num(a[at + 3]));
  return o;
}

// ------------------------------------------------------------------------------------------------ node dump
static std::string comment_str(const char* c) { return c ? ("c" + hex_of((const uint8_t*)c, strlen(c))) : std::string("-"); }

static std::string node_str(BaseNode* n) {
  std::string s;
  switch (n->type()) {
    case NodeType::kInst: {
      InstNode* in = n->as<InstNode>();
      s = "I " + u(in->inst_id()) + " " + u(uint32_t(in->options())) + " " + u(in->extra_reg()._signature._bits) + " " + u(in->extra_reg()._id) +
          " " + u(in->op_count()) + " " + u(in->op_capacity());
      const Operand* ops = in->operands_data();
      for (size_t i = 0; i < in->op_capacity(); i++)
        s += " " + u(ops[i]._signature._bits) + " " + u(ops[i]._base_id) + " " + u(ops[i]._data[0]) + " " + u(ops[i]._data[1]);
      break;
    }
    case NodeType::kSection: s = "S " + u(n->as<SectionNode>()->section_id()); break;
    case NodeType::kLabel: s = "L " + u(n->as<LabelNode>()->label_id()); break;
    case NodeType::kAlign: s = "A " + u(uint32_t(n->as<AlignNode>()->align_mode())) + " " + u(n->as<AlignNode>()->alignment()); break;
    case NodeType::kEmbedData: {
      EmbedDataNode* d = n->as<EmbedDataNode>();
      s = "D " + u(uint32_t(d->type_id())) + " " + u(d->type_size()) + " " + u(d->item_count()) + " " + u(d->repeat_count()) + " " + hex_of(d->data(), d->data_size());
      break;
    }
    case NodeType::kEmbedLabel: s = "EL " + u(n->as<EmbedLabelNode>()->label_id()) + " " + u(n->as<EmbedLabelNode>()->data_size()); break;
    case NodeType::kEmbedLabelDelta: {
      EmbedLabelDeltaNode* d = n->as<EmbedLabelDeltaNode>();
      s = "ED " + u(d->label_id()) + " " + u(d->base_label_id()) + " " + u(d->data_size());
      break;
    }
    case NodeType::kComment: s = "C"; break;
    case NodeType::kFunc: s = "FUNC " + u(n->as<FuncNode>()->label_id()) + " " + u(n->as<FuncNode>()->exit_node()->label_id()); break;
    case NodeType::kFuncRet: s = "FRET"; break;
    case NodeType::kJump: case NodeType::kInvoke: {
      InstNode* in = n->as<InstNode>();
      s = std::string(n->type() == NodeType::kJump ? "J " : "INV ") + u(in->inst_id()) + " " + u(uint32_t(in->options())) + " " + u(in->extra_reg()._signature._bits) + " " +
          u(in->extra_reg()._id) + " " + u(in->op_count()) + " " + u(in->op_capacity());
      const Operand* ops = in->operands_data();
      for (size_t i = 0; i < in->op_capacity(); i++)
        s += " " + u(ops[i]._signature._bits) + " " + u(ops[i]._base_id) + " " + u(ops[i]._data[0]) + " " + u(ops[i]._data[1]);
      if (n->type() == NodeType::kJump) {
        JumpAnnotation* ja = static_cast<JumpNode*>(n)->annotation();
        s += " ann=" + (ja ? u(ja->annotation_id()) : std::string("-1"));
      }
      break;
    }
    case NodeType::kSentinel: s = "SN " + u(uint32_t(n->as<SentinelNode>()->sentinel_type())); break;
    case NodeType::kConstPool: {
      ConstPoolNode* cp = n->as<ConstPoolNode>();
      std::vector<uint8_t> buf(cp->size() + 1);
      cp->const_pool().fill(buf.data());
      s = "CPN " + u(cp->label_id()) + " " + u(cp->alignment()) + " " + hex_of(buf.data(), cp->size());
      break;
    }
    default: s = "? " + u(uint32_t(n->type())); break;
  }
  s += " " + comment_str(n->inline_comment());
  // flags that must hold for a listed node
  if (!n->is_active()) s += " !inactive-in-list";
  return s;
}

struct BuilderCtx {
  BaseBuilder* b = nullptr;
  std::vector<BaseNode*> pool;     // removed (inactive) nodes, the editing handle of the stream
};

static std::vector<BaseNode*> active_nodes(BaseBuilder* b) {
  std::vector<BaseNode*> v;
  BaseNode* prev = nullptr;
  size_t guard = 0;
  for (BaseNode* n = b->first_node(); n; n = n->next()) {
    if (n->prev() != prev) { v.push_back(nullptr); }   // broken back link marker
    v.push_back(n); prev = n;
    if (++guard > 400) break;
  }
  return v;
}

// a list is intact when it is acyclic, back links mirror forward links and last_node() is the last node reached
static bool list_intact(BaseBuilder* b) {
  std::vector<BaseNode*> act = active_nodes(b);
  if (act.size() > 400) return false;
  for (BaseNode* n : act) if (!n) return false;
  return b->last_node() == (act.empty() ? nullptr : act.back());
}

static std::string dump(BuilderCtx& bc, uint32_t nsections) {
  BaseBuilder* b = bc.b;
  std::vector<BaseNode*> act = active_nodes(b);
  long cur = -1;
  if (b->cursor()) { cur = -2; for (size_t i = 0; i < act.size(); i++) if (act[i] == b->cursor()) cur = long(i); }
  std::string s = "cur=" + std::to_string(cur) + " dirty=" + u(b->has_dirty_section_links()) + " links=";
  for (uint32_t i = 0; i < nsections; i++) {
    long nx = -1;
    if (b->has_registered_section_node(i)) { SectionNode* sn = b->_section_nodes[i]; if (sn->_next_section) nx = long(sn->_next_section->section_id()); }
    s += (i ? "," : "") + std::to_string(nx);
  }
  s += " last=" + std::string(b->last_node() == (act.empty() ? nullptr : act.back()) ? "ok" : "BAD");
  // the emitter's pending one-shot state (what the next _emit / add_func / add_ret would capture)
  s += " pend=" + u(uint32_t(b->inst_options())) + "," + u(b->extra_reg()._signature._bits) + "," + u(b->extra_reg()._id) + "," + comment_str(b->inline_comment()) + " |";
  for (BaseNode* n : act) s += n ? (" " + node_str(n) + " ;") : " BROKEN-PREV ;";
  s += " ||";
  for (BaseNode* n : bc.pool) {
    std::string t = node_str(n);
    size_t p = t.find(" !inactive-in-list"); if (p != std::string::npos) t.erase(p);
    s += " " + t + " ;";
  }
  return s;
}

// ------------------------------------------------------------------------------------------------ running one command on one emitter
struct Env {
  CodeHolder code;
  std::vector<Section*> sections;
  std::deque<std::string> strings;   // inline comments must stay alive until consumed
  Arena pool_arena{4096};
  bool guard_failed = false;
  // function programs (Compiler only): frames of the FuncNodes of the Compiler run, consumed in order by the reference Assembler
  const std::vector<FuncFrame>* frames = nullptr;
  size_t func_index = 0;
  std::vector<Label> exit_labels;
  // Compiler constant pools (_new_const): reference side = a label per scope (created on first use) + the pool contents
  struct RefPool { bool used = false; Label label; std::vector<uint8_t> data; };
  RefPool ref_pool[2];
  std::vector<JumpAnnotation*> annotations;
};

static uint32_t flush_ref_pool(BaseEmitter* e, Env& env, int scope) {
  Env::RefPool& rp = env.ref_pool[scope];
  if (!rp.used) return 0;
  env.pool_arena.reset();
  ConstPool pool(env.pool_arena);
  for (size_t i = 0; i + 8 <= rp.data.size(); i += 8) { size_t off; (void)pool.add(rp.data.data() + i, 8, Out(off)); }
  rp.used = false; rp.data.clear();
  return uint32_t(e->embed_const_pool(rp.label, pool));
}

static uint32_t apply(BaseEmitter* e, Env& env, const Cmd& c) {
  const std::string& k = c.k;
  const auto& a = c.a;
  if (k == "NL") { Label l = e->new_label(); return l.is_valid() ? 0 : 9999; }
  if (k == "NS") {
    Section* s = nullptr;
    Error err = env.code.new_section(Out(s), a[0].c_str(), SIZE_MAX, SectionFlags::kNone, uint32_t(num(a[1])));
    if (err == Error::kOk) env.sections.push_back(s);
    return uint32_t(err);
  }
  if (k == "SO") { e->set_inst_options(InstOptions(uint32_t(num(a[0])))); return 0; }
  if (k == "AO") { e->add_inst_options(InstOptions(uint32_t(num(a[0])))); return 0; }
  if (k == "SX") { RegOnly r; r._signature._bits = uint32_t(num(a[0])); r._id = uint32_t(num(a[1])); e->set_extra_reg(r); return 0; }
  if (k == "SC") {
    if (a[0] == "-") { e->set_inline_comment(nullptr); return 0; }
    std::vector<uint8_t> b = unhex(a[0]);
    env.strings.emplace_back(b.empty() ? "" : std::string((const char*)b.data(), b.size()));
    e->set_inline_comment(env.strings.back().c_str());
    return 0;
  }
  if (k == "I") {
    size_t n = size_t(num(a[1]));
    Operand_ ops[6];
    for (size_t i = 0; i < 6; i++) { ops[i].reset(); if (i < n) ops[i] = mkop(a, 2 + 4 * i); }
    return uint32_t(e->_emit(InstId(uint32_t(num(a[0]))), ops[0], ops[1], ops[2], ops + 3));
  }
  if (k == "B") { Label l; l.set_id(uint32_t(num(a[0]))); return uint32_t(e->bind(l)); }
  if (k == "A") return uint32_t(e->align(AlignMode(uint8_t(num(a[0]))), uint32_t(num(a[1]))));
  if (k == "E") { std::vector<uint8_t> b = unhex(a[0]); return uint32_t(e->embed(b.data(), b.size())); }
  if (k == "EA") { std::vector<uint8_t> b = unhex(a[3]); b.resize(b.size() + 64); return uint32_t(e->embed_data_array(TypeId(uint8_t(num(a[0]))), b.data(), size_t(num(a[1])), size_t(num(a[2])))); }
  if (k == "EL") { Label l; l.set_id(uint32_t(num(a[0]))); return uint32_t(e->embed_label(l, size_t(num(a[1])))); }
  if (k == "ED") { Label l, b; l.set_id(uint32_t(num(a[0]))); b.set_id(uint32_t(num(a[1]))); return uint32_t(e->embed_label_delta(l, b, size_t(num(a[2])))); }
  if (k == "CP") {
    Label l; l.set_id(uint32_t(num(a[0])));
    std::vector<uint8_t> b = unhex(a[3]);
    size_t item = size_t(num(a[2]));
    env.pool_arena.reset();
    ConstPool pool(env.pool_arena);
    for (size_t i = 0; item && i + item <= b.size(); i += item) { size_t off; (void)pool.add(b.data() + i, item, Out(off)); }
    std::vector<uint8_t> filled(pool.size() + 1);
    pool.fill(filled.data());
    if (pool.size() != b.size() || pool.alignment() != num(a[1]) || memcmp(filled.data(), b.data(), b.size()) != 0) env.guard_failed = true;
    return uint32_t(e->embed_const_pool(l, pool));
  }
  if (k == "CPN") {
    std::vector<uint8_t> b = unhex(a[2]);
    size_t item = size_t(num(a[1]));
    if (e->is_builder() || e->is_compiler()) {
      BaseBuilder* bb = static_cast<BaseBuilder*>(e);
      ConstPoolNode* node = nullptr;
      Error err = bb->new_const_pool_node(Out(node));
      if (err != Error::kOk) return uint32_t(err);
      for (size_t i = 0; item && i + item <= b.size(); i += item) { size_t off; (void)node->add(b.data() + i, item, Out(off)); }
      if (node->size() != b.size() || node->alignment() != num(a[0])) env.guard_failed = true;
      bb->add_node(node);
      return 0;
    }
    Label l = e->new_label();
    env.pool_arena.reset();
    ConstPool pool(env.pool_arena);
    for (size_t i = 0; item && i + item <= b.size(); i += item) { size_t off; (void)pool.add(b.data() + i, item, Out(off)); }
    return uint32_t(e->embed_const_pool(l, pool));
  }
  if (k == "NC") {
    // NC <scope 0=local 1=global> <hex of one 8-byte constant>: BaseCompiler::_new_const.  Reference: the pool label is created on the first
    // use of the scope; the local pool is embedded by end_func after the epilog, the global one at the very end (GlobalConstPoolPass).
    int scope = int(num(a[0])); std::vector<uint8_t> b = unhex(a[1]);
    if (e->is_compiler()) { BaseMem m; return uint32_t(static_cast<BaseCompiler*>(e)->_new_const(Out(m), ConstPoolScope(scope), b.data(), b.size())); }
    if (e->is_builder()) return 9994;
    Env::RefPool& rp = env.ref_pool[scope];
    if (!rp.used) { rp.used = true; rp.label = e->new_label(); }
    bool dup = false;
    for (size_t i = 0; i + 8 <= rp.data.size(); i += 8) if (!memcmp(rp.data.data() + i, b.data(), 8)) dup = true;
    if (!dup) rp.data.insert(rp.data.end(), b.begin(), b.end());
    return 0;
  }
  if (k == "JA") {
    // JA <label ids...>: new_jump_annotation + add_label_id (Compiler only; no counterpart in the Assembler)
    if (e->is_compiler()) {
      JumpAnnotation* ja = static_cast<BaseCompiler*>(e)->new_jump_annotation();
      if (!ja) return 1;
      for (const std::string& t : a) (void)ja->add_label_id(uint32_t(num(t)));
      env.annotations.push_back(ja);
    }
    return 0;
  }
  if (k == "IJ" || k == "IV") {
    // IJ <inst> <annotation index> <op words>: emit_annotated_jump; IV <inst> 0 <op words>: add_invoke_node(inst, target, void()).
    // Reference: the plain instruction with the pending one-shot state.
    Operand_ op = mkop(a, 2);
    if (e->is_compiler()) {
      BaseCompiler* cc = static_cast<BaseCompiler*>(e);
      if (k == "IJ") { size_t ai = size_t(num(a[1])); return uint32_t(cc->emit_annotated_jump(InstId(uint32_t(num(a[0]))), op, ai < env.annotations.size() ? env.annotations[ai] : nullptr)); }
      InvokeNode* iv = nullptr;
      return uint32_t(cc->add_invoke_node(Out(iv), InstId(uint32_t(num(a[0]))), op, FuncSignature::build<void>()));
    }
    if (e->is_builder()) return 9994;
    Operand_ none[3]; none[0].reset(); none[1].reset(); none[2].reset();
    return uint32_t(e->_emit(InstId(uint32_t(num(a[0]))), op, none[0], none[1], none));
  }
  if (k == "FN" || k == "FR" || k == "FE") {
    // FN = add_func(void()), FR = ret(), FE = end_func(): Compiler only.  Reference (Assembler): the exit label and the function label are
    // created in the Compiler's order, the function label is bound, emit_prolog(frame of that FuncNode); a ret directly before end_func
    // falls through; end_func = bind(exit label) + emit_epilog(frame).
    if (e->is_compiler()) {
      BaseCompiler* cc = static_cast<BaseCompiler*>(e);
      if (k == "FN") { FuncNode* f = nullptr; return uint32_t(cc->add_func_node(Out(f), FuncSignature::build<void>())); }
      if (k == "FR") { FuncRetNode* r = nullptr; return uint32_t(cc->add_func_ret_node(Out(r), Operand(), Operand())); }
      return uint32_t(cc->end_func());
    }
    if (e->is_builder()) return 9994;
    // add_func_node / add_func_ret_node / end_func consume the pending one-shot state (_grab_state / reset_state)
    e->reset_inst_options(); e->reset_extra_reg(); e->reset_inline_comment();
    if (k == "FN") {
      Label x = e->new_label(); Label f = e->new_label();
      env.exit_labels.push_back(x);
      uint32_t err = uint32_t(e->bind(f));
      if (err) return err;
      if (!env.frames || env.func_index >= env.frames->size()) return 9993;
      return uint32_t(e->emit_prolog((*env.frames)[env.func_index]));
    }
    if (k == "FR") return 0;
    if (env.exit_labels.empty() || !env.frames || env.func_index >= env.frames->size()) return 9993;
    uint32_t err = uint32_t(e->bind(env.exit_labels.back()));
    env.exit_labels.pop_back();
    if (err) return err;
    err = uint32_t(e->emit_epilog((*env.frames)[env.func_index++]));
    if (err) return err;
    return flush_ref_pool(e, env, 0);
  }
  if (k == "SN") {
    // a SentinelNode: informative, serialize_to emits nothing for it; the Assembler has no counterpart call
    if (e->is_builder() || e->is_compiler()) {
      BaseBuilder* bb = static_cast<BaseBuilder*>(e);
      SentinelNode* node = nullptr;
      Error err = bb->new_node_t<SentinelNode>(Out(node), SentinelType(uint8_t(num(a[0]))));
      if (err != Error::kOk) return uint32_t(err);
      bb->add_node(node);
    }
    return 0;
  }
  if (k == "CM") {
    // the string is kept alive: new_comment_node() stores the caller's pointer (no copy) when the comment is empty
    std::vector<uint8_t> b = unhex(a[0]);
    env.strings.emplace_back(b.empty() ? "" : std::string((const char*)b.data(), b.size()));
    return uint32_t(e->comment(env.strings.back().c_str(), SIZE_MAX));
  }
  if (k == "S") { uint32_t id = uint32_t(num(a[0])); if (id >= env.sections.size()) return 9998; return uint32_t(e->section(env.sections[id])); }
  return 9997;
}

static bool is_edit(const std::string& k) {
  return k == "SCUR" || k == "RM" || k == "RMR" || k == "RMP" || k == "AA" || k == "AB" || k == "AN" || k == "USL";
}

static void prune_pool(BuilderCtx& bc) {
  bc.pool.erase(std::remove_if(bc.pool.begin(), bc.pool.end(), [](BaseNode* n) { return n->is_active(); }), bc.pool.end());
}

static uint32_t apply_edit(BuilderCtx& bc, const Cmd& c) {
  BaseBuilder* b = bc.b;
  std::vector<BaseNode*> act = active_nodes(b);
  auto A = [&](const std::string& s) -> BaseNode* { long i = long(num(s)); return (i >= 0 && size_t(i) < act.size()) ? act[size_t(i)] : nullptr; };
  auto Pk = [&](const std::string& s) -> BaseNode* { long i = long(num(s)); return (i >= 0 && size_t(i) < bc.pool.size()) ? bc.pool[size_t(i)] : nullptr; };
  const std::string& k = c.k;
  if (k == "SCUR") { long i = long(int64_t(num(c.a[0]))); if (i < 0) { b->set_cursor(nullptr); return 0; } BaseNode* n = A(c.a[0]); if (!n) return 9990; b->set_cursor(n); return 0; }
  if (k == "RM") { BaseNode* n = A(c.a[0]); if (!n) return 9990; b->remove_node(n); bc.pool.push_back(n); return 0; }
  if (k == "RMR") {
    long i = long(num(c.a[0])), j = long(num(c.a[1]));
    BaseNode* f = A(c.a[0]); BaseNode* l = A(c.a[1]);
    if (!f || !l || i > j) return 9990;
    b->remove_nodes(f, l);
    for (long t = i; t <= j; t++) bc.pool.push_back(act[size_t(t)]);
    return 0;
  }
  if (k == "RMP") { BaseNode* n = Pk(c.a[0]); if (!n) return 9990; b->remove_node(n); return 0; }
  if (k == "AA" || k == "AB") {
    BaseNode* n = Pk(c.a[0]); BaseNode* r = A(c.a[1]);
    if (!n || !r) return 9990;
    if (k == "AA") b->add_after(n, r); else b->add_before(n, r);
    return 0;
  }
  if (k == "AN") { BaseNode* n = Pk(c.a[0]); if (!n) return 9990; b->add_node(n); return 0; }
  if (k == "USL") { b->update_section_links(); return 0; }
  return 9997;
}

// ------------------------------------------------------------------------------------------------ image of a holder
static std::string image(CodeHolder& code, uint64_t base) {
  std::string s;
  Error e1 = code.flatten();
  Error e2 = code.resolve_cross_section_fixups();
  Error e3 = code.relocate_to_base(base);
  s += "fl=" + u(uint32_t(e1)) + " rs=" + u(uint32_t(e2)) + " rl=" + u(uint32_t(e3)) + " unres=" + u(code.unresolved_fixup_count());
  for (Section* sec : code.sections()) {
    s += " [" + u(sec->section_id()) + " off=" + u(sec->offset()) + " vs=" + u(sec->virtual_size()) + " " + hex_of(sec->buffer().data(), sec->buffer().size()) + "]";
  }
  s += " labels=";
  for (uint32_t i = 0; i < code.label_count(); i++) {
    if (code.is_label_bound(i)) s += u(code.label_entry_of(i).section_id()) + ":" + u(code.label_offset(i)) + ",";
    else s += "u,";
  }
  return s;
}

// ------------------------------------------------------------------------------------------------ one program
struct Program { int arch = 1; uint64_t base[2] = {0, 0}; int flags = 0; std::vector<Cmd> cmds; std::vector<Cmd> ref; };

static Arch arch_of(int a) { return a == 0 ? Arch::kX86 : a == 1 ? Arch::kX64 : Arch::kAArch64; }

template <typename AsmT>
static void run_reference(const Program& p, int which_base, bool use_ref, const std::vector<uint32_t>* skip_origin_errs, bool stop_at_error,
                          std::vector<uint32_t>& errs, std::string& img, bool& guard, const std::vector<FuncFrame>* frames = nullptr) {
  Env env;
  env.frames = frames;
  env.code.init(Environment(arch_of(p.arch)));
  env.sections.push_back(env.code.text_section());
  AsmT a(&env.code);
  if (p.flags & 4) a.add_diagnostic_options(DiagnosticOptions::kValidateAssembler);
  const std::vector<Cmd>& cs = use_ref ? p.ref : p.cmds;
  // NL/NS of the builder program are holder-level facts: in the reference program they are replayed first
  if (use_ref) for (const Cmd& c : p.cmds) {
    if (c.k == "NL" || c.k == "NS") apply(&a, env, c);
    if (c.k == "CPN") (void)a.new_label();     // a ConstPoolNode registers its own label when it is created
  }
  for (size_t i = 0; i < cs.size(); i++) {
    const Cmd& c = cs[i];
    if (is_edit(c.k)) { errs.push_back(0); continue; }
    if (use_ref && (c.k == "NL" || c.k == "NS")) continue;
    if (use_ref && skip_origin_errs && c.origin >= 0 && size_t(c.origin) < skip_origin_errs->size() && (*skip_origin_errs)[size_t(c.origin)] != 0) continue;
    uint32_t e = apply(&a, env, c);
    errs.push_back(e);
    if (e != 0 && stop_at_error) break;
  }
  if (frames) { uint32_t e = flush_ref_pool(&a, env, 1); if (e) errs.push_back(e); }     // GlobalConstPoolPass
  img = image(env.code, p.base[which_base]);
  guard = guard || env.guard_failed;
}

template <typename BuilderT>
static void run_builder(const Program& p, int which_base, bool verbose, const char* tag, int pidx,
                        std::vector<uint32_t>& errs, uint32_t& ferr, std::string& img, std::string& out, std::vector<FuncFrame>* frames_out = nullptr) {
  Env env;
  env.code.init(Environment(arch_of(p.arch)));
  env.sections.push_back(env.code.text_section());
  BuilderT b(&env.code);
  // strict validation at record time AND in the Assembler finalize() serializes into (finalize() forwards the diagnostic options)
  if (p.flags & 4) b.add_diagnostic_options(DiagnosticOptions::kValidateIntermediate | DiagnosticOptions::kValidateAssembler);
  BuilderCtx bc; bc.b = &b;
  char buf[128];
  bool corrupt = false;
  for (size_t i = 0; i < p.cmds.size(); i++) {
    const Cmd& c = p.cmds[i];
    uint32_t e = is_edit(c.k) ? apply_edit(bc, c) : apply(&b, env, c);
    prune_pool(bc);
    errs.push_back(e);
    if (!list_intact(&b)) {
      // the pinned code can be driven into a cyclic / half-linked list (double bind, DESIGN 7.10); serializing or running passes over it may not terminate
      corrupt = true;
      if (which_base == 0) out += "p" + std::to_string(pidx) + " CORRUPT " + tag + " " + std::to_string(i) + "\n";
      while (errs.size() < p.cmds.size()) errs.push_back(0);
      break;
    }
    if (which_base == 0) {
      std::string d = dump(bc, uint32_t(env.sections.size()));
      if (verbose) out += "p" + std::to_string(pidx) + " " + tag + "V " + std::to_string(i) + " " + u(e) + " " + d + "\n";
      snprintf(buf, sizeof(buf), "p%d %s %zu %u %" PRIu64 "\n", pidx, tag, i, e, hash_str(d));
      out += buf;
    }
  }
  if (which_base == 0) out += "p" + std::to_string(pidx) + " " + (tag[4] ? "DUMPC " : "DUMP ") + (corrupt ? std::string("CORRUPT") : dump(bc, uint32_t(env.sections.size()))) + "\n";
  ferr = corrupt ? 9995 : b.first_node() ? uint32_t(b.finalize()) : 9996;
  if (frames_out && !corrupt)
    for (BaseNode* n = b.first_node(); n; n = n->next())
      if (n->type() == NodeType::kFunc) frames_out->push_back(static_cast<FuncNode*>(n)->frame());   // an empty list cannot be serialized by the pinned code (do/while on a null first node)
  img = image(env.code, p.base[which_base]);
  if (env.guard_failed) out += "p" + std::to_string(pidx) + " GUARD-FAILED constpool\n";
}

static std::string errs_str(const std::vector<uint32_t>& v) { std::string s; for (uint32_t e : v) s += u(e) + ","; return s; }

template <typename AsmT, typename BuilderT, typename CompilerT>
static void run_program_t(const Program& p, int pidx, bool verbose) {
  std::string out;
  std::string P = "p" + std::to_string(pidx) + " ";
  if (p.flags & 2) {
    // function program: Compiler vs Assembler-with-the-Compiler's-frames
    for (int wb = 0; wb < 2; wb++) {
      std::vector<uint32_t> ec, e1; uint32_t fc = 0; std::string ic, i1; bool guard = false; std::vector<FuncFrame> frames;
      run_builder<CompilerT>(p, wb, verbose, "STEPF", pidx, ec, fc, ic, out, &frames);
      run_reference<AsmT>(p, wb, false, nullptr, false, e1, i1, guard, &frames);
      if (wb == 0) { out += P + "EA " + errs_str(e1) + "\n"; out += P + "EC " + errs_str(ec) + " F=" + u(fc) + "\n"; size_t nt = 0; for (const FuncFrame& f : frames) if (f.has_func_calls() || f.stack_adjustment() != 0 || f.saved_regs(RegGroup::kGp) != 0) nt++;
        out += P + "NFRAMES " + u(frames.size()) + " " + u(nt) + "\n"; }
      out += P + "IMG" + std::to_string(wb) + " R1 " + i1 + "\n";
      out += P + "IMG" + std::to_string(wb) + " C " + ic + "\n";
    }
    fputs(out.c_str(), stdout);
    return;
  }
  for (int wb = 0; wb < 2; wb++) {
    std::vector<uint32_t> eb, ec, e1, e2; uint32_t fb = 0, fc = 0; std::string ib, ic, i1, i2; bool guard = false;
    run_builder<BuilderT>(p, wb, verbose, "STEP", pidx, eb, fb, ib, out);
    run_builder<CompilerT>(p, wb, verbose, "STEPC", pidx, ec, fc, ic, out);
    run_reference<AsmT>(p, wb, false, nullptr, false, e1, i1, guard);
    run_reference<AsmT>(p, wb, true, &eb, true, e2, i2, guard);
    uint32_t first2 = 0; for (uint32_t e : e2) if (e) { first2 = e; break; }
    if (wb == 0) {
      out += P + "EA " + errs_str(e1) + "\n";
      out += P + "EB " + errs_str(eb) + " F=" + u(fb) + "\n";
      out += P + "EC " + errs_str(ec) + " F=" + u(fc) + "\n";
      out += P + "E2 " + u(first2) + "\n";
    }
    std::string W = std::to_string(wb);
    out += P + "IMG" + W + " R1 " + i1 + "\n";
    out += P + "IMG" + W + " R2 " + i2 + "\n";
    out += P + "IMG" + W + " B " + ib + "\n";
    out += P + "IMG" + W + " C " + ic + "\n";
    if (guard) out += P + "GUARD-FAILED constpool\n";
  }
  fputs(out.c_str(), stdout);
}

static void run_program(const Program& p, int pidx, bool verbose) {
  if (p.arch == 2) run_program_t<a64::Assembler, a64::Builder, a64::Compiler>(p, pidx, verbose);
  else run_program_t<x86::Assembler, x86::Builder, x86::Compiler>(p, pidx, verbose);
}

// ------------------------------------------------------------------------------------------------ catalog
struct FormOut { int arch; std::string name; uint32_t deco; int immbits; };

static void print_forms_from(BaseBuilder& b, int arch, const std::vector<FormOut>& meta) {
  size_t i = 0;
  for (BaseNode* n = b.first_node(); n; n = n->next()) {
    if (!n->is_inst()) continue;
    InstNode* in = n->as<InstNode>();
    if (i >= meta.size()) { printf("CATALOG-MISMATCH\n"); return; }
    const FormOut& m = meta[i++];
    printf("F %d %s %u %u %d %zu", arch, m.name.c_str(), in->inst_id(), m.deco, m.immbits, in->op_count());
    for (const Operand& o : in->operands()) {
      const char* kind = "r";
      if (o.is_mem()) kind = o.as<BaseMem>().has_base_label() ? "ml" : "m";
      else if (o.is_imm()) kind = "i";
      else if (o.is_label()) kind = "l";
      else if (o.is_none()) kind = "n";
      printf(" %s %u %u %u %u", kind, o._signature._bits, o._base_id, o._data[0], o._data[1]);
    }
    printf("\n");
  }
  if (i != meta.size()) printf("CATALOG-MISMATCH %zu %zu\n", i, meta.size());
}

enum : uint32_t { D_LOCK = 1, D_REP = 2, D_K = 4, D_Z = 8, D_SHORTLONG = 16, D_MODMR = 32, D_VEX3 = 64, D_EVEX = 128, D_ER = 256, D_TAKEN = 512, D_SAE = 1024, D_LABELREF = 2048 };

static void catalog_x86(int arch) {
  using namespace x86;
  CodeHolder code; code.init(Environment(arch_of(arch)));
  x86::Builder cb(&code);
  std::vector<FormOut> meta;
  Label L = cb.new_label();
  bool x64 = arch == 1;
  Gp a = x64 ? Gp(rax) : Gp(eax), b = x64 ? Gp(rbx) : Gp(ebx), c = x64 ? Gp(rcx) : Gp(ecx), d = x64 ? Gp(rdx) : Gp(edx), si = x64 ? Gp(rsi) : Gp(esi), di = x64 ? Gp(rdi) : Gp(edi);
  auto F = [&](const char* name, uint32_t deco, int immbits) { meta.push_back(FormOut{arch, name, deco, immbits}); };
  cb.nop(); F("nop", 0, 0);
  cb.ret(); F("ret", 0, 0);
  cb.mov(eax, ebx); F("mov_rr32", D_MODMR, 0);
  cb.mov(ecx, imm(1)); F("mov_ri32", 0, 32);
  cb.mov(edx, dword_ptr(b, 16)); F("mov_rm32", 0, 0);
  cb.mov(dword_ptr(si, c, 2, -8), eax); F("mov_mr32", 0, 0);
  cb.add(eax, ebx); F("add_rr32", D_MODMR, 0);
  cb.add(dword_ptr(b), ecx); F("add_mr32", D_LOCK, 0);
  cb.add(ecx, imm(5)); F("add_ri", 0, 32);
  cb.sub(dword_ptr(di, 4), imm(3)); F("sub_mi", D_LOCK, 8);
  cb.inc(dword_ptr(b, 64)); F("inc_m", D_LOCK, 0);
  cb.xchg(dword_ptr(si), edx); F("xchg_mr", D_LOCK, 0);
  cb.lea(a, ptr(b, c, 3, 0x1234)); F("lea", 0, 0);
  cb.imul(eax, ebx, imm(10)); F("imul_rri", 0, 32);
  cb.shl(eax, cl); F("shl_rcl", 0, 0);
  cb.shl(edx, imm(3)); F("shl_ri", 0, 4);
  cb.push(a); F("push_r", 0, 0);
  cb.pop(b); F("pop_r", 0, 0);
  cb.movzx(eax, bl); F("movzx", 0, 0);
  cb.cmovz(eax, edx); F("cmovz", 0, 0);
  cb.setz(cl); F("setz", 0, 0);
  cb.test(eax, eax); F("test", 0, 0);
  cb.mul(edx, eax, ecx); F("mul3", 0, 0);
  cb.jmp(L); F("jmp_l", D_SHORTLONG | D_LABELREF, 0);
  cb.jz(L); F("jz_l", D_SHORTLONG | D_TAKEN | D_LABELREF, 0);
  cb.jnc(L); F("jnc_l", D_SHORTLONG | D_TAKEN | D_LABELREF, 0);
  cb.call(L); F("call_l", D_LABELREF, 0);
  cb.jmp(a); F("jmp_r", 0, 0);
  cb.call(b); F("call_r", 0, 0);
  cb.mov(eax, dword_ptr(L)); F("mov_r_ml", D_LABELREF, 0);
  cb.lea(a, ptr(L, 4)); F("lea_ml", D_LABELREF, 0);
  cb.movs(byte_ptr(di), byte_ptr(si)); F("movsb", D_REP, 0);
  cb.stos(dword_ptr(di), eax); F("stosd", D_REP, 0);
  cb.movaps(xmm0, xmm1); F("movaps", D_MODMR, 0);
  cb.paddd(xmm2, ptr(b, 32)); F("paddd_m", 0, 0);
  cb.pshufd(xmm1, xmm2, imm(0x1b)); F("pshufd", 0, 8);
  cb.vaddps(xmm1, xmm2, xmm3); F("vaddps_x", D_VEX3 | D_EVEX | D_K | D_Z, 0);
  cb.vaddps(ymm1, ymm2, ptr(b, 64)); F("vaddps_ym", D_VEX3 | D_EVEX | D_K | D_Z, 0);
  cb.vaddps(zmm1, zmm2, zmm3); F("vaddps_z", D_K | D_Z | D_ER, 0);
  cb.vaddps(zmm4, zmm5, ptr(b, c, 2, 128)); F("vaddps_zm", D_K | D_Z, 0);
  cb.vmovups(ptr(di, 64), zmm6); F("vmovups_mz", D_K, 0);
  cb.vcmpps(k2, zmm1, zmm2, imm(1)); F("vcmpps_k", D_K | D_SAE, 5);
  cb.vpblendvb(xmm1, xmm2, xmm3, xmm4); F("vpblendvb4", 0, 0);
  cb.vblendvps(ymm1, ymm2, ptr(b), ymm4); F("vblendvps4m", 0, 0);
  cb.vfmaddps(xmm0, xmm1, xmm2, xmm3); F("vfmaddps4", 0, 0);
  cb.vfmaddps(xmm0, xmm1, xmm2, ptr(si, 16)); F("vfmaddps4m", 0, 0);
  cb.pcmpistri(xmm1, xmm2, imm(4), ecx); F("pcmpistri4", 0, 8);
  cb.vpermil2ps(xmm0, xmm1, xmm2, xmm3, imm(2)); F("vpermil2ps5", 0, 2);
  cb.cmpxchg8b(ptr(si), edx, eax, ecx, ebx); F("cmpxchg8b5", D_LOCK, 0);
  cb.pcmpestri(xmm1, xmm2, imm(7), ecx, eax, edx); F("pcmpestri6", 0, 8);
  cb.vpcmpestri(xmm3, ptr(b, 8), imm(9), ecx, eax, edx); F("vpcmpestri6m", 0, 8);
  cb.vpgatherdd(xmm1, ptr(b, xmm2, 2), xmm3); F("vpgatherdd", 0, 0);
  if (x64) {
    cb.mov(rax, rbx); F("mov_rr64", D_MODMR, 0);
    cb.mov(r9, imm(1)); F("mov_ri64", 0, 64);
    cb.mov(r10, qword_ptr(r11, r12, 3, 8)); F("mov_rm64", 0, 0);
    cb.add(qword_ptr(r13, 8), r14); F("add_mr64", D_LOCK, 0);
    cb.cmpxchg16b(ptr(rsi), rdx, rax, rcx, rbx); F("cmpxchg16b5", D_LOCK, 0);
    cb.vaddpd(zmm17, zmm18, zmm19); F("vaddpd_z_hi", D_K | D_Z | D_ER, 0);
    cb.movsxd(rax, ecx); F("movsxd", 0, 0);
    cb.vpaddd(xmm9, xmm10, ptr(r8, r9, 1, 4)); F("vpaddd_hi", D_VEX3 | D_EVEX | D_K | D_Z, 0);
  }
  print_forms_from(cb, arch, meta);
  // extra registers usable with D_K / D_REP
  for (uint32_t i = 1; i < 8; i++) { KReg kr(i); printf("XR %d k %u %u\n", arch, kr._signature._bits, kr.id()); }
  printf("XR %d rep %u %u\n", arch, c._signature._bits, c.id());
}

static void catalog_a64() {
  using namespace a64;
  CodeHolder code; code.init(Environment(Arch::kAArch64));
  a64::Builder cb(&code);
  std::vector<FormOut> meta;
  Label L = cb.new_label();
  auto F = [&](const char* name, uint32_t deco, int immbits) { meta.push_back(FormOut{2, name, deco, immbits}); };
  cb.nop(); F("nop", 0, 0);
  cb.ret(x30); F("ret", 0, 0);
  cb.add(x0, x1, x2); F("add_xxx", 0, 0);
  cb.add(w3, w4, imm(17)); F("add_wwi", 0, 12);
  cb.sub(x5, x6, x7, lsl(3)); F("sub_shift", 0, 0);
  cb.mov(x8, imm(1234)); F("mov_xi", 0, 16);
  cb.mov(x9, x10); F("mov_xx", 0, 0);
  cb.ldr(x11, ptr(x12, 16)); F("ldr", 0, 0);
  cb.str(w13, ptr(x14, x15)); F("str_idx", 0, 0);
  cb.ldp(x16, x17, ptr(sp, 32)); F("ldp", 0, 0);
  cb.stp(x19, x20, ptr_pre(sp, -16)); F("stp_pre", 0, 0);
  cb.madd(x0, x1, x2, x3); F("madd4", 0, 0);
  cb.csel(x4, x5, x6, imm(1)); F("csel4", 0, 0);
  cb.ccmp(x7, x8, imm(2), imm(3)); F("ccmp4", 0, 0);
  cb.b(L); F("b_l", D_LABELREF, 0);
  cb.b_eq(L); F("beq_l", D_LABELREF, 0);
  cb.b_lt(L); F("blt_l", D_LABELREF, 0);
  cb.bl(L); F("bl_l", D_LABELREF, 0);
  cb.cbz(x1, L); F("cbz_l", D_LABELREF, 0);
  cb.cbnz(w2, L); F("cbnz_l", D_LABELREF, 0);
  cb.tbz(x3, imm(5), L); F("tbz_l", D_LABELREF, 0);
  cb.adr(x4, L); F("adr_l", D_LABELREF, 0);
  cb.ldr(x5, ptr(L)); F("ldr_lit", D_LABELREF, 0);
  cb.br(x6); F("br", 0, 0);
  cb.blr(x7); F("blr", 0, 0);
  cb.fadd(v0.s4(), v1.s4(), v2.s4()); F("fadd_v", 0, 0);
  cb.fmla(v3.s4(), v4.s4(), v5.s(1)); F("fmla_elem", 0, 0);
  cb.ld1(v6.b16(), ptr(x7)); F("ld1", 0, 0);
  cb.eor(x8, x9, imm(0xff00)); F("eor_imm", 0, 0);
  // operand counts 3..6 of ONE mnemonic whose encoding inspects the extended operands (register lists)
  cb.tbl(v0.b16(), v1.b16(), v2.b16()); F("tbl3", 0, 0);
  cb.tbl(v6.b16(), v7.b16(), v8.b16(), v9.b16()); F("tbl4", 0, 0);
  cb.tbl(v10.b16(), v11.b16(), v12.b16(), v13.b16(), v14.b16()); F("tbl5", 0, 0);
  cb.tbl(v15.b16(), v16.b16(), v17.b16(), v18.b16(), v19.b16(), v20.b16()); F("tbl6", 0, 0);
  cb.ld2(v0.b16(), v1.b16(), ptr(x0)); F("ld2", 0, 0);
  cb.ld3(v4.b16(), v5.b16(), v6.b16(), ptr(x1)); F("ld3", 0, 0);
  cb.ld4(v0.b16(), v1.b16(), v2.b16(), v3.b16(), ptr(x2)); F("ld4", 0, 0);
  cb.casp(x2, x3, x4, x5, ptr(x6)); F("casp5", 0, 0);
  print_forms_from(cb, 2, meta);
}

// which of serialize_to()'s predicates hold for a real node of every kind (a Compiler program that contains one of each)
static void node_predicates() {
  CodeHolder code; code.init(Environment(Arch::kX64));
  x86::Compiler cc(&code);
  Section* sec = nullptr; code.new_section(Out(sec), ".p", SIZE_MAX, SectionFlags::kNone, 8);
  FuncNode* fn = nullptr; cc.add_func_node(Out(fn), FuncSignature::build<void>());
  cc.nop();
  Label l = cc.new_label(); cc.bind(l);
  cc.align(AlignMode::kCode, 16);
  uint8_t d[4] = {1, 2, 3, 4}; cc.embed(d, 4);
  cc.embed_label(l, 8); cc.embed_label_delta(l, l, 4);
  cc.comment("c");
  BaseMem m; uint64_t v = 7; cc._new_const(Out(m), ConstPoolScope::kLocal, &v, 8);
  JumpAnnotation* ann = cc.new_jump_annotation(); ann->add_label_id(l.id());
  cc.jmp(x86::rax, ann);
  InvokeNode* inv = nullptr; cc.invoke(Out(inv), x86::rax, FuncSignature::build<void>());
  cc.ret();
  cc.end_func();
  if (sec) cc.section(sec);
  for (BaseNode* n = cc.first_node(); n; n = n->next())
    printf("NODEPRED %u %d %d %d %d %d %d %d %d %d\n", uint32_t(n->type()), n->is_inst() ? 1 : 0, n->is_label() ? 1 : 0, n->is_const_pool() ? 1 : 0,
           n->is_align() ? 1 : 0, n->is_embed_data() ? 1 : 0, n->is_embed_label() ? 1 : 0, n->is_embed_label_delta() ? 1 : 0, n->is_section() ? 1 : 0, n->is_comment() ? 1 : 0);
  printf("NODETYPES inst %u section %u label %u align %u data %u embedlabel %u embeddelta %u constpool %u comment %u sentinel %u jump %u func %u funcret %u invoke %u\n",
         uint32_t(NodeType::kInst), uint32_t(NodeType::kSection), uint32_t(NodeType::kLabel), uint32_t(NodeType::kAlign), uint32_t(NodeType::kEmbedData),
         uint32_t(NodeType::kEmbedLabel), uint32_t(NodeType::kEmbedLabelDelta), uint32_t(NodeType::kConstPool), uint32_t(NodeType::kComment), uint32_t(NodeType::kSentinel),
         uint32_t(NodeType::kJump), uint32_t(NodeType::kFunc), uint32_t(NodeType::kFuncRet), uint32_t(NodeType::kInvoke));
}

static void catalog() {
  node_predicates();
  // numeric values the generator / model need (tie: compared with the model's own constants on every run)
  printf("ERR InvalidDisplacement %u\n", uint32_t(Error::kInvalidDisplacement));
  printf("ERR ok %u\nERR InvalidArgument %u\nERR InvalidLabel %u\nERR InvalidSection %u\nERR LabelAlreadyBound %u\nERR InvalidOperandSize %u\nERR InvalidInstruction %u\nERR OutOfMemory %u\nERR InvalidState %u\n",
         uint32_t(Error::kOk), uint32_t(Error::kInvalidArgument), uint32_t(Error::kInvalidLabel), uint32_t(Error::kInvalidSection),
         uint32_t(Error::kLabelAlreadyBound), uint32_t(Error::kInvalidOperandSize), uint32_t(Error::kInvalidInstruction), uint32_t(Error::kOutOfMemory), uint32_t(Error::kInvalidState));
  printf("OPT Reserved %u\nOPT ShortForm %u\nOPT LongForm %u\nOPT Taken %u\nOPT NotTaken %u\nOPT ModMR %u\nOPT Vex3 %u\nOPT Evex %u\nOPT Lock %u\nOPT Rep %u\nOPT Repne %u\nOPT ER %u\nOPT SAE %u\nOPT RD_SAE %u\nOPT RU_SAE %u\nOPT RZ_SAE %u\nOPT ZMask %u\nOPT Unfollow %u\nOPT Overwrite %u\n",
         uint32_t(InstOptions::kReserved), uint32_t(InstOptions::kShortForm), uint32_t(InstOptions::kLongForm), uint32_t(InstOptions::kTaken), uint32_t(InstOptions::kNotTaken),
         uint32_t(InstOptions::kX86_ModMR), uint32_t(InstOptions::kX86_Vex3), uint32_t(InstOptions::kX86_Evex), uint32_t(InstOptions::kX86_Lock), uint32_t(InstOptions::kX86_Rep),
         uint32_t(InstOptions::kX86_Repne), uint32_t(InstOptions::kX86_ER), uint32_t(InstOptions::kX86_SAE), uint32_t(InstOptions::kX86_RD_SAE), uint32_t(InstOptions::kX86_RU_SAE),
         uint32_t(InstOptions::kX86_RZ_SAE), uint32_t(InstOptions::kX86_ZMask), uint32_t(InstOptions::kUnfollow), uint32_t(InstOptions::kOverwrite));
  printf("ALIGN code %u\nALIGN data %u\nALIGN zero %u\n", uint32_t(AlignMode::kCode), uint32_t(AlignMode::kData), uint32_t(AlignMode::kZero));
  printf("NODE inst %u section %u label %u align %u data %u embedlabel %u embeddelta %u constpool %u comment %u sentinel %u\n", uint32_t(NodeType::kInst), uint32_t(NodeType::kSection),
         uint32_t(NodeType::kLabel), uint32_t(NodeType::kAlign), uint32_t(NodeType::kEmbedData), uint32_t(NodeType::kEmbedLabel), uint32_t(NodeType::kEmbedLabelDelta),
         uint32_t(NodeType::kConstPool), uint32_t(NodeType::kComment), uint32_t(NodeType::kSentinel));
  printf("MAXOPS %u %u %u\n", uint32_t(Globals::kMaxOpCount), uint32_t(InstNode::kBaseOpCapacity), uint32_t(InstNode::kFullOpCapacity));
  // type table: for every type id and both register sizes: valid? size of the de-abstracted type
  for (uint32_t rs = 4; rs <= 8; rs += 4) {
    printf("TYPES %u", rs);
    for (uint32_t t = 0; t < 256; t++) {
      TypeId f = TypeUtils::deabstract(TypeId(uint8_t(t)), TypeUtils::deabstract_delta_of_size(rs));
      if (TypeUtils::is_valid(f)) printf(" %u", TypeUtils::size_of(f)); else printf(" -1");
    }
    printf("\n");
  }
  catalog_x86(0);
  catalog_x86(1);
  catalog_a64();
}

// ------------------------------------------------------------------------------------------------ main
int main(int argc, char** argv) {
  if (argc >= 2 && !strcmp(argv[1], "catalog")) { catalog(); return 0; }
  if (argc >= 2 && !strcmp(argv[1], "dec")) {
    // how the x86 validator's accessors read an operand given as four raw words: the tie of X86Dec.dec_x86
    std::string l;
    while (std::getline(std::cin, l)) {
      std::istringstream is(l); std::vector<std::string> t; std::string w;
      while (is >> w) t.push_back(w);
      if (t.size() < 4) continue;
      Operand_ o = mkop(t, 0);
      switch (o.op_type()) {
        case OperandType::kNone: printf("N\n"); break;
        case OperandType::kReg: printf("R %u %u\n", uint32_t(o.as<Reg>().reg_type()), o.id()); break;
        case OperandType::kMem: {
          const x86::Mem& m = o.as<x86::Mem>();
          printf("M %u %u %u %u %u %lld %u %u %d\n", m.size(), uint32_t(m.base_type()), m.base_id(), uint32_t(m.index_type()), m.index_id(),
                 (long long)m.offset(), m.segment_id(), uint32_t(m.get_broadcast()), m.is_reg_home() ? 1 : 0);
          break;
        }
        case OperandType::kImm: printf("I %lld\n", (long long)o.as<Imm>().value()); break;
        case OperandType::kLabel: printf("L\n"); break;
        default: printf("X\n"); break;
      }
    }
    return 0;
  }
  bool verbose = false;
  for (int i = 1; i < argc; i++) if (!strcmp(argv[i], "-v")) verbose = true;
  std::string line;
  Program p; bool in_ref = false; int pidx = -1; bool have = false;
  while (std::getline(std::cin, line)) {
    if (line.empty() || line[0] == '#') continue;
    std::istringstream is(line);
    std::vector<std::string> t; std::string w;
    while (is >> w) t.push_back(w);
    if (t.empty()) continue;
    if (t[0] == "P") {
      p = Program(); in_ref = false; have = true;
      pidx = int(num(t[1])); p.arch = int(num(t[2])); p.base[0] = num(t[3]); p.base[1] = num(t[4]); p.flags = int(num(t[5]));
      continue;
    }
    if (!have) continue;
    if (t[0] == "X") { in_ref = true; continue; }
    if (t[0] == "END") { run_program(p, pidx, verbose); fflush(stdout); have = false; continue; }
    Cmd c;
    size_t at = 0;
    if (t[0][0] == '@') { c.origin = int(num(t[0].substr(1))); at = 1; }
    c.k = t[at];
    c.a.assign(t.begin() + long(at) + 1, t.end());
    (in_ref ? p.ref : p.cmds).push_back(c);
  }
  return 0;
}

// C01 table dumper: prints AsmJit's own x86 opcode / static encoder tables of /repo's working tree, one table per line.
// File-static tables of x86assembler.cpp are reached by including the .cpp into this TU.
#include <asmjit/core.h>
#include <asmjit/x86.h>
#include <asmjit/x86/x86assembler.cpp>
#include <asmjit/x86/x86instdb_p.h>
#include <cstdio>

using namespace asmjit;
using namespace asmjit::x86;

template<typename T, size_t N> static void dump(const char* name, const T (&t)[N]) {
  printf("%s", name);
  for (size_t i = 0; i < N; i++) printf(" %llu", (unsigned long long)t[i]);
  printf("\n");
}

int main() {
  dump("segment_prefix_table", segment_prefix_table);
  dump("opcode_pp_table", opcode_pp_table);
  printf("opcode_mm_table");
  for (size_t i = 0; i < 16; i++) printf(" %u %u %u", unsigned(opcode_mm_table[i].size), unsigned(opcode_mm_table[i].data[0]), unsigned(opcode_mm_table[i].data[1]));
  printf("\n");
  dump("opcode_push_sreg_table", opcode_push_sreg_table);
  dump("opcode_pop_sreg_table", opcode_pop_sreg_table);
  dump("vex_prefix_table", vex_prefix_table);
  dump("ll_by_size_div_16_table", ll_by_size_div_16_table);
  dump("ll_by_reg_type_table", ll_by_reg_type_table);
  dump("cdisp8_shl_table", cdisp8_shl_table);
  dump("mod16_base_table", mod16_base_table);
  dump("mod16_base_index_table", mod16_base_index_table);
  dump("mem_info_table", mem_info_table);
  printf("reg_types %u %u %u %u %u %u %u %u\n", unsigned(RegType::kNone), unsigned(RegType::kLabelTag), unsigned(RegType::kPC), unsigned(RegType::kGp16),
         unsigned(RegType::kGp32), unsigned(RegType::kGp64), unsigned(RegType::kVec128), unsigned(RegType::kVec512));
  printf("opcode_layout %u %u %u %u %u %u %u %u %u\n", unsigned(Opcode::kMM_Shift), unsigned(Opcode::kCDSHL_Shift), unsigned(Opcode::kCDTT_Shift),
         unsigned(Opcode::kModO_Shift), unsigned(Opcode::kPP_Shift), unsigned(Opcode::kW_Shift), unsigned(Opcode::kEvex_W_Shift), unsigned(Opcode::kLL_Shift),
         unsigned(Opcode::kMM_ForceEvex));
  printf("inst_options %u %u %u %u %u %u %u %u %u %u %u %u %u %u\n", unsigned(InstOptions::kX86_ModMR), unsigned(InstOptions::kX86_ModRM),
         unsigned(InstOptions::kX86_Vex3), unsigned(InstOptions::kX86_Vex), unsigned(InstOptions::kX86_Evex), unsigned(InstOptions::kX86_Lock),
         unsigned(InstOptions::kX86_Rep), unsigned(InstOptions::kX86_Repne), unsigned(InstOptions::kX86_XAcquire), unsigned(InstOptions::kX86_XRelease),
         unsigned(InstOptions::kX86_ER), unsigned(InstOptions::kX86_SAE), unsigned(InstOptions::kX86_ZMask), unsigned(InstOptions::kX86_Rex));
  for (uint32_t id = 1; id < Inst::_kIdCount; id++) {
    const InstDB::InstInfo& ii = InstDB::_inst_info_table[id];
    const InstDB::CommonInfo& ci = ii.common_info();
    String s;
    InstAPI::inst_id_to_string(Arch::kX64, id, InstStringifyOptions::kNone, s);
    uint32_t mainw = InstDB::main_opcode_table[ii._main_opcode_index] | ii._main_opcode_value;
    uint32_t altw = InstDB::alt_opcode_table[ii._alt_opcode_index];
    printf("INST %u %s %u %u %u %u %u %u\n", id, s.data(), unsigned(ii._encoding), mainw, altw, unsigned(ci.flags()), unsigned(ci.avx512_flags()), ci.broadcast_size());
    // the validator's signatures that contain a memory operand restricted to a fixed base register (kFlagMemBase): the explicit forms
    // of implicit memory operands.  SIG id name mode opcount {flags regmask}*
    for (uint32_t k = 0; k < ci._inst_signature_count; k++) {
      const InstDB::InstSignature& sg = InstDB::_inst_signature_table[ci._inst_signature_index + k];
      bool fixed = false;
      for (uint32_t j = 0; j < sg.op_count(); j++)
        if (sg.op_signature(j).has_flag(InstDB::OpFlags::kFlagMemBase)) fixed = true;
      if (!fixed) continue;
      printf("SIG %u %s %u %u", id, s.data(), unsigned(sg.mode()), unsigned(sg.op_count()));
      for (uint32_t j = 0; j < sg.op_count(); j++)
        printf(" %llu %u", (unsigned long long)uint64_t(sg.op_signature(j).flags()), unsigned(sg.op_signature(j).reg_mask()));
      printf("\n");
    }
  }
  return 0;
}

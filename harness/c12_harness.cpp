// C12 dumper + correspondence harness: drives the real x86 InstAPI::query_rw_info / validate / query_features of /repo's
// working tree and prints the generated RW tables the query is driven by.
//
//   c12_harness dump            -> the tables (text, one record per line; see tools/c12_gen.py for the reader)
//   c12_harness                 -> command stream on stdin, one canonical answer line per command:
//     T                                      -> "T <rt>:<group>:<size> ..."  register traits of the 32 register types + constants
//     Q arch id options extra nops op...     -> "Q <err> <inst_flags> <rm_feature> <rflags> <wflags> X <f>,<rm> O <f>,<phys>,<rmsz>,<clc>,<r>,<w>,<e> ... ## v=<0|1> s<i>=<0|1>..."
//        arch: 0 = X86, 1 = X64; extra: 0 = none, 1 = {k1}; op := r<regtype>:<id> | m<size>:<base 0 abs,1 label,2 reg,100+id+100*seg>:<index 0 none,1 gp,11..13 vec, optionally + 100*register id> | i<value> | n | l
//        part before " ## " is what the Coq model must reproduce; the part after it is implementation-only (validator verdict of
//        the tuple, and of the tuple with operand i replaced by the memory operand the RW info claims possible).
//     F arch id options extra nops op...     -> "F <err> <feature ids sorted...>"  (query_features)
//     A id nops op...                        -> same answer format as Q for the AArch64 query_rw_info ("## v=" = a64 validator)
//        op := v<arr>:<id> (arr in b8 b16 h2 h4 h8 s2 s4 d1 d2) | s<b|h|s|d|q>:<id> (scalar view) | e<b|h|s|d|q=4B|p=2H>:<id>:<index> (vector element) | x:<id> | w:<id>
//              | m:<baseid>:<mode 0 [xN], 1 [xN, xM] post-index, 2 [xN], #off post-index, 3 [xN, #off]! pre-index, 4 [xN, #off], 5 [xN, xM], 6 [label]>[:<off, default 16>] | i<value>
//     G id nops op...                        -> a64 query_features: "G <err> <output touched> ids..."
//   c12_harness dumpa64         -> "AI <id> <name> <rw_info_index> <flags>", "AR <i> r0..r5" (inst_rw_info_table), "AK <name> <value>"
#include <asmjit/core.h>
#include <asmjit/x86.h>
#include <asmjit/x86/x86instdb_p.h>
#include <asmjit/x86/x86instapi_p.h>
#include <asmjit/x86/x86instapi.cpp>   // file-static rw_reg_group_byte_mask_table (the archive member is then not pulled in)
#include <asmjit/a64.h>
#include <asmjit/arm/a64instapi.cpp>   // file-static inst_rw_info_table (the archive member is then not pulled in)
#include <cstdio>
#include <cstring>
#include <cstdlib>
#include <cinttypes>
#include <string>
#include <vector>
#include <sstream>
#include <iostream>

using namespace asmjit;

static void dump() {
  using namespace x86;
  uint32_t n = Inst::_kIdCount;
  printf("C n_inst %u\n", n);
  for (uint32_t rt = 0; rt <= uint32_t(RegType::kMaxValue); rt++) {
    OperandSignature s = RegUtils::signature_of(RegType(rt));
    printf("E %u %u %u\n", rt, uint32_t(s.reg_group()), s.size());
  }
  for (uint32_t g = 0; g <= uint32_t(RegGroup::kMaxValue); g++)
    printf("GM %u %" PRIu64 "\n", g, uint64_t(InstInternal::rw_reg_group_byte_mask_table[g]));
  printf("K kX86_ZMask %u\n", uint32_t(InstOptions::kX86_ZMask));
  printf("K kX86_ER %u\n", uint32_t(InstOptions::kX86_ER));
  printf("K kMovOp %u\n", uint32_t(InstRWFlags::kMovOp));
  printf("K kImplicitZ %u\n", uint32_t(InstDB::Avx512Flags::kImplicitZ));
  printf("K kIdVpternlogd %u\n", uint32_t(Inst::kIdVpternlogd));
  printf("K kIdVpternlogq %u\n", uint32_t(Inst::kIdVpternlogq));
  printf("K kCategoryGenericEx %u\n", uint32_t(InstDB::RWInfo::kCategoryGenericEx));
  printf("K kCategoryVmov8_1 %u\n", uint32_t(InstDB::RWInfo::kCategoryVmov8_1));
#define KF(N) printf("K f_" #N " %u\n", uint32_t(CpuFeatures::X86::k##N));
  KF(MMX) KF(MMX2) KF(SSE) KF(SSE2) KF(SSE4_1) KF(VPCLMULQDQ) KF(AVX) KF(PCLMULQDQ) KF(AVX512_F) KF(AVX512_VL) KF(AVX2) KF(AVX_IFMA)
  KF(AVX_NE_CONVERT) KF(AVX_VNNI) KF(F16C) KF(FMA) KF(AVX512_BF16) KF(AVX512_BW) KF(AVX512_DQ) KF(AVX512_IFMA) KF(AVX512_VNNI)
#undef KF
#define KI(N) printf("K i_" #N " %u\n", uint32_t(Inst::kId##N));
  KI(Pextrw) KI(Vbroadcastss) KI(Vbroadcastsd) KI(Vpbroadcastb) KI(Vpbroadcastd) KI(Vpbroadcastq) KI(Vpbroadcastw)
  KI(Vcvtpd2dq) KI(Vcvtpd2ps) KI(Vcvttpd2dq)
  KI(Vgatherdpd) KI(Vgatherdps) KI(Vgatherqpd) KI(Vgatherqps) KI(Vpgatherdd) KI(Vpgatherdq) KI(Vpgatherqd) KI(Vpgatherqq)
  KI(Vpslldq) KI(Vpslld) KI(Vpsllq) KI(Vpsllw) KI(Vpsrad) KI(Vpsraq) KI(Vpsraw) KI(Vpsrld) KI(Vpsrldq) KI(Vpsrlq) KI(Vpsrlw)
  KI(Vpermpd) KI(Vpermq)
#undef KI
  printf("K o_Evex %u\n", uint32_t(InstOptions::kX86_Evex));
  printf("K o_AVX512Mask %u\n", uint32_t(InstOptions::kX86_AVX512Mask));
  printf("K o_Vex %u\n", uint32_t(InstOptions::kX86_Vex));
  printf("K o_Vex3 %u\n", uint32_t(InstOptions::kX86_Vex3));
  printf("K kPreferEvex %u\n", uint32_t(InstDB::InstFlags::kPreferEvex));
  printf("K kVexOrEvex %u\n", uint32_t(InstDB::InstFlags::kVex) | uint32_t(InstDB::InstFlags::kEvex));
  uint32_t maxA = 0, maxB = 0, maxAdd = 0;
  for (uint32_t i = 0; i < n; i++) {
    const InstDB::InstInfo& ii = InstDB::_inst_info_table[i];
    const InstDB::CommonInfo& ci = InstDB::_inst_common_info_table[ii._common_info_index];
    String name;
    InstAPI::inst_id_to_string(Arch::kX64, i, InstStringifyOptions::kNone, name);
    uint32_t a = InstDB::rw_info_index_a_table[i], b = InstDB::rw_info_index_b_table[i], ad = ii._additional_info_index;
    if (a > maxA) maxA = a;
    if (b > maxB) maxB = b;
    if (ad > maxAdd) maxAdd = ad;
    printf("I %u %s %u %u %u %u %u\n", i, name.size() ? name.data() : "-", a, b, ad, uint32_t(ci._avx512_flags), uint32_t(ci._flags));
  }
  uint32_t maxIF = 0, maxRF = 0;
  for (uint32_t i = 0; i <= maxAdd; i++) {
    const InstDB::AdditionalInfo& a = InstDB::additional_info_table[i];
    if (a._inst_flags_index > maxIF) maxIF = a._inst_flags_index;
    if (a._rw_flags_index > maxRF) maxRF = a._rw_flags_index;
    printf("A %u %u %u %u %u %u %u %u %u\n", i, a._inst_flags_index, a._rw_flags_index, a._features[0], a._features[1], a._features[2],
           a._features[3], a._features[4], a._features[5]);
  }
  for (uint32_t i = 0; i <= maxIF; i++) printf("G %u %u\n", i, uint32_t(InstDB::inst_flags_table[i]));
  for (uint32_t i = 0; i <= maxRF; i++) printf("L %u %u %u\n", i, InstDB::rw_flags_info_table[i].read_flags, InstDB::rw_flags_info_table[i].write_flags);
  uint32_t maxOp = 0, maxRm = 0;
  for (int t = 0; t < 2; t++) {
    const InstDB::RWInfo* tab = t == 0 ? InstDB::rw_info_a_table : InstDB::rw_info_b_table;
    uint32_t mx = t == 0 ? maxA : maxB;
    for (uint32_t i = 0; i <= mx; i++) {
      const InstDB::RWInfo& r = tab[i];
      printf("R%c %u %u %u", t == 0 ? 'A' : 'B', i, r.category, r.rm_info);
      if (r.rm_info > maxRm) maxRm = r.rm_info;
      for (int k = 0; k < 6; k++) { printf(" %u", r.op_info_index[k]); if (r.op_info_index[k] > maxOp) maxOp = r.op_info_index[k]; }
      printf("\n");
    }
  }
  for (uint32_t i = 0; i <= maxOp; i++) {
    const InstDB::RWInfoOp& o = InstDB::rw_info_op_table[i];
    printf("OP %u %" PRIu64 " %" PRIu64 " %u %u %u\n", i, o.r_byte_mask, o.w_byte_mask, o.phys_id, o.consecutive_lead_count, uint32_t(o.flags));
  }
  for (uint32_t i = 0; i <= maxRm; i++) {
    const InstDB::RWInfoRm& r = InstDB::rw_info_rm_table[i];
    printf("RM %u %u %u %u %u %u\n", i, r.category, r.rm_ops_mask, r.fixed_size, r.flags, r.rm_feature);
  }
}

struct Cmd {
  Arch arch;
  uint32_t id;
  uint32_t options;
  int extra;
  size_t nops;
  Operand_ ops[Globals::kMaxOpCount];
  bool ok;
};

static x86::Mem make_mem(Arch arch, uint32_t size, int base, int index) {
  x86::Mem m;
  bool x64 = arch == Arch::kX64;
  x86::Gp b = x64 ? x86::Gp(x86::rbx) : x86::Gp(x86::ebx);
  int seg = 0;
  uint32_t index_id = 0;
  bool index_id_given = index >= 100;     // index = kind + 100 * register id (default ids: rsi/esi, vector 5)
  if (index_id_given) { index_id = uint32_t(index / 100); index = index % 100; }
  int32_t disp = 16;
  if (base >= 100) {  // 100 + gp id + 100 * segment id : a specific base register (native size), segment override, no displacement
    b.set_id(uint32_t((base - 100) % 100));
    seg = (base - 100) / 100;
    base = 2;
    disp = 0;
  }
  if (base == 2) {
    if (index == 0) m = x86::ptr(b, disp);
    else if (index == 1) m = x86::ptr(b, x64 ? x86::Gp(x86::rsi) : x86::Gp(x86::esi), 0, 16);
    else if (index == 11) m = x86::ptr(b, x86::xmm5, 0, 16);
    else if (index == 12) m = x86::ptr(b, x86::ymm5, 0, 16);
    else m = x86::ptr(b, x86::zmm5, 0, 16);
  }
  else if (base == 1) {
    Label L; L.set_id(0);
    m = x86::ptr(L, 16);
  }
  else {
    m = x86::ptr(uint64_t(0x1122334455667788ull));
  }
  if (base != 2 && index != 0) {
    if (index == 1) m.set_index(x64 ? x86::Gp(x86::rsi) : x86::Gp(x86::esi));
    else if (index == 11) m.set_index(x86::xmm5);
    else if (index == 12) m.set_index(x86::ymm5);
    else m.set_index(x86::zmm5);
  }
  if (index_id_given && index != 0) m.set_index_id(index_id);
  m.set_size(size);
  if (seg) m.set_segment(x86::SReg(uint32_t(seg)));
  return m;
}

static bool parse_cmd(std::istringstream& ss, Cmd& c) {
  int arch; unsigned id, options; int extra; unsigned nops;
  if (!(ss >> arch >> id >> options >> extra >> nops)) return false;
  if (nops > Globals::kMaxOpCount) return false;
  c.arch = arch ? Arch::kX64 : Arch::kX86;
  c.id = id; c.options = options; c.extra = extra; c.nops = nops;
  for (size_t i = 0; i < Globals::kMaxOpCount; i++) c.ops[i] = Operand();
  for (unsigned i = 0; i < nops; i++) {
    std::string t;
    if (!(ss >> t) || t.empty()) return false;
    if (t[0] == 'r') {
      unsigned rt, rid;
      if (sscanf(t.c_str(), "r%u:%u", &rt, &rid) != 2 || rt > 31) return false;
      c.ops[i] = Reg(RegUtils::signature_of(RegType(rt)), rid);
    }
    else if (t[0] == 'm') {
      unsigned sz; int b, x;
      if (sscanf(t.c_str(), "m%u:%d:%d", &sz, &b, &x) != 3) return false;
      c.ops[i] = make_mem(c.arch, sz, b, x);
    }
    else if (t[0] == 'i') {
      c.ops[i] = Imm(int64_t(strtoll(t.c_str() + 1, nullptr, 10)));
    }
    else if (t[0] == 'l') {
      Label L; L.set_id(0);
      c.ops[i] = L;
    }
    else if (t[0] == 'n') {
      c.ops[i] = Operand();
    }
    else return false;
  }
  return true;
}

static BaseInst make_inst(const Cmd& c) {
  if (c.extra) return BaseInst(c.id, InstOptions(c.options), x86::k1);
  return BaseInst(c.id, InstOptions(c.options));
}

static int do_validate(const Cmd& c, const Operand_* ops) {
  BaseInst inst = make_inst(c);
  return InstAPI::validate(c.arch, inst, ops, c.nops, ValidationFlags::kNone) == Error::kOk ? 1 : 0;
}

static void do_query(const Cmd& c) {
  InstRWInfo out;
  memset(&out, 0, sizeof(out));
  BaseInst inst = make_inst(c);
  Error err = InstAPI::query_rw_info(c.arch, inst, c.ops, c.nops, &out);
  if (err != Error::kOk) {
    printf("Q %u ## v=%d\n", err == Error::kInvalidInstruction ? 1u : 2u, do_validate(c, c.ops));
    return;
  }
  std::string s;
  char buf[256];
  snprintf(buf, sizeof buf, "Q 0 %u %u %u %u X %u,%" PRIu64, uint32_t(out._inst_flags), uint32_t(out._rm_feature), uint32_t(out._read_flags),
           uint32_t(out._write_flags), uint32_t(out._extra_reg._op_flags), out._extra_reg._read_byte_mask);
  s += buf;
  for (size_t i = 0; i < c.nops; i++) {
    const OpRWInfo& o = out._operands[i];
    snprintf(buf, sizeof buf, " O %u,%u,%u,%u,%" PRIu64 ",%" PRIu64 ",%" PRIu64, uint32_t(o._op_flags), uint32_t(o._phys_id), uint32_t(o._rm_size),
             uint32_t(o._consecutive_lead_count), o._read_byte_mask, o._write_byte_mask, o._extend_byte_mask);
    s += buf;
  }
  int v = do_validate(c, c.ops);
  snprintf(buf, sizeof buf, " ## v=%d", v);
  s += buf;
  for (size_t i = 0; i < c.nops; i++) {
    const OpRWInfo& o = out._operands[i];
    if (c.ops[i].is_reg() && Support::test(o._op_flags, OpRWFlags::kRegMem)) {
      Operand_ ops2[Globals::kMaxOpCount];
      memcpy(ops2, c.ops, sizeof(ops2));
      ops2[i] = make_mem(c.arch, o._rm_size, 2, 0);
      snprintf(buf, sizeof buf, " s%u=%d", unsigned(i), do_validate(c, ops2));
      s += buf;
    }
  }
  puts(s.c_str());
}

static void do_features(const Cmd& c) {
  CpuFeatures f;
  BaseInst inst = make_inst(c);
  Error err = InstAPI::query_features(c.arch, inst, c.ops, c.nops, &f);
  if (err != Error::kOk) { printf("F 1\n"); return; }
  std::string s = "F 0";
  char buf[32];
  for (uint32_t i = 0; i < 256; i++) if (f.has(i)) { snprintf(buf, sizeof buf, " %u", i); s += buf; }
  puts(s.c_str());
}


// ------------------------------------------------------------------ AArch64
static void dump_a64() {
  using namespace a64;
  uint32_t maxrw = 0;
  for (uint32_t i = 0; i < Inst::_kIdCount; i++) {
    const InstDB::InstInfo& ii = InstDB::_inst_info_table[i];
    String name;
    InstAPI::inst_id_to_string(Arch::kAArch64, i, InstStringifyOptions::kNone, name);
    if (ii.rw_info_index() > maxrw) maxrw = ii.rw_info_index();
    printf("AI %u %s %u %u\n", i, name.size() ? name.data() : "-", ii.rw_info_index(), ii.flags());
  }
  for (uint32_t i = 0; i <= maxrw; i++) {
    const InstInternal::InstRWInfoData& r = InstInternal::inst_rw_info_table[i];
    printf("AR %u %u %u %u %u %u %u\n", i, r.rwx[0], r.rwx[1], r.rwx[2], r.rwx[3], r.rwx[4], r.rwx[5]);
  }
  printf("AK kInstFlagConsecutive %u\n", uint32_t(InstDB::kInstFlagConsecutive));
  printf("AK kRealId %u\n", uint32_t(InstIdParts::kRealId));
  printf("AK kIdTbl_v %u\n", uint32_t(Inst::kIdTbl_v));
  printf("AK kIdTbx_v %u\n", uint32_t(Inst::kIdTbx_v));
  for (uint32_t i = 0; i < 8; i++) printf("AE %u %u\n", i, InstInternal::element_type_size_table[i]);
}

static bool parse_a64_op(const std::string& t, Operand_& out) {
  using namespace a64;
  if (t[0] == 'v') {
    char arr[8]; unsigned id;
    if (sscanf(t.c_str(), "v%7[a-z0-9]:%u", arr, &id) != 2) return false;
    std::string a(arr);
    Vec v(Vec::make_v128(id));
    if (a == "b8") out = v.b8(); else if (a == "b16") out = v.b16(); else if (a == "h4") out = v.h4(); else if (a == "h8") out = v.h8();
    else if (a == "s2") out = v.s2(); else if (a == "s4") out = v.s4(); else if (a == "d2") out = v.d2();
    else if (a == "d1") out = Vec::make_v64_with_element_type(VecElementType::kD, id);
    else if (a == "h2") out = v.h2();
    else return false;
    return true;
  }
  if (t[0] == 'e') {
    char k; unsigned id, idx;
    if (sscanf(t.c_str(), "e%c:%u:%u", &k, &id, &idx) != 3) return false;
    Vec v(Vec::make_v128(id));
    if (k == 'b') out = v.b(idx); else if (k == 'h') out = v.h(idx); else if (k == 's') out = v.s(idx); else if (k == 'd') out = v.d(idx);
    else if (k == 'q') out = v.b4(idx);      // 4B[idx]
    else if (k == 'p') out = v.h2(idx);      // 2H[idx]
    else return false;
    return true;
  }
  if (t[0] == 's' && t.size() > 2 && t[2] == ':') {   // scalar views sb sh ss sd sq
    unsigned id;
    if (sscanf(t.c_str() + 2, ":%u", &id) != 1) return false;
    switch (t[1]) {
      case 'b': out = Vec::make_b(id); return true;
      case 'h': out = Vec::make_h(id); return true;
      case 's': out = Vec::make_s(id); return true;
      case 'd': out = Vec::make_d(id); return true;
      case 'q': out = Vec::make_q(id); return true;
      default: return false;
    }
  }
  if (t[0] == 'x' || t[0] == 'w') {
    unsigned id;
    if (sscanf(t.c_str() + 1, ":%u", &id) != 1) return false;
    out = t[0] == 'x' ? Gp(Gp::make_r64(id)) : Gp(Gp::make_r32(id));
    return true;
  }
  if (t[0] == 'm') {
    unsigned b; int mode; int off = 16;
    if (sscanf(t.c_str(), "m:%u:%d:%d", &b, &mode, &off) < 2) return false;
    Gp base = Gp::make_r64(b);
    Gp idx = Gp::make_r64(7);
    switch (mode) {
      case 0: out = ptr(base); break;
      case 1: out = ptr_post(base, idx); break;
      case 2: out = ptr_post(base, off); break;
      case 3: out = ptr_pre(base, off); break;
      case 4: out = ptr(base, off); break;
      case 5: out = ptr(base, idx); break;
      case 6: { Label L; L.set_id(0); out = ptr(L); break; }     // [PC, #off]
      default: return false;
    }
    return true;
  }
  if (t[0] == 'i') { out = Imm(int64_t(strtoll(t.c_str() + 1, nullptr, 10))); return true; }
  if (t[0] == 'n') { out = Operand(); return true; }
  return false;
}

static void do_a64(std::istringstream& ss) {
  unsigned id, nops;
  if (!(ss >> id >> nops) || nops > Globals::kMaxOpCount) { printf("A PARSE-ERROR\n"); return; }
  Operand_ ops[Globals::kMaxOpCount];
  for (size_t i = 0; i < Globals::kMaxOpCount; i++) ops[i] = Operand();
  for (unsigned i = 0; i < nops; i++) {
    std::string t;
    if (!(ss >> t) || t.empty() || !parse_a64_op(t, ops[i])) { printf("A PARSE-ERROR\n"); return; }
  }
  InstRWInfo out;
  memset(&out, 0, sizeof(out));
  BaseInst inst(id);
  Error err = InstAPI::query_rw_info(Arch::kAArch64, inst, ops, nops, &out);
  int v = InstAPI::validate(Arch::kAArch64, inst, ops, nops, ValidationFlags::kNone) == Error::kOk ? 1 : 0;
  if (err != Error::kOk) { printf("A 1 ## v=%d\n", v); return; }
  std::string s;
  char buf[256];
  snprintf(buf, sizeof buf, "A 0 %u %u %u %u X %u,%" PRIu64, uint32_t(out._inst_flags), uint32_t(out._rm_feature), uint32_t(out._read_flags),
           uint32_t(out._write_flags), uint32_t(out._extra_reg._op_flags), out._extra_reg._read_byte_mask);
  s += buf;
  for (size_t i = 0; i < nops; i++) {
    const OpRWInfo& o = out._operands[i];
    snprintf(buf, sizeof buf, " O %u,%u,%u,%u,%" PRIu64 ",%" PRIu64 ",%" PRIu64, uint32_t(o._op_flags), uint32_t(o._phys_id), uint32_t(o._rm_size),
             uint32_t(o._consecutive_lead_count), o._read_byte_mask, o._write_byte_mask, o._extend_byte_mask);
    s += buf;
  }
  snprintf(buf, sizeof buf, " ## v=%d", v);
  s += buf;
  puts(s.c_str());
}

int main(int argc, char** argv) {
  if (argc > 1 && strcmp(argv[1], "dump") == 0) { dump(); return 0; }
  if (argc > 1 && strcmp(argv[1], "dumpa64") == 0) { dump_a64(); return 0; }
  std::string line;
  while (std::getline(std::cin, line)) {
    if (line.empty()) continue;
    std::istringstream ss(line);
    std::string k;
    ss >> k;
    if (k == "T") {
      std::string s = "T";
      char buf[64];
      for (uint32_t rt = 0; rt <= 31; rt++) {
        OperandSignature sg = RegUtils::signature_of(RegType(rt));
        snprintf(buf, sizeof buf, " %u:%u:%u", rt, uint32_t(sg.reg_group()), sg.size());
        s += buf;
      }
      snprintf(buf, sizeof buf, " zmask=%u er=%u movop=%u", uint32_t(InstOptions::kX86_ZMask), uint32_t(InstOptions::kX86_ER), uint32_t(InstRWFlags::kMovOp));
      s += buf;
      char big[512];
      snprintf(big, sizeof big, " R=%u W=%u RegMem=%u Consecutive=%u ZExt=%u RegPhysId=%u MemPhysId=%u MemBaseRead=%u MemBaseRW=%u MemIndexRead=%u MemIndexRW=%u"
               " rmPextrw=%u rmMovssMovsd=%u rmFeatureIfRMI=%u implicitZ=%u idBad=%u",
               uint32_t(OpRWFlags::kRead), uint32_t(OpRWFlags::kWrite), uint32_t(OpRWFlags::kRegMem), uint32_t(OpRWFlags::kConsecutive), uint32_t(OpRWFlags::kZExt),
               uint32_t(OpRWFlags::kRegPhysId), uint32_t(OpRWFlags::kMemPhysId), uint32_t(OpRWFlags::kMemBaseRead), uint32_t(OpRWFlags::kMemBaseRW),
               uint32_t(OpRWFlags::kMemIndexRead), uint32_t(OpRWFlags::kMemIndexRW), uint32_t(x86::InstDB::RWInfoRm::kFlagPextrw),
               uint32_t(x86::InstDB::RWInfoRm::kFlagMovssMovsd), uint32_t(x86::InstDB::RWInfoRm::kFlagFeatureIfRMI),
               uint32_t(x86::InstDB::Avx512Flags::kImplicitZ), uint32_t(Reg::kIdBad));
      s += big;
      puts(s.c_str());
    }
    else if (k == "A") {
      do_a64(ss);
    }
    else if (k == "G") {      // G id nops op... : a64 query_features -> "G <err> <was the output touched 0|1> ids..."
      unsigned id, nops;
      Operand_ ops[Globals::kMaxOpCount];
      bool ok = bool(ss >> id >> nops) && nops <= Globals::kMaxOpCount;
      for (unsigned i = 0; ok && i < nops; i++) { std::string t; ok = bool(ss >> t) && !t.empty() && parse_a64_op(t, ops[i]); }
      if (!ok) { printf("G PARSE-ERROR\n"); continue; }
      CpuFeatures f;
      f.add(1);                      // sentinel: a real implementation resets the output first
      Error err = InstAPI::query_features(Arch::kAArch64, BaseInst(id), ops, nops, &f);
      std::string s2 = err == Error::kOk ? "G 0" : "G 1";
      s2 += f.has(1) ? " 0" : " 1";
      char buf[16];
      for (uint32_t i = 2; i < 256; i++) if (f.has(i)) { snprintf(buf, sizeof buf, " %u", i); s2 += buf; }
      puts(s2.c_str());
    }
    else if (k == "Q" || k == "F") {
      Cmd c;
      if (!parse_cmd(ss, c)) { printf("%s PARSE-ERROR\n", k.c_str()); continue; }
      if (k == "Q") do_query(c); else do_features(c);
    }
    else printf("? unknown\n");
  }
  return 0;
}

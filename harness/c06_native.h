// C06: native execution of an emitted argument shuffle on the x86-64 host (strengthens replays: the CPU is the judge).
// The machine code of the shuffle (Assembler bytes) is wrapped into a function
//     void run(const uint8_t* in, uint8_t* out)
// that (1) saves the callee-saved registers and `out`, (2) reserves a 1024-byte frame and fills it from in+640, (3) loads YMM0..15 from
// in+128 and every GP register but RSP from in+0, (4) executes the shuffle bytes with RSP = frame base (16-byte aligned), (5) stores
// all GP registers (RSP slot = 0), YMM0..15 and the frame to `out` in the same layout, (6) restores and returns.
// Layout of in/out: [0,128) 16 GP registers by id; [128,640) 16 x 32 bytes YMM; [640,1664) the stack frame [rsp, rsp+1024).
#pragma once
#include <asmjit/core.h>
#include <asmjit/x86.h>
#include <cstdint>
#include <cstring>
#include <string>
#include <vector>

namespace c06native {

static const size_t kBlob = 128 + 512 + 1024;

static inline bool host_ok() {
#if defined(__x86_64__)
  return asmjit::CpuInfo::host().has_feature(asmjit::CpuFeatures::X86::kAVX);
#else
  return false;
#endif
}

// returns false if the code could not be built
static inline bool run(const std::vector<uint8_t>& shuffle, const uint8_t* in, uint8_t* out) {
  using namespace asmjit;
  using namespace asmjit::x86;
  JitRuntime rt;
  CodeHolder code;
  if (code.init(rt.environment(), rt.cpu_features()) != Error::kOk) return false;
  Assembler a(&code);

  const Gp saved[6] = { rbx, rbp, r12, r13, r14, r15 };
  for (const Gp& r : saved) a.push(r);
  a.push(rsi);                                   // `out`; RSP is now 16-byte aligned (8 + 7 * 8 = 64)
  a.sub(rsp, 1024);

  // frame <- in[640..1664)
  a.mov(rcx, 128);
  a.lea(rsi, ptr(rdi, 640));
  a.mov(rdx, rsp);
  Label fill = a.new_label();
  a.bind(fill);
  a.mov(rax, ptr(rsi));
  a.mov(ptr(rdx), rax);
  a.add(rsi, 8);
  a.add(rdx, 8);
  a.dec(rcx);
  a.jnz(fill);

  for (uint32_t i = 0; i < 16; i++) a.vmovups(ymm(i), ptr(rdi, int32_t(128 + 32 * i)));
  for (uint32_t i = 0; i < 16; i++) {
    if (i == 4 || i == 7) continue;              // rsp stays, rdi last
    a.mov(gpq(i), ptr(rdi, int32_t(8 * i)));
  }
  a.mov(rdi, ptr(rdi, 8 * 7));

  a.embed(shuffle.data(), shuffle.size());

  // store: RAX first (needed as the pointer)
  a.push(rax);
  a.mov(rax, ptr(rsp, 1024 + 8));                // `out`
  for (uint32_t i = 1; i < 16; i++) {
    if (i == 4) continue;
    a.mov(ptr(rax, int32_t(8 * i)), gpq(i));
  }
  a.pop(rcx);
  a.mov(ptr(rax), rcx);
  a.mov(qword_ptr(rax, 8 * 4), 0);
  for (uint32_t i = 0; i < 16; i++) a.vmovups(ptr(rax, int32_t(128 + 32 * i)), ymm(i));
  // out[640..1664) <- frame
  a.mov(rcx, 128);
  a.mov(rsi, rsp);
  a.lea(rdx, ptr(rax, 640));
  Label drain = a.new_label();
  a.bind(drain);
  a.mov(rbx, ptr(rsi));
  a.mov(ptr(rdx), rbx);
  a.add(rsi, 8);
  a.add(rdx, 8);
  a.dec(rcx);
  a.jnz(drain);

  a.vzeroupper();
  a.add(rsp, 1024);
  a.pop(rsi);
  for (int i = 5; i >= 0; i--) a.pop(saved[i]);
  a.ret();

  typedef void (*Fn)(const uint8_t*, uint8_t*);
  Fn fn = nullptr;
  if (rt.add(&fn, &code) != Error::kOk || !fn) return false;
  fn(in, out);
  rt.release(fn);
  return true;
}

static inline bool parse_hex(const char* s, std::vector<uint8_t>& out) {
  out.clear();
  auto val = [](char c) -> int { return c >= '0' && c <= '9' ? c - '0' : c >= 'a' && c <= 'f' ? c - 'a' + 10 : c >= 'A' && c <= 'F' ? c - 'A' + 10 : -1; };
  while (s[0] && s[1]) {
    int h = val(s[0]), l = val(s[1]);
    if (h < 0 || l < 0) break;
    out.push_back(uint8_t(h * 16 + l));
    s += 2;
  }
  return true;
}

static inline std::string to_hex(const uint8_t* p, size_t n) {
  static const char* d = "0123456789abcdef";
  std::string s;
  s.reserve(n * 2);
  for (size_t i = 0; i < n; i++) { s += d[p[i] >> 4]; s += d[p[i] & 15]; }
  return s;
}

} // namespace c06native

// C09 translator: evaluates, on grids of arguments, the parts of jitallocator.cpp the model transliterates as pure functions
// (CreateParams normalisation of JitAllocator_new_impl, JitAllocator_size_to_pool_id, JitAllocator_calculate_ideal_block_size)
// and prints the named constants. tools/c09_tables.py turns the output into coq/gen/JitTables.v.
#include <cinttypes>
#include <cstdint>
#include <cstdio>
#include <vector>
#define private public
#define protected public
#include <asmjit/core.h>
#include <asmjit/core/jitallocator.cpp>
#undef private
#undef protected

using namespace asmjit;

static JitAllocatorPrivateImpl* impl_of(JitAllocator& a) { return static_cast<JitAllocatorPrivateImpl*>(a._impl); }

int main() {
  printf("CONST %u %u %u %u\n", unsigned(kJitAllocatorMultiPoolCount), unsigned(kJitAllocatorBaseGranularity), unsigned(kJitAllocatorMaxBlockSize),
         unsigned(VirtMem::info().page_granularity));
  // option bits and error codes the python generator / the harness protocol rely on
  printf("OPT %u %u %u %u %u %u %u %u\n", unsigned(JitAllocatorOptions::kUseDualMapping), unsigned(JitAllocatorOptions::kUseMultiplePools),
         unsigned(JitAllocatorOptions::kFillUnusedMemory), unsigned(JitAllocatorOptions::kImmediateRelease),
         unsigned(JitAllocatorOptions::kDisableInitialPadding), unsigned(JitAllocatorOptions::kUseLargePages),
         unsigned(JitAllocatorOptions::kAlignBlockSizeToLargePage), unsigned(JitAllocatorOptions::kCustomFillPattern));
  printf("FLAGS %u %u %u %u\n", unsigned(JitAllocatorBlock::kFlagInitialPadding), unsigned(JitAllocatorBlock::kFlagEmpty),
         unsigned(JitAllocatorBlock::kFlagDirty), unsigned(JitAllocatorBlock::kFlagIncremental));
  printf("FILLPAT %u\n", unsigned(JitAllocator_default_fill_pattern()));
  const uint32_t grans[] = {0, 1, 32, 63, 64, 65, 96, 127, 128, 129, 192, 255, 256, 257, 512, 1024};
  const uint32_t sizes[] = {0, 4096, 65535, 65536, 65537, 98304, 131072, 131073, 1u << 20, 1u << 27, 1u << 28, (1u << 28) + 1, 1u << 29, 3u << 27};
  for (uint32_t g : grans) for (uint32_t bs : sizes) for (uint32_t multi = 0; multi < 2; multi++) {
    JitAllocator::CreateParams p; p.granularity = g; p.block_size = bs;
    p.options = multi ? JitAllocatorOptions::kUseMultiplePools : JitAllocatorOptions::kNone;
    JitAllocator a(&p);
    JitAllocatorPrivateImpl* im = impl_of(a);
    printf("CREATE %u %u %u %u %u %u\n", g, bs, multi, unsigned(im->granularity), unsigned(im->block_size), unsigned(im->pool_count));
  }
  for (uint32_t g : {64u, 128u, 256u}) for (uint32_t multi = 0; multi < 2; multi++) {
    JitAllocator::CreateParams p; p.granularity = g; p.block_size = 65536;
    p.options = multi ? JitAllocatorOptions::kUseMultiplePools : JitAllocatorOptions::kNone;
    JitAllocator a(&p);
    JitAllocatorPrivateImpl* im = impl_of(a);
    std::vector<size_t> ss;
    for (size_t k = 1; k <= 48; k++) ss.push_back(k * g);
    for (size_t k : {63u, 64u, 65u, 127u, 128u, 129u, 1023u, 1024u, 1025u, 4096u, 65536u}) { ss.push_back(k * g); ss.push_back(k * g * 2); ss.push_back(k * g * 4); }
    for (size_t s : ss) printf("POOL %u %u %" PRIu64 " %" PRIu64 "\n", g, unsigned(im->pool_count), uint64_t(s), uint64_t(JitAllocator_size_to_pool_id(im, s)));
  }
  // argument classification of alloc(): sizes that must be refused (0, beyond 2^31 - 1 after rounding, wrap-around at 2^64) and
  // small valid ones; code 0 = ok, 1 = kInvalidArgument, 2 = kTooLarge, 9 = anything else
  for (uint32_t g : {64u, 128u, 256u}) {
    JitAllocator::CreateParams p; p.granularity = g; p.block_size = 65536;
    JitAllocator a(&p);
    const uint64_t M = ~uint64_t(0);
    const uint64_t ss[] = {0, 1, g - 1, g, g + 1, 4095, (uint64_t(1) << 31) - g + 1, (uint64_t(1) << 31) - 1, uint64_t(1) << 31, (uint64_t(1) << 31) + 1,
                           uint64_t(1) << 32, uint64_t(1) << 40, uint64_t(1) << 63, M - 2 * g, M - g, M - g + 1, M - g + 2, M - 1, M};
    for (uint64_t sz : ss) {
      JitAllocator::Span sp;
      Error e = a.alloc(Out(sp), size_t(sz));
      int code = e == Error::kOk ? 0 : e == Error::kInvalidArgument ? 1 : e == Error::kTooLarge ? 2 : 9;
      if (e == Error::kOk) (void)a.release(sp.rx());
      printf("ALLOCERR %u %" PRIu64 " %d\n", g, sz, code);
    }
  }
  for (uint32_t g : {64u, 256u}) for (uint32_t bs : {65536u, 131072u, 1u << 26}) for (uint32_t multi = 0; multi < 2; multi++) for (uint32_t nopad = 0; nopad < 2; nopad++) {
    JitAllocator::CreateParams p; p.granularity = g; p.block_size = bs;
    p.options = (multi ? JitAllocatorOptions::kUseMultiplePools : JitAllocatorOptions::kNone) | (nopad ? JitAllocatorOptions::kDisableInitialPadding : JitAllocatorOptions::kNone);
    JitAllocator a(&p);
    JitAllocatorPrivateImpl* im = impl_of(a);
    for (int round = 0; round < 3; round++) {
      for (size_t pi = 0; pi < im->pool_count; pi++) {
        JitAllocatorPool* pool = &im->pools[pi];
        size_t gp = pool->granularity;
        JitAllocatorBlock* last = pool->blocks.last();
        size_t lb = last ? last->block_size() : 0;
        size_t cur = last ? lb : size_t(bs);
        size_t nxt = cur < kJitAllocatorMaxBlockSize ? cur * 2 : cur;
        std::vector<size_t> ss = {gp, 2 * gp, size_t(bs) - gp, size_t(bs), size_t(bs) + gp, nxt - 2 * gp, nxt - gp, nxt, nxt + gp, nxt + 2 * gp, 3 * nxt / 2, 2 * nxt, 2 * nxt + gp, 5 * size_t(bs) + gp};
        for (size_t s : ss) {
          if (s == 0 || s > (1u << 30)) continue;
          printf("IDEAL %u %u %u %u %" PRIu64 " %" PRIu64 " %" PRIu64 " %" PRIu64 "\n", g, unsigned(im->pool_count), bs, nopad ? 0u : 1u, uint64_t(pi), uint64_t(lb), uint64_t(s),
                 uint64_t(JitAllocator_calculate_ideal_block_size(im, pool, s)));
        }
      }
      // create one more block in every pool (sizes that are multiples of the coarsest granularity go to the last pool, etc.)
      if (bs > (1u << 25) && round >= 1) break;
      for (size_t pi = 0; pi < im->pool_count; pi++) {
        JitAllocator::Span sp;
        size_t gp = im->pools[pi].granularity;
        size_t want = (pi + 1 == im->pool_count) ? gp : gp;           // exactly one granule of that pool: lands in pool pi
        if (im->pool_count > 1 && pi + 1 < im->pool_count && (want % (gp * 2)) == 0) want += gp;
        JitAllocatorBlock* last = im->pools[pi].blocks.last();
        size_t big = last ? last->block_size() : 0;                   // fill the last block so that the next request needs a new one
        (void)a.alloc(Out(sp), want);
        if (big) { JitAllocator::Span sp2; (void)a.alloc(Out(sp2), big); }
      }
    }
  }
  return 0;
}

// C02 correspondence harness: drives the REAL a64::Assembler of /repo's working tree.
//   c02_harness --names              -> "<inst id> <mnemonic> <encoding class number>" for every instruction id (InstAPI::inst_id_to_string)
//   c02_harness  < commands          -> one answer line per command
// command:  E <case> <asmjit inst id> <db mnemonic number (ignored here)> <nops> <operand>...
// operands: g:<x>:<id>                               GP register (x = 0 W, 1 X), AsmJit register id
//           v:<regtype b|h|s|d|q>:<elemtype 0..6>:<elemindex or -1>:<id>   vector register
//           i:<predicate>:<value>                    immediate (signed 64-bit) with predicate (shift / extend kind)
//           m:<base id>:<has index>:<index x>:<index id>:<shift op>:<shift>:<offset>:<mode 0 fixed,1 pre,2 post>
//           l:<disp>                                 memory operand whose base is a label bound at pc + disp
//           r:<disp>                                 label bound at pc + disp
//           k:<cc>                                   condition code folded into the instruction id (b.<cond>)
// answer :  <case> <ok 1|0> <err code> <nwords> <w0> <w1> ...      (words little-endian decoded, decimal)
#include <cstdio>
#include <cstdlib>
#include <cstring>
#include <cstdint>
#include <string>
#include <vector>
#include <asmjit/core.h>
#include <asmjit/a64.h>
#include <asmjit/arm/a64instdb_p.h>

using namespace asmjit;

static const size_t kBase = (size_t(1) << 27) + 4096 * 3;          // emit position: +-128 MiB reachable inside the buffer
static const size_t kSize = (size_t(1) << 28) + 4096 * 8;

struct Ctx {
  Environment env;
  CodeHolder code;
  a64::Assembler* a = nullptr;
  size_t labels = 0;

  void init() {
    if (a) { delete a; a = nullptr; }
    code.reset(ResetPolicy::kHard);
    env = Environment(Arch::kAArch64);
    if (code.init(env) != Error::kOk) { fprintf(stderr, "init failed\n"); exit(3); }
    a = new a64::Assembler(&code);
    Section* text = code.text_section();
    if (code.reserve_buffer(&text->_buffer, kSize) != Error::kOk) { fprintf(stderr, "reserve failed\n"); exit(3); }
    text->_buffer._size = kSize;
    if (a->set_offset(kBase) != Error::kOk) { fprintf(stderr, "set_offset failed\n"); exit(3); }
    labels = 0;
  }

  // a label bound at kBase + disp (if that lies inside the buffer; else an invalid request of the generator)
  bool label_at(int64_t disp, Label& out) {
    int64_t pos = int64_t(kBase) + disp;
    if (pos < 0 || pos > int64_t(kSize)) return false;
    if (labels > 60000) init();
    Label L = a->new_label();
    if (a->set_offset(size_t(pos)) != Error::kOk) return false;
    if (a->bind(L) != Error::kOk) return false;
    a->set_offset(kBase);
    labels++;
    out = L;
    return true;
  }
};

static std::vector<std::string> split(const std::string& s, char c) {
  std::vector<std::string> out; size_t p = 0;
  for (;;) { size_t q = s.find(c, p); if (q == std::string::npos) { out.push_back(s.substr(p)); break; } out.push_back(s.substr(p, q - p)); p = q + 1; }
  return out;
}

int main(int argc, char** argv) {
  if (argc > 1 && !strcmp(argv[1], "--names")) {
    for (uint32_t id = 1; id < a64::Inst::_kIdCount; id++) {
      String s;
      InstAPI::inst_id_to_string(Arch::kAArch64, id, InstStringifyOptions::kNone, s);
      printf("%u %s %u\n", id, s.data(), unsigned(a64::InstDB::_inst_info_table[id]._encoding));
    }
    return 0;
  }
  Ctx cx; cx.init();
  char* line = nullptr; size_t cap = 0; ssize_t n;
  while ((n = getline(&line, &cap, stdin)) > 0) {
    while (n > 0 && (line[n - 1] == '\n' || line[n - 1] == '\r')) line[--n] = 0;
    if (!n) continue;
    std::vector<std::string> t;
    { std::string s(line); size_t p = 0; while (p < s.size()) { size_t q = s.find(' ', p); if (q == std::string::npos) q = s.size(); if (q > p) t.push_back(s.substr(p, q - p)); p = q + 1; } }
    if (t.size() < 5 || t[0] != "E") { printf("BAD\n"); continue; }
    const std::string& cas = t[1];
    uint32_t inst_id = uint32_t(strtoul(t[2].c_str(), nullptr, 10));
    size_t nops = size_t(atoi(t[4].c_str()));
    Operand_ ops[6]; size_t cnt = 0; bool gen_error = false;
    for (size_t i = 0; i < 6; i++) ops[i].reset();
    for (size_t i = 0; i < nops && 5 + i < t.size(); i++) {
      std::vector<std::string> f = split(t[5 + i], ':');
      char k = f[0][0];
      if (k == 'g' && f.size() == 3) {
        uint32_t id = uint32_t(strtoul(f[2].c_str(), nullptr, 10));
        ops[cnt++] = (f[1] == "1") ? a64::Gp::make_r64(id) : a64::Gp::make_r32(id);
      } else if (k == 'v' && f.size() == 5) {
        uint32_t id = uint32_t(strtoul(f[4].c_str(), nullptr, 10));
        a64::Vec v;
        switch (f[1][0]) { case 'b': v = a64::Vec::make_v8(id); break; case 'h': v = a64::Vec::make_v16(id); break; case 's': v = a64::Vec::make_v32(id); break;
                           case 'd': v = a64::Vec::make_v64(id); break; default: v = a64::Vec::make_v128(id); break; }
        v.set_element_type(a64::VecElementType(atoi(f[2].c_str())));
        int ei = atoi(f[3].c_str());
        if (ei >= 0) v.set_element_index(uint32_t(ei));
        ops[cnt++] = v;
      } else if (k == 'i' && f.size() == 3) {
        uint32_t pred = uint32_t(strtoul(f[1].c_str(), nullptr, 10));
        if (pred >= 256) {      // a double immediate: the value is the IEEE-754 binary64 pattern (unsigned decimal)
          uint64_t bits = strtoull(f[2].c_str(), nullptr, 10);
          double d; memcpy(&d, &bits, sizeof(d));
          Imm im(d);
          im.set_predicate(pred - 256);
          ops[cnt++] = im;
        } else {
          Imm im(int64_t(strtoll(f[2].c_str(), nullptr, 10)));
          im.set_predicate(pred);
          ops[cnt++] = im;
        }
      } else if (k == 'm' && f.size() == 9) {
        uint32_t base = uint32_t(strtoul(f[1].c_str(), nullptr, 10));
        bool has_idx = f[2] == "1";
        uint32_t idx = uint32_t(strtoul(f[4].c_str(), nullptr, 10));
        a64::Mem m;
        if (has_idx) {
          a64::Gp ir = (f[3] == "1") ? a64::Gp::make_r64(idx) : a64::Gp::make_r32(idx);
          m = a64::Mem(a64::Gp::make_r64(base), ir);
          m.set_shift_op(arm::ShiftOp(strtoul(f[5].c_str(), nullptr, 10)));
          m.set_shift(uint32_t(strtoul(f[6].c_str(), nullptr, 10)));
        } else {
          m = a64::Mem(a64::Gp::make_r64(base));
        }
        m.set_offset(int64_t(strtoll(f[7].c_str(), nullptr, 10)));
        m.set_offset_mode(arm::OffsetMode(strtoul(f[8].c_str(), nullptr, 10)));
        ops[cnt++] = m;
      } else if ((k == 'l' || k == 'r') && f.size() == 2) {
        Label L;
        if (!cx.label_at(int64_t(strtoll(f[1].c_str(), nullptr, 10)), L)) { gen_error = true; break; }
        if (k == 'r') ops[cnt++] = L; else ops[cnt++] = a64::Mem(L);
      } else if (k == 'k' && f.size() == 2) {
        inst_id = BaseInst::compose_arm_inst_id(inst_id, arm::CondCode(strtoul(f[1].c_str(), nullptr, 10)));
      } else { gen_error = true; break; }
    }
    if (gen_error) { printf("%s GENERR\n", cas.c_str()); continue; }
    a64::Assembler& a = *cx.a;
    size_t before = a.offset();
    Error err = a._emit_op_array(inst_id, ops, cnt);
    size_t after = a.offset();
    if (before != kBase) { printf("%s STATE-BROKEN\n", cas.c_str()); continue; }
    const uint8_t* data = cx.code.text_section()->buffer().data();
    size_t nw = (after >= before) ? (after - before) / 4 : 0;
    bool ok = err == Error::kOk;
    if (!ok && after != before) { printf("%s CURSOR-MOVED-ON-ERROR %u\n", cas.c_str(), unsigned(err)); a.set_offset(kBase); continue; }
    if (ok && ((after - before) % 4 != 0 || nw == 0 || nw > 4)) { printf("%s BAD-LENGTH %zu\n", cas.c_str(), after - before); a.set_offset(kBase); continue; }
    printf("%s %d %u %zu", cas.c_str(), ok ? 1 : 0, unsigned(err), ok ? nw : size_t(0));
    for (size_t i = 0; ok && i < nw; i++) {
      uint32_t w; memcpy(&w, data + before + 4 * i, 4);
      printf(" %u", w);
    }
    printf("\n");
    a.set_offset(kBase);
  }
  return 0;
}

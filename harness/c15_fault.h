// C15 fault controller: H1 arena fault point (asmjit_verif_fault) + link-time wrapped malloc/realloc/calloc/free/mmap/munmap.
// The harness is linked with -Wl,--wrap=malloc,--wrap=realloc,--wrap=calloc,--wrap=free,--wrap=mmap,--wrap=munmap,--wrap=mmap64
// so every heap / virtual-memory request made by libasmjit.a (and by this TU) goes through the __wrap_* functions below.
#ifndef C15_FAULT_H
#define C15_FAULT_H
#include <stddef.h>
#include <stdint.h>
#include <stdlib.h>
#include <string.h>
#include <errno.h>
#include <sys/mman.h>
#include <dirent.h>
#include <vector>
#include <string>

enum FaultMode { FM_NONE = 0, FM_ARENA = 1, FM_SLOW = 2, FM_HEAP = 3, FM_VM = 4 };
enum PatKind { PK_ONE = 0, PK_FROM = 1, PK_SET = 2 };

struct FaultCtl {
  bool armed = false;
  int mode = FM_NONE;
  int pat = PK_ONE;
  long k = -1;
  static constexpr int kMaxSet = 64;
  long set[kMaxSet];
  int nset = 0;
  // counters of requests seen while armed
  long n_arena = 0, n_slow = 0, n_heap = 0, n_vm = 0;
  long kinds[5] = {0, 0, 0, 0, 0};
  long fired = 0;
  // balance monitors (always on)
  long live_heap = 0;     // successful malloc/calloc/realloc(NULL) minus free(non-null)
  long live_maps = 0;     // mappings created through mmap that have not been unmapped (tracked by start address: an munmap of an
                          // address nobody mapped - e.g. munmap(NULL, n), which Linux answers with 0 - does not count)
  static constexpr int kMaxMaps = 4096;
  void* maps[kMaxMaps];
  int nmaps = 0;
  void map_add(void* p) { if (nmaps < kMaxMaps) maps[nmaps++] = p; live_maps++; }
  void map_del(void* p) { for (int i = 0; i < nmaps; i++) if (maps[i] == p) { maps[i] = maps[--nmaps]; live_maps--; return; } }
  // log of the arena request decisions (for the model correspondence): per-request 1 = failed
  bool decide(int m, long idx);
  bool decide_(int m, long idx) {
    if (mode != m) return false;
    bool f = false;
    if (pat == PK_ONE) f = (idx == k);
    else if (pat == PK_FROM) f = (idx >= k);
    else { for (int i = 0; i < nset; i++) if (set[i] == idx) { f = true; break; } }
    if (f) { fired++; }
    return f;
  }
  void reset_counters() { n_arena = n_slow = n_heap = n_vm = 0; fired = 0; for (auto& x : kinds) x = 0; }
};

static FaultCtl F;

// debugging aid: C15_TRACE=1 prints a stack trace whenever a request is failed (sanitizer builds only)
extern "C" void __sanitizer_print_stack_trace(void) __attribute__((weak));
static void fault_trace() {
  static int on = -1;
  if (on < 0) on = getenv("C15_TRACE") ? 1 : 0;
  if (on && __sanitizer_print_stack_trace) __sanitizer_print_stack_trace();
}

inline bool FaultCtl::decide(int m, long idx) { bool f = decide_(m, idx); if (f) fault_trace(); return f; }

extern "C" int asmjit_verif_fault(int kind, size_t size) noexcept {
  (void)size;
  if (!F.armed) return 0;
  if (kind >= 0 && kind < 5) F.kinds[kind]++;
  if (kind == 0 || kind == 3) {
    long idx = F.n_arena++;
    return F.decide(FM_ARENA, idx) ? 1 : 0;
  }
  if (kind == 1) {
    long idx = F.n_slow++;
    return F.decide(FM_SLOW, idx) ? 1 : 0;
  }
  return 0;
}

extern "C" {
void* __real_malloc(size_t);
void* __real_realloc(void*, size_t);
void* __real_calloc(size_t, size_t);
void __real_free(void*);
void* __real_mmap(void*, size_t, int, int, int, off_t);
void* __real_mmap64(void*, size_t, int, int, int, off_t);
int __real_munmap(void*, size_t);

void* __wrap_malloc(size_t n) {
  if (F.armed) {
    long idx = F.n_heap++;
    if (F.decide(FM_HEAP, idx)) { errno = ENOMEM; return nullptr; }
  }
  void* p = __real_malloc(n);
  if (p) F.live_heap++;
  return p;
}
void* __wrap_calloc(size_t a, size_t b) {
  if (F.armed) {
    long idx = F.n_heap++;
    if (F.decide(FM_HEAP, idx)) { errno = ENOMEM; return nullptr; }
  }
  void* p = __real_calloc(a, b);
  if (p) F.live_heap++;
  return p;
}
void* __wrap_realloc(void* old, size_t n) {
  if (F.armed) {
    long idx = F.n_heap++;
    if (F.decide(FM_HEAP, idx)) { errno = ENOMEM; return nullptr; }
  }
  void* p = __real_realloc(old, n);
  if (p && !old) F.live_heap++;
  if (old && n == 0 && !p) F.live_heap--;
  return p;
}
void __wrap_free(void* p) {
  if (p) F.live_heap--;
  __real_free(p);
}
void* __wrap_mmap(void* a, size_t n, int prot, int flags, int fd, off_t off) {
  if (F.armed) {
    long idx = F.n_vm++;
    if (F.decide(FM_VM, idx)) { errno = ENOMEM; return MAP_FAILED; }
  }
  void* p = __real_mmap(a, n, prot, flags, fd, off);
  if (p != MAP_FAILED) F.map_add(p);
  return p;
}
void* __wrap_mmap64(void* a, size_t n, int prot, int flags, int fd, off_t off) {
  if (F.armed) {
    long idx = F.n_vm++;
    if (F.decide(FM_VM, idx)) { errno = ENOMEM; return MAP_FAILED; }
  }
  void* p = __real_mmap64(a, n, prot, flags, fd, off);
  if (p != MAP_FAILED) F.map_add(p);
  return p;
}
int __wrap_munmap(void* a, size_t n) {
  int r = __real_munmap(a, n);
  if (r == 0) F.map_del(a);
  return r;
}
}

static long count_open_fds() {
  long n = 0;
  DIR* d = opendir("/proc/self/fd");
  if (!d) return -1;
  while (readdir(d)) n++;
  closedir(d);
  return n;
}

static bool parse_pattern(const char* s) {
  F.nset = 0;
  if (!strncmp(s, "one:", 4)) { F.pat = PK_ONE; F.k = atol(s + 4); return true; }
  if (!strncmp(s, "from:", 5)) { F.pat = PK_FROM; F.k = atol(s + 5); return true; }
  if (!strncmp(s, "set:", 4)) {
    F.pat = PK_SET;
    const char* p = s + 4;
    while (*p && F.nset < FaultCtl::kMaxSet) {
      F.set[F.nset++] = strtol(p, (char**)&p, 10);
      if (*p == ',') p++;
    }
    return true;
  }
  return false;
}

static int parse_mode(const char* s) {
  if (!strcmp(s, "arena")) return FM_ARENA;
  if (!strcmp(s, "slow")) return FM_SLOW;
  if (!strcmp(s, "heap")) return FM_HEAP;
  if (!strcmp(s, "vm")) return FM_VM;
  if (!strcmp(s, "none")) return FM_NONE;
  return -1;
}

static uint64_t fnv1a(const uint8_t* p, size_t n, uint64_t h = 1469598103934665603ull) {
  for (size_t i = 0; i < n; i++) { h ^= p[i]; h *= 1099511628211ull; }
  return h;
}

#endif

// C13 correspondence harness: drives the REAL functions of /repo's working tree
//   InstAPI::inst_id_to_string / string_to_inst_id (x86, AArch64), InstAPI::validate (x86 / x64),
//   x86::Assembler::_emit with DiagnosticOptions::kValidateAssembler off and on.
// Line protocol (stdin -> stdout, one answer per command):
//   NI <arch> <id>                -> NI <0 ok | 1 error> <name-hex|-> <id of string_to_inst_id(name)>
//   NA <arch> <id>                -> NA <0 ok | 1 error> <formatted name (InstStringifyOptions::kAliases) hex|->
//   NS <arch> <hex|->             -> NS <id>
//   V <mode> <inst> <options> <extra_type> <extra_id> <nops> <ops...>   -> V <err>
//   E <mode> <inst> <options> <extra_type> <extra_id> <nops> <ops...>   -> E <validate err> <emit err, validation off> <bytes|-> <emit err, validation on> <bytes|-> <Builder emit err (kValidateIntermediate)> <finalize err> <bytes|->
//   HA <validate> <style> <n>     -> HA <first error> <bytes> (one a64::Assembler, n attachments, fixed AArch64 instruction list)
//   H <A|B|C> <style 0 detach | 1 reset holder> <n> <m1..mn> <inst> <options> <extra_type> <extra_id> <nops> <ops...>
//                                 -> H <emit err with validation in the LAST holder> <finalize err (Builder)> <bytes|->
//   ops:  R <reg_type> <id> | M <size> <base_type> <base_id> <index_type> <index_id> <shift> <offset> <segment> <bcst> <home> | I <int64> | L | N
//   arch: 0 = x86 (32-bit), 1 = x64, 2 = AArch64;  mode: 0 = x86, 1 = x64, +2 = ValidationFlags::kEnableVirtRegs (V only)
#include <cstdio>
#include <cstdint>
#include <cstring>
#include <cstdlib>
#include <string>
#include <vector>
#include <sstream>
#include <iostream>
#include <asmjit/core.h>
#include <asmjit/x86.h>
#include <asmjit/a64.h>

using namespace asmjit;

static Arch arch_of(int a) { return a == 0 ? Arch::kX86 : a == 1 ? Arch::kX64 : Arch::kAArch64; }

static std::string hex_of(const char* p, size_t n) {
  if (n == 0) return "-";
  static const char* d = "0123456789abcdef";
  std::string s;
  for (size_t i = 0; i < n; i++) { s += d[uint8_t(p[i]) >> 4]; s += d[uint8_t(p[i]) & 15]; }
  return s;
}
static std::string unhex(const std::string& h) {
  std::string s;
  if (h == "-") return s;
  for (size_t i = 0; i + 1 < h.size(); i += 2) s += char(strtoul(h.substr(i, 2).c_str(), nullptr, 16));
  return s;
}

struct Cmd {
  int mode; uint32_t inst; uint32_t options; uint32_t extra_type; uint32_t extra_id; size_t nops;
  Operand_ ops[Globals::kMaxOpCount];
};

static bool parse_ops(std::istringstream& in, Cmd& c, uint32_t label_id) {
  in >> c.mode >> c.inst >> c.options >> c.extra_type >> c.extra_id >> c.nops;
  if (c.nops > Globals::kMaxOpCount) return false;
  for (size_t i = 0; i < Globals::kMaxOpCount; i++) c.ops[i].reset();
  for (size_t i = 0; i < c.nops; i++) {
    std::string k; in >> k;
    if (k == "R") {
      uint32_t t, id; in >> t >> id;
      Reg r; r._init_reg(RegUtils::signature_of(RegType(t)), id);
      if (!r.is_reg() || uint32_t(r.reg_type()) != t || r.id() != id) return false;
      c.ops[i] = r;
    } else if (k == "M") {
      uint32_t size, bt, bid, it, iid, shift, seg, bc, home; long long off;
      in >> size >> bt >> bid >> it >> iid >> shift >> off >> seg >> bc >> home;
      x86::Mem m;
      if (bt == uint32_t(RegType::kLabelTag)) m._set_base(RegType::kLabelTag, label_id);
      else if (bt != 0) m._set_base(RegType(bt), bid);
      if (it != 0) m._set_index(RegType(it), iid);
      if (bt == 0) m.set_offset(int64_t(off)); else m.set_offset_lo32(int32_t(off));
      m.set_shift(shift);
      m.set_size(size);
      m.set_segment(seg);
      m.set_broadcast(x86::Mem::Broadcast(bc));
      if (home) m.set_reg_home();
      c.ops[i] = m;
    } else if (k == "I") {
      long long v; in >> v; c.ops[i] = Imm(int64_t(v));
    } else if (k == "L") {
      Label l; l.set_id(label_id); c.ops[i] = l;
    } else if (k == "N") {
      c.ops[i].reset();
    } else return false;
  }
  return !in.fail();
}

static Error run_emit(const Cmd& c, bool validate, std::string& bytes) {
  CodeHolder code;
  Environment env((c.mode & 1) ? Arch::kX64 : Arch::kX86);
  code.init(env);
  x86::Assembler a(&code);
  if (validate) a.add_diagnostic_options(DiagnosticOptions::kValidateAssembler);
  Label l = a.new_label();      // id 0, bound at offset 0
  a.bind(l);
  a.set_inst_options(InstOptions(c.options));
  if (c.extra_type != 0) { Reg r; r._init_reg(RegUtils::signature_of(RegType(c.extra_type)), c.extra_id); a.set_extra_reg(r); }
  Error err = a.emit_op_array(c.inst, c.ops, c.nops);
  CodeBuffer& buf = code.text_section()->buffer();
  bytes = hex_of((const char*)buf.data(), buf.size());
  return err;
}

// Builder path: the instruction is recorded by x86::Builder with DiagnosticOptions::kValidateIntermediate, then finalize() serializes
// the node list through an Assembler. eb = error of the Builder's emit (the validator's verdict), ef = error of finalize().
static void run_builder(const Cmd& c, Error& eb, Error& ef, std::string& bytes) {
  CodeHolder code;
  Environment env((c.mode & 1) ? Arch::kX64 : Arch::kX86);
  code.init(env);
  x86::Builder b(&code);
  b.add_diagnostic_options(DiagnosticOptions::kValidateIntermediate);
  Label l = b.new_label();
  b.bind(l);
  b.set_inst_options(InstOptions(c.options));
  if (c.extra_type != 0) { Reg r; r._init_reg(RegUtils::signature_of(RegType(c.extra_type)), c.extra_id); b.set_extra_reg(r); }
  eb = b.emit_op_array(c.inst, c.ops, c.nops);
  ef = Error::kOk;
  bytes = "-";
  if (eb == Error::kOk) {
    ef = b.finalize();
    CodeBuffer& buf = code.text_section()->buffer();
    bytes = hex_of((const char*)buf.data(), buf.size());
  }
}

// Emitter history: ONE emitter object is attached to a sequence of CodeHolders of the given modes (detached, or the holder reset, in
// between); in the last one the instruction is emitted with validation enabled (Assembler: kValidateAssembler; Builder:
// kValidateIntermediate + finalize). The answer must be the one of a fresh emitter in the last mode.
template<typename EmitterT>
static void run_history(EmitterT& em, bool is_builder, const std::vector<int>& modes, int style, const Cmd& c, Error& e, Error& ef, std::string& bytes, bool do_finalize) {
  std::vector<CodeHolder*> holders;
  e = Error::kOk; ef = Error::kOk; bytes = "-";
  for (size_t i = 0; i < modes.size(); i++) {
    CodeHolder* code = new CodeHolder();
    holders.push_back(code);
    Environment env((modes[i] & 1) ? Arch::kX64 : Arch::kX86);
    code->init(env);
    if (code->attach(&em) != Error::kOk) { e = Error::kInvalidState; break; }
    if (i + 1 < modes.size()) {
      if (style == 0) code->detach(&em); else code->reset();
      continue;
    }
    em.add_diagnostic_options(is_builder ? DiagnosticOptions::kValidateIntermediate : DiagnosticOptions::kValidateAssembler);
    Label l = em.new_label();
    em.bind(l);
    em.set_inst_options(InstOptions(c.options));
    if (c.extra_type != 0) { Reg r; r._init_reg(RegUtils::signature_of(RegType(c.extra_type)), c.extra_id); em.set_extra_reg(r); }
    e = em.emit_op_array(c.inst, c.ops, c.nops);
    if (e == Error::kOk && is_builder && do_finalize) ef = em.finalize();
    CodeBuffer& buf = code->text_section()->buffer();
    if (e == Error::kOk && do_finalize) bytes = hex_of((const char*)buf.data(), buf.size());
  }
  for (CodeHolder* h : holders) { if (h->is_initialized()) h->reset(); delete h; }
}

int main() {
  std::string line;
  while (std::getline(std::cin, line)) {
    std::istringstream in(line);
    std::string k; in >> k;
    if (k == "NI") {
      int a; uint32_t id; in >> a >> id;
      String s;
      Error e = InstAPI::inst_id_to_string(arch_of(a), id, InstStringifyOptions::kNone, s);
      uint32_t back = (e == Error::kOk) ? InstAPI::string_to_inst_id(arch_of(a), s.data(), s.size()) : 0;
      printf("NI %u %s %u\n", unsigned(e != Error::kOk), hex_of(s.data(), s.size()).c_str(), back);
    } else if (k == "NA") {
      int a; uint32_t id; in >> a >> id;
      String s;
      Error e = InstAPI::inst_id_to_string(arch_of(a), id, InstStringifyOptions::kAliases, s);
      printf("NA %u %s\n", unsigned(e != Error::kOk), hex_of(s.data(), s.size()).c_str());
    } else if (k == "NS") {
      int a; std::string h; in >> a >> h;
      std::string s = unhex(h);
      uint32_t id = InstAPI::string_to_inst_id(arch_of(a), s.data(), s.size());
      printf("NS %u\n", id);
    } else if (k == "HA") {
      // HA <validate 0|1> <style> <n>: ONE a64::Assembler attached n times (detach / holder reset between); in the last holder a fixed list of
      // AArch64 instructions is emitted (with kValidateAssembler if asked) -> HA <first error> <bytes>
      int von, style; size_t n; in >> von >> style >> n;
      a64::Assembler a;
      std::vector<CodeHolder*> holders;
      Error e = Error::kOk; std::string b = "-";
      for (size_t i = 0; i < n; i++) {
        CodeHolder* code = new CodeHolder(); holders.push_back(code);
        code->init(Environment(Arch::kAArch64));
        if (code->attach(&a) != Error::kOk) { e = Error::kInvalidState; break; }
        if (i + 1 < n) { if (style == 0) code->detach(&a); else code->reset(); continue; }
        if (von) a.add_diagnostic_options(DiagnosticOptions::kValidateAssembler);
        using namespace a64;
        Label l = a.new_label(); a.bind(l);
        Error es[] = {
          a.add(x0, x1, x2), a.add(w3, w4, 17), a.sub(x5, sp, 32), a.mov(x6, 0x123456789ABCull), a.ldr(x7, ptr(x8, 16)), a.str(w9, ptr(sp, 4)),
          a.ldp(x10, x11, ptr(sp)), a.madd(x12, x13, x14, x15), a.and_(w16, w17, 0xFF), a.lsl(x18, x19, 3), a.cmp(x20, x21), a.csel(x22, x23, x24, CondCode::kEQ),
          a.b(l), a.cbz(x25, l), a.bl(l), a.ret(x30), a.fadd(d0, d1, d2), a.fmul(s3, s4, s5), a.add(v6.b16(), v7.b16(), v8.b16()), a.ld1(v9.s4(), ptr(x0)),
          a.fmov(d10, 1.0), a.scvtf(d11, x1), a.dup(v12.s4(), w2), a.umov(w3, v13.b(3)), a.ldxr(x4, ptr(x5)), a.stlr(w6, ptr(x7)), a.adr(x8, l), a.nop(),
          a.add(x0, x1, x2, lsl(4)), a.ldr(w9, ptr(x10, x11, lsl(2))), a.movk(x12, 0xBEEF, 16), a.tbz(x13, 5, l) };
        for (Error x : es) if (x != Error::kOk && e == Error::kOk) e = x;
        CodeBuffer& buf = code->text_section()->buffer();
        b = hex_of((const char*)buf.data(), buf.size());
      }
      for (CodeHolder* h : holders) { if (h->is_initialized()) h->reset(); delete h; }
      printf("HA %u %s\n", unsigned(e), b.c_str());
    } else if (k == "H") {
      // H <A|B> <style> <n> <m1..mn> <inst> <options> <extra_type> <extra_id> <nops> <ops...>   (instruction mode = mn)
      std::string kind; int style; size_t n; in >> kind >> style >> n;
      std::vector<int> modes(n);
      for (size_t i = 0; i < n; i++) in >> modes[i];
      std::string rest; std::getline(in, rest);
      std::istringstream in2(std::to_string(modes.empty() ? 0 : modes.back()) + rest);
      Cmd c;
      if (modes.empty() || !parse_ops(in2, c, 0)) { printf("H parse-error\n"); continue; }
      Error e, ef; std::string b;
      if (kind == "A") { x86::Assembler a; run_history(a, false, modes, style, c, e, ef, b, true); }
      else if (kind == "C") { x86::Compiler cc; run_history(cc, true, modes, style, c, e, ef, b, false); }
      else { x86::Builder bld; run_history(bld, true, modes, style, c, e, ef, b, true); }
      printf("H %u %u %s\n", unsigned(e), unsigned(ef), b.c_str());
    } else if (k == "V" || k == "E") {
      Cmd c;
      if (!parse_ops(in, c, 0)) { printf("%s parse-error\n", k.c_str()); continue; }
      BaseInst inst(c.inst, InstOptions(c.options));
      if (c.extra_type != 0) { Reg r; r._init_reg(RegUtils::signature_of(RegType(c.extra_type)), c.extra_id); inst.set_extra_reg(r); }
      Error ve = InstAPI::validate((c.mode & 1) ? Arch::kX64 : Arch::kX86, inst, c.ops, c.nops, (c.mode & 2) ? ValidationFlags::kEnableVirtRegs : ValidationFlags::kNone);
      if (k == "V") { printf("V %u\n", unsigned(ve)); continue; }
      std::string b0, b1;
      Error e0 = run_emit(c, false, b0);
      Error e1 = run_emit(c, true, b1);
      Error eb, ef; std::string bb;
      run_builder(c, eb, ef, bb);
      printf("E %u %u %s %u %s %u %u %s\n", unsigned(ve), unsigned(e0), b0.c_str(), unsigned(e1), b1.c_str(), unsigned(eb), unsigned(ef), bb.c_str());
    } else {
      printf("? unknown\n");
    }
  }
  return 0;
}

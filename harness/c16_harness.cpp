// C16 harness: fresh-vs-recycled differential over lifecycles of CodeHolder + Assembler/Builder/Compiler (x86-64, AArch64).
//
// stdin : one case per line   C <id> <arch:x|a> <kind:a|b|c> <static-arena-bytes|0> <step> <step> ...
//   steps: G:<prog>  generate a program on the current objects (history)
//          RS / RH   CodeHolder::reset(soft|hard) ; init(env) ; attach(emitter)
//          RI        CodeHolder::reinit()
//          DA        detach(emitter) ; attach(emitter)
//          NE        destroy the emitter, create a new one, attach
//          NH / NHa  replace the holder by a new one (old one destroyed first / afterwards) ; init ; attach(the old emitter)
//          L1 / L0   holder logger on / off         EL1 / EL0   emitter's own logger on / off
//          V1 / V0   validation diagnostics on / off
//          H<n>      perturb the heap (n = seed): interleaved malloc/free of random sizes, dirtied with 0xA5
//          P:<prog>  the final program; afterwards the holder (and the API-visible emitter counters) are dumped
//   prog : ops separated by ','  (see run_op)
// stdout: per case two lines   R <id> <dump>   (recycled objects)   and   F <id> <dump>   (fresh objects, P only)
//         plus   S <id> <state after every step>   (lifecycle state trace, compared with the extracted model)
//         or     X <id> <status>  when the case crashed (each case runs in a forked child; sanitizer reports go to stderr)
#include <stdio.h>
#include <stdlib.h>
#include <string.h>
#include <stdint.h>
#include <string>
#include <vector>
#include <sstream>
#include <unistd.h>
#include <sys/wait.h>

#include <asmjit/core.h>
#include <asmjit/x86.h>
#include <asmjit/a64.h>

using namespace asmjit;

#ifdef C16_DIRTY_MALLOC
// Interposed allocator (plain build only; ASan has its own): every block is pre-filled with 0xA5, gets 0..48 bytes of
// pseudo-random padding (so that addresses and usable sizes differ from run to run of the same lifecycle) and is filled
// with 0xDD when freed. Code that reads memory it never wrote, or memory it already released, then sees garbage instead of
// the zeros a fresh process usually gets from malloc.
#include <malloc.h>
extern "C" void* __libc_malloc(size_t);
extern "C" void __libc_free(void*);
extern "C" void* __libc_realloc(void*, size_t);
static uint64_t g_dirty_state = 0x853C49E6748FEA9Bull;
static size_t dirty_pad() { g_dirty_state = g_dirty_state * 6364136223846793005ull + 1442695040888963407ull; return size_t((g_dirty_state >> 33) % 4) * 16; }
extern "C" void* malloc(size_t n) {
  void* p = __libc_malloc(n + dirty_pad());
  if (p) memset(p, 0xA5, malloc_usable_size(p));
  return p;
}
extern "C" void free(void* p) {
  if (!p) return;
  memset(p, 0xDD, malloc_usable_size(p));
  __libc_free(p);
}
extern "C" void* calloc(size_t a, size_t b) {
  size_t n = a * b;
  void* p = __libc_malloc(n + dirty_pad());
  if (p) { memset(p, 0xA5, malloc_usable_size(p)); memset(p, 0, n); }
  return p;
}
extern "C" void* realloc(void* p, size_t n) {
  if (!p) return malloc(n);
  size_t old = malloc_usable_size(p);
  void* q = __libc_realloc(p, n + dirty_pad());
  if (q) { size_t now = malloc_usable_size(q); if (now > old) memset(static_cast<char*>(q) + old, 0xA5, now - old); }
  return q;
}
#endif

static const char HEX[] = "0123456789abcdef";

struct World {
  bool is_x86;
  char kind;                 // 'a' assembler, 'b' builder, 'c' compiler
  Environment env;
  size_t static_bytes = 0;
  uint8_t* static_mem = nullptr;
  CodeHolder* code = nullptr;
  BaseEmitter* em = nullptr;
  BaseEmitter* extra = nullptr;   // a second, passive emitter (Assembler) that may be attached to the same holder
  bool is_32 = false;             // x86 only: the holder is initialised for 32-bit x86 (gp registers are then 32-bit)
  uint64_t base = Globals::kNoBaseAddress;
  StringLogger* log1 = nullptr;
  StringLogger* log2 = nullptr;
  // per-program state
  std::vector<Label> labels;
  std::vector<Reg> vregs;
  std::vector<std::string> requested_section_names;   // index = section id (0 = .text)
  std::vector<int> errs;
  FuncNode* func = nullptr;
  size_t stale_pass_data = 0; // nodes that still carry RA pass data after a finalize() (the pass arena has been reset by then)
  size_t ra_labels = 0;      // labels created inside finalize() (by the register allocator / serialisation), cumulative
  std::vector<void*> kept;   // heap perturbation blocks kept alive until the end of the case
  size_t detached_compared = 0;   // detached probe: member comparisons / differing members (per step)
  std::string detached_diffs;
};

static BaseEmitter* make_emitter(World& w) {
  if (w.is_x86) {
    if (w.kind == 'a') return new x86::Assembler();
    if (w.kind == 'b') return new x86::Builder();
    return new x86::Compiler();
  }
  if (w.kind == 'a') return new a64::Assembler();
  if (w.kind == 'b') return new a64::Builder();
  return new a64::Compiler();
}

static CodeHolder* make_holder(World& w) {
  if (w.static_bytes) {
    return new CodeHolder(Span<uint8_t>(w.static_mem, w.static_bytes));
  }
  return new CodeHolder();
}

static void program_begin(World& w) {
  w.labels.clear();
  w.vregs.clear();
  w.errs.clear();
  w.func = nullptr;
}

static void holder_fresh_names(World& w) {
  w.requested_section_names.clear();
  w.requested_section_names.push_back(".text");
}

static Reg phys(World& w, unsigned i) {
  static const unsigned x86_ids[] = {0, 1, 2, 3, 6, 7, 8, 9, 10, 11};
  if (w.is_x86 && w.code->arch() == Arch::kX86) return x86::gpd(x86_ids[i % 6]);   // the mode of the CURRENT initialisation
  if (w.is_x86) return x86::gpq(x86_ids[i % 10]);
  return a64::x(i % 16);
}

static Reg reg_of(World& w, unsigned i) {
  if (w.kind == 'c') {
    if (w.vregs.empty()) return Reg();
    return w.vregs[i % w.vregs.size()];
  }
  return phys(w, i);
}

static Label label_of(World& w, unsigned k) {
  if (w.labels.empty()) { Label l; l.set_id(1000000u + k); return l; }   // deliberately invalid label
  return w.labels[k % w.labels.size()];
}

static unsigned num(const std::string& s, size_t& pos) {
  unsigned v = 0;
  while (pos < s.size() && s[pos] >= '0' && s[pos] <= '9') { v = v * 10 + unsigned(s[pos] - '0'); pos++; }
  if (pos < s.size() && s[pos] == '.') pos++;
  return v;
}

static void run_op(World& w, const std::string& op) {
  BaseEmitter* e = w.em;
  size_t p = 1;
  Error err = Error::kOk;
  switch (op[0]) {
    case 'L': {   // many labels at once: makes the holder arena outgrow a small (static) first block
                unsigned n = num(op, p);
                for (unsigned i = 0; i < n; i++) { Label l = e->new_label(); if (!l.is_valid()) err = Error::kInvalidLabel; }
                break; }
    case 'f': {   // the usual multi-section tooling on the holder: flatten, resolve cross-section fixups, relocate
                err = w.code->flatten();
                w.errs.push_back(int(err));
                err = w.code->resolve_cross_section_fixups();
                w.errs.push_back(int(err));
                err = w.code->relocate_to_base(0x100000000ull);
                break; }
    case 'l': { Label l = e->new_label(); w.labels.push_back(l); err = l.is_valid() ? Error::kOk : Error::kInvalidLabel; break; }
    case 'n': { std::string nm = op.substr(1); Label l = e->new_named_label(nm.c_str()); w.labels.push_back(l); err = l.is_valid() ? Error::kOk : Error::kInvalidLabel; break; }
    case 'b': { err = e->bind(label_of(w, num(op, p))); break; }
    case 'j': { Label l = label_of(w, num(op, p)); err = w.is_x86 ? e->emit(x86::Inst::kIdJmp, l) : e->emit(a64::Inst::kIdB, l); break; }
    case 'c': { unsigned k = num(op, p); unsigned r = num(op, p); Label l = label_of(w, k); Reg rr = reg_of(w, r);
                if (w.is_x86) { err = e->emit(x86::Inst::kIdTest, rr, rr); if (err == Error::kOk) err = e->emit(x86::Inst::kIdJz, l); }
                else err = e->emit(a64::Inst::kIdCbz, rr, l);
                break; }
    case 'a': { unsigned d = num(op, p), s = num(op, p); Reg rd = reg_of(w, d), rs = reg_of(w, s);
                err = w.is_x86 ? e->emit(x86::Inst::kIdAdd, rd, rs) : e->emit(a64::Inst::kIdAdd, rd, rd, rs); break; }
    case 'x': { unsigned d = num(op, p), s = num(op, p); Reg rd = reg_of(w, d), rs = reg_of(w, s);
                err = w.is_x86 ? e->emit(x86::Inst::kIdXor, rd, rs) : e->emit(a64::Inst::kIdEor, rd, rd, rs); break; }
    case 'm': { unsigned d = num(op, p); unsigned v = num(op, p); Reg rd = reg_of(w, d);
                err = w.is_x86 ? e->emit(x86::Inst::kIdMov, rd, imm(uint64_t(v) * 0x01010101u)) : e->emit(a64::Inst::kIdMov, rd, imm(uint64_t(v) & 0xFFFF)); break; }
    case 'o': { unsigned d = num(op, p); unsigned k = num(op, p); Reg rd = reg_of(w, d); Label l = label_of(w, k);
                // 32-bit x86 `[label]` with an invalid label dereferences the missing entry (x86assembler.cpp EmitModSib_LabelRip_X86
                // lacks `goto InvalidLabel`: DESIGN 7.3, owned by C14) - kept out of this property's lifecycles
                if (w.is_x86 && w.code->arch() == Arch::kX86 && !w.code->is_label_valid(l)) { err = Error::kInvalidLabel; break; }
                err = w.is_x86 ? e->emit(x86::Inst::kIdLea, rd, x86::ptr(l)) : e->emit(a64::Inst::kIdAdr, rd, l); break; }
    case 'e': { unsigned n = num(op, p); std::vector<uint8_t> d(n); for (unsigned i = 0; i < n; i++) d[i] = uint8_t(i * 7 + n); err = e->embed(d.data(), n); break; }
    case 'q': { err = e->embed_label(label_of(w, num(op, p)), 8); break; }
    case 'd': { unsigned a = num(op, p), b = num(op, p); err = e->embed_label_delta(label_of(w, a), label_of(w, b), 4); break; }
    case 's': { std::string nm = op.substr(1); Section* sec = nullptr;
                err = w.code->new_section(Out<Section*>(sec), nm.c_str(), SIZE_MAX, SectionFlags::kNone, nm == ".data" ? 64 : 8);
                if (err == Error::kOk) { w.requested_section_names.push_back(nm); err = e->section(sec); }
                break; }
    case 't': { unsigned i = num(op, p); size_t n = w.code->section_count(); err = n ? e->section(w.code->section_by_id(uint32_t(i % n))) : Error::kInvalidSection; break; }
    case 'g': { unsigned n = num(op, p); err = e->align(AlignMode::kCode, 1u << (n % 6)); break; }
    case 'k': { unsigned v = num(op, p);
                if (w.is_x86 && w.kind != 'c') err = e->emit(x86::Inst::kIdCall, imm(0x7F0000001000ull + uint64_t(v) * 16));
                break; }
    case 'z': {   // provoke an error with one-shot state set (inline comment, instruction options, extra register)
                e->set_inline_comment("residue-comment");
                e->add_inst_options(InstOptions::kOverwrite);
                if (w.is_x86) err = e->emit(x86::Inst::kIdMov, reg_of(w, 0), reg_of(w, 1), reg_of(w, 2));
                else err = e->emit(a64::Inst::kIdAdd, reg_of(w, 0), imm(1));
                break; }
    case 'w': {   // one-shot state WITHOUT a following instruction (left dangling for reinit/detach to clear)
                e->set_inline_comment("dangling-comment");
                e->add_inst_options(InstOptions::kReserved);
                break; }
    case 'i': { err = e->comment("history comment"); break; }
    // ---- compiler only
    case 'F': { if (w.kind != 'c') break;
                unsigned n = num(op, p) % 4;
                BaseCompiler* cc = static_cast<BaseCompiler*>(e);
                FuncSignature sig;
                if (n == 0) sig = FuncSignature::build<int64_t>();
                else if (n == 1) sig = FuncSignature::build<int64_t, int64_t>();
                else if (n == 2) sig = FuncSignature::build<int64_t, int64_t, int64_t>();
                else sig = FuncSignature::build<int64_t, int64_t, int64_t, int64_t>();
                FuncNode* f = w.is_x86 ? static_cast<x86::Compiler*>(e)->add_func(sig) : static_cast<a64::Compiler*>(e)->add_func(sig);
                (void)cc;
                w.func = f;
                w.vregs.clear();        // virtual registers are function-local: a function never names those of an earlier one
                if (!f) { err = Error::kOutOfMemory; break; }
                for (unsigned i = 0; i < n; i++) {
                  Reg r = w.is_x86 ? Reg(static_cast<x86::Compiler*>(e)->new_gp64("arg%u", i)) : Reg(static_cast<a64::Compiler*>(e)->new_gp64("arg%u", i));
                  w.vregs.push_back(r);
                  f->set_arg(i, r);
                }
                if (w.vregs.empty()) {
                  Reg r = w.is_x86 ? Reg(static_cast<x86::Compiler*>(e)->new_gp64()) : Reg(static_cast<a64::Compiler*>(e)->new_gp64());
                  w.vregs.push_back(r);
                  err = w.is_x86 ? e->emit(x86::Inst::kIdMov, r, imm(7)) : e->emit(a64::Inst::kIdMov, r, imm(7));
                }
                break; }
    case 'v': { if (w.kind != 'c') break;
                unsigned v = num(op, p);
                Reg r = w.is_x86 ? Reg(static_cast<x86::Compiler*>(e)->new_gp64("v%u", v)) : Reg(static_cast<a64::Compiler*>(e)->new_gp64("v%u", v));
                w.vregs.push_back(r);
                err = w.is_x86 ? e->emit(x86::Inst::kIdMov, r, imm(v)) : e->emit(a64::Inst::kIdMov, r, imm(v & 0xFFF));
                break; }
    case 'h': { if (w.kind != 'c') break;      // register pressure: n values alive at once (callee-saved registers get used)
                unsigned n = num(op, p);
                size_t first = w.vregs.size();
                for (unsigned i = 0; i < n && err == Error::kOk; i++) {
                  Reg r = w.is_x86 ? Reg(static_cast<x86::Compiler*>(e)->new_gp64("h%u", i)) : Reg(static_cast<a64::Compiler*>(e)->new_gp64("h%u", i));
                  w.vregs.push_back(r);
                  err = w.is_x86 ? e->emit(x86::Inst::kIdMov, r, imm(i + 1)) : e->emit(a64::Inst::kIdMov, r, imm(i + 1));
                }
                for (unsigned i = 1; i < n && err == Error::kOk; i++) {
                  Reg a = w.vregs[first], b = w.vregs[first + i];
                  err = w.is_x86 ? e->emit(x86::Inst::kIdAdd, a, b) : e->emit(a64::Inst::kIdAdd, a, a, b);
                }
                break; }
    case 'y': { if (w.kind != 'c') break;
                BaseCompiler* cc = static_cast<BaseCompiler*>(e);
                JumpAnnotation* ja = cc->new_jump_annotation();
                if (!ja) { err = Error::kOutOfMemory; break; }
                if (!w.labels.empty()) ja->add_label(w.labels[0]);
                w.errs.push_back(1000 + int(ja->annotation_id()));       // API-visible id
                w.errs.push_back(2000 + int(cc->jump_annotations().size()));
                break; }
    case 'K': { if (w.kind != 'c') break;
                unsigned v = num(op, p); unsigned d = num(op, p);
                if (w.is_x86) {
                  x86::Mem m = static_cast<x86::Compiler*>(e)->new_qword_const(ConstPoolScope::kLocal, uint64_t(v) * 0x0101010101ull);
                  err = e->emit(x86::Inst::kIdMov, reg_of(w, d), m);
                }
                break; }
    case 'T': { if (w.kind != 'c') break;
                unsigned d = num(op, p);
                if (w.is_x86) {
                  x86::Mem m = static_cast<x86::Compiler*>(e)->new_stack(8, 8);
                  err = e->emit(x86::Inst::kIdMov, m, reg_of(w, d));
                  if (err == Error::kOk) err = e->emit(x86::Inst::kIdMov, reg_of(w, d + 1), m);
                } else {
                  a64::Mem m = static_cast<a64::Compiler*>(e)->new_stack(8, 8);
                  err = e->emit(a64::Inst::kIdStr, reg_of(w, d), m);
                  if (err == Error::kOk) err = e->emit(a64::Inst::kIdLdr, reg_of(w, d + 1), m);
                }
                break; }
    case 'R': { if (w.kind != 'c') break;
                unsigned d = num(op, p);
                err = w.is_x86 ? static_cast<x86::Compiler*>(e)->ret(reg_of(w, d)) : static_cast<a64::Compiler*>(e)->ret(reg_of(w, d));
                break; }
    case 'E': { if (w.kind != 'c') break;
                err = static_cast<BaseCompiler*>(e)->end_func(); w.func = nullptr; break; }
    case 'Z': { if (w.kind == 'a') break;
                size_t before = w.code->label_count();
                err = e->finalize();
                w.ra_labels += w.code->label_count() - before;
                // monitor: the register allocator's per-node data lives in the pass arena, which is reset when finalize() returns
                // (success or failure): no node reachable from the builder may still point to it
                {
                  BaseBuilder* bb = static_cast<BaseBuilder*>(e);
                  size_t guard = 0;
                  for (BaseNode* n = bb->first_node(); n && guard < 1000000; n = n->next(), guard++) if (n->has_pass_data()) w.stale_pass_data++;
                  for (LabelNode* ln : bb->_label_nodes) if (ln && ln->has_pass_data()) w.stale_pass_data++;
                }
                break; }
    default: err = Error::kInvalidArgument; break;
  }
  w.errs.push_back(int(err));
  // sections created by the library itself (.addrtab: on `call abs` in the Assembler, at serialisation in Builder/Compiler)
  while (w.code && w.requested_section_names.size() < w.code->section_count()) w.requested_section_names.push_back(".addrtab");
}

static void run_prog(World& w, const std::string& prog) {
  program_begin(w);
  size_t i = 0;
  while (i < prog.size()) {
    size_t j = prog.find(',', i);
    if (j == std::string::npos) j = prog.size();
    if (j > i) run_op(w, prog.substr(i, j - i));
    i = j + 1;
  }
}

static void hex_bytes(std::string& out, const uint8_t* d, size_t n) {
  for (size_t i = 0; i < n; i++) { out += HEX[d[i] >> 4]; out += HEX[d[i] & 15]; }
}

static std::string dump(World& w) {
  std::ostringstream o;
  CodeHolder& c = *w.code;
  o << "errs=";
  for (size_t i = 0; i < w.errs.size(); i++) o << (i ? "," : "") << w.errs[i];
  o << " init=" << int(c.is_initialized()) << " arch=" << uint32_t(c.arch()) << " base=" << c.base_address();
  o << " nsec=" << c.section_count();
  int names_ok = 1;
  for (Section* s : c.sections()) {
    std::string bytes;
    hex_bytes(bytes, s->data(), s->buffer_size());
    std::string want = s->section_id() < w.requested_section_names.size() ? w.requested_section_names[s->section_id()] : std::string("?");
    std::string shown(s->name(), strnlen(s->name(), want.size()));
    if (strnlen(s->name(), sizeof(s->_name.str)) != want.size() || memcmp(s->name(), want.data(), want.size()) != 0) names_ok = 0;
    for (size_t i = want.size(); i < sizeof(s->_name.str); i++) if (s->_name.str[i] != 0) names_ok = 0;   // zero padded: section_by_name compares the whole field
    o << " sec[" << s->section_id() << " " << shown << " f" << uint32_t(s->flags()) << " a" << s->alignment() << " o" << s->order()
      << " v" << s->virtual_size() << " @";
    if (s->has_offset()) o << s->offset(); else o << "-";
    o << " n" << s->buffer_size() << " " << bytes << "]";
  }
  o << " order=";
  for (Section* s : c.sections_by_order()) o << s->section_id() << ".";
  o << " nlab=" << c.label_count();
  uint32_t id = 0;
  for (const LabelEntry& le : c.label_entries()) {
    o << " L[" << id << " t" << uint32_t(le.label_type()) << " fl" << uint32_t(le.label_flags());
    if (le.is_bound()) o << " s" << le.section_id() << " @" << le.offset(); else o << " unbound";
    if (le.has_name()) o << " '" << std::string(le.name(), le.name_size()) << "'";
    if (le.has_parent()) o << " p" << le.parent_id();
    o << "]";
    id++;
  }
  o << " unresolved=" << c.unresolved_fixup_count();
  o << " nrel=" << c.reloc_entries().size();
  for (RelocEntry* re : c.reloc_entries()) {
    o << " R[" << re->id() << " t" << uint32_t(re->reloc_type()) << " s" << re->source_section_id() << " t";
    if (re->target_section_id() == Globals::kInvalidId) o << "-"; else o << re->target_section_id();
    o << " @" << re->source_offset() << " f" << uint32_t(re->format().type()) << "/" << uint32_t(re->format().value_size());
    if (re->reloc_type() != RelocType::kExpression) o << " p" << re->payload();
    o << "]";
  }
  o << " addrtab=" << int(c.has_address_table_section());
  o << " namesok=" << names_ok << " stalepd=" << w.stale_pass_data;
  if (w.kind == 'c') {
    BaseCompiler* cc = static_cast<BaseCompiler*>(w.em);
    o << " vregs=" << cc->virt_regs().size() << " ja=" << cc->jump_annotations().size();
  }
  if (w.kind == 'a') {
    o << " off=" << static_cast<BaseAssembler*>(w.em)->offset();
  }
  return o.str();
}

// lifecycle state line (compared with the extracted Coq model): init, attached, #emitters, #sections, #labels, #relocs,
// holder logger, emitter logger, #virtual registers, #jump annotations, one-shot instruction state pending
static std::string state_line(World& w) {
  std::ostringstream o;
  CodeHolder& c = *w.code;
  int natt = 0;
  for (BaseEmitter* e = c.attached_first(); e; e = e->_attached_next) natt++;
  o << int(c.is_initialized()) << "/" << int(w.em->code() != nullptr) << "/" << natt << "/" << c.section_count() << "/" << c.label_count()
    << "/" << c.reloc_entries().size() << "/" << int(c.logger() != nullptr) << "/" << int(w.em->logger() != nullptr);
  if (w.kind == 'c') {
    BaseCompiler* cc = static_cast<BaseCompiler*>(w.em);
    o << "/" << cc->virt_regs().size() << "/" << cc->jump_annotations().size();
  }
  else o << "/0/0";
  // one-shot state pending for the next instruction (options / extra register / inline comment)
  o << "/" << int(w.em->inst_options() != InstOptions::kNone || w.em->extra_reg().is_reg() || w.em->inline_comment() != nullptr);
  o << "/" << w.ra_labels;       // not part of the model's observation: input for programs whose finalize() creates labels
  return o.str();
}

// ---- representation probe: after the final reset-like step the recycled holder and emitter are compared, data member by data
// member (table generated from the clang AST member lists, the same ones the Coq coverage obligation is proved over), with a
// fresh holder + emitter brought into the same configuration. K_BYTES: same bytes; K_PTR / K_PTRS: same null-ness;
// K_VEC / K_HASH / K_ARENA / K_SECTION: layout-aware comparison of the container's own members (data pointers by null-ness, sizes,
// capacities, bucket parameters, reusable slots, section header); K_SKIP: the Assembler's buffer cursors and one cache flag.
enum ProbeKind { K_BYTES, K_PTR, K_PTRS, K_VEC, K_HASH, K_ARENA, K_SECTION, K_SKIP };
struct ProbeMember { const char* cls; const char* name; size_t offset; size_t size; ProbeKind kind; };
#ifdef C16_HAVE_MEMBERS
#define C16_MEMBER(cls, mem, kind) { #cls, #mem, offsetof(cls, mem), sizeof(((cls*)nullptr)->mem), kind },
static const ProbeMember g_members[] = {
#include "c16_members.inc"
  { nullptr, nullptr, 0, 0, K_SKIP }
};
#else
static const ProbeMember g_members[] = { { nullptr, nullptr, 0, 0, K_SKIP } };
#endif

static const uint8_t* subobject(World& w, const char* cls) {
  if (!strcmp(cls, "CodeHolder")) return reinterpret_cast<const uint8_t*>(w.code);
  if (!strcmp(cls, "BaseEmitter")) return reinterpret_cast<const uint8_t*>(static_cast<BaseEmitter*>(w.em));
  if (!strcmp(cls, "BaseAssembler")) return w.kind == 'a' ? reinterpret_cast<const uint8_t*>(static_cast<BaseAssembler*>(w.em)) : nullptr;
  if (!strcmp(cls, "BaseBuilder")) return w.kind != 'a' ? reinterpret_cast<const uint8_t*>(static_cast<BaseBuilder*>(w.em)) : nullptr;
  if (!strcmp(cls, "BaseCompiler")) return w.kind == 'c' ? reinterpret_cast<const uint8_t*>(static_cast<BaseCompiler*>(w.em)) : nullptr;
  return nullptr;
}

static void init_holder(World& w);

// member-by-member comparison of the objects of w with those of f (a null sub-object of either world is skipped)
static void compare_members(World& w, World& f, bool extra_attached, size_t& compared, std::string& diffs) {
  for (const ProbeMember* m = g_members; m->cls; m++) {
    const uint8_t* a = subobject(w, m->cls);
    const uint8_t* b = subobject(f, m->cls);
    if (!a || !b || m->kind == K_SKIP) continue;
    if (extra_attached && (!strcmp(m->name, "_attached_prev") || !strcmp(m->name, "_attached_next") ||
                           !strcmp(m->name, "_attached_first") || !strcmp(m->name, "_attached_last"))) continue;
    a += m->offset; b += m->offset;
    bool same = true;
    switch (m->kind) {
      case K_BYTES: same = memcmp(a, b, m->size) == 0; break;
      case K_PTR: case K_PTRS:
        for (size_t i = 0; i + sizeof(void*) <= m->size; i += sizeof(void*)) {
          void* pa; void* pb; memcpy(&pa, a + i, sizeof(void*)); memcpy(&pb, b + i, sizeof(void*));
          if ((pa == nullptr) != (pb == nullptr)) same = false;
        }
        break;
      case K_HASH: {   // layout-aware: every member of ArenaHashBase (bucket array by null-ness / embedded-ness)
        const ArenaHashBase* ha = reinterpret_cast<const ArenaHashBase*>(a);
        const ArenaHashBase* hb = reinterpret_cast<const ArenaHashBase*>(b);
        same = ha->_size == hb->_size && ha->_buckets_count == hb->_buckets_count && ha->_buckets_grow == hb->_buckets_grow &&
               ha->_rcp_value == hb->_rcp_value && ha->_rcp_shift == hb->_rcp_shift && ha->_prime_index == hb->_prime_index &&
               ((ha->_data == ha->_embedded) == (hb->_data == hb->_embedded)) && ((ha->_embedded[0] == nullptr) == (hb->_embedded[0] == nullptr));
        break; }
      case K_VEC: {    // layout-aware: data (null-ness), size, capacity
        const ArenaVectorBase* va = reinterpret_cast<const ArenaVectorBase*>(a);
        const ArenaVectorBase* vb = reinterpret_cast<const ArenaVectorBase*>(b);
        same = va->_size == vb->_size && va->_capacity == vb->_capacity && ((va->_data == nullptr) == (vb->_data == nullptr));
        break; }
      case K_ARENA: {  // reset part of an Arena: dynamic blocks, reusable slots, configuration; block chain and cursors are retained resources
        const Arena* aa = reinterpret_cast<const Arena*>(a);
        const Arena* ab = reinterpret_cast<const Arena*>(b);
        same = ((aa->_dynamic_blocks == nullptr) == (ab->_dynamic_blocks == nullptr)) &&
               aa->_min_block_size_shift == ab->_min_block_size_shift && aa->_max_block_size_shift == ab->_max_block_size_shift;
        for (size_t i = 0; i < sizeof(aa->_reusable_slots) / sizeof(aa->_reusable_slots[0]); i++)
          if ((aa->_reusable_slots[i] == nullptr) != (ab->_reusable_slots[i] == nullptr)) same = false;
        if (!aa->_has_static_block && !ab->_has_static_block && aa->_unused_byte_count != ab->_unused_byte_count) same = false;
        break; }
      case K_SECTION: {  // the embedded .text section: everything but the retained buffer memory
        const Section* sa = reinterpret_cast<const Section*>(a);
        const Section* sb = reinterpret_cast<const Section*>(b);
        same = sa->_section_id == sb->_section_id && sa->_internal_label_type == sb->_internal_label_type &&
               sa->_internal_label_flags == sb->_internal_label_flags && sa->_internal_uint16_data == sb->_internal_uint16_data &&
               sa->_alignment == sb->_alignment && sa->_order == sb->_order && sa->_offset == sb->_offset &&
               sa->_virtual_size == sb->_virtual_size && memcmp(&sa->_name, &sb->_name, sizeof(sa->_name)) == 0 &&
               sa->_buffer._size == sb->_buffer._size && sa->_buffer._flags == sb->_buffer._flags;
        break; }
      default: break;
    }
    compared++;
    if (!same) { diffs += (diffs.empty() ? "" : ","); diffs += m->cls; diffs += "::"; diffs += m->name; }
  }
}

static std::string probe(World& w) {
  World f;
  f.is_x86 = w.is_x86; f.kind = w.kind;
  f.is_32 = w.code->arch() == Arch::kX86;
  f.base = w.code->base_address();
  f.code = new CodeHolder();
  init_holder(f);
  f.em = make_emitter(f);
  // same configuration: loggers, diagnostics (all of it is user configuration that persists by contract)
  if (w.code->logger()) f.code->set_logger(w.log1);
  if (w.em->has_own_logger()) f.em->set_logger(w.log2);
  f.em->add_diagnostic_options(w.em->diagnostic_options());
  f.code->attach(f.em);
  bool extra_attached = w.extra && w.extra->code() == w.code;
  std::ostringstream o;
  size_t compared = 0;
  std::string diffs;
  compare_members(w, f, extra_attached, compared, diffs);
  o << compared << " " << (diffs.empty() ? "-" : diffs);
  delete f.em;
  delete f.code;
  return o.str();
}

// ---- detached probe: between a holder reset (or a detach) and the following init / attach, the emitter is compared with a
// NEVER-ATTACHED emitter of the same kind and configuration, and (after a reset) the holder with a NEVER-INITIALISED holder. This is
// the state in which the values written by the reset functions themselves are visible (init / on_attach overwrite several of them).
static void detached_probe(World& w, bool holder_too, const char* step, size_t index) {
  World f;
  f.is_x86 = w.is_x86; f.kind = w.kind;
  uint8_t* smem = nullptr;
  if (holder_too) {
    if (w.static_bytes) {
      smem = static_cast<uint8_t*>(malloc(w.static_bytes)); memset(smem, 0xA5, w.static_bytes);
      f.code = new CodeHolder(Span<uint8_t>(smem, w.static_bytes));
    }
    else f.code = new CodeHolder();
  }
  f.em = make_emitter(f);
  if (w.em->has_own_logger()) f.em->set_logger(w.log2);
  f.em->add_diagnostic_options(w.em->diagnostic_options());
  std::string diffs;
  CodeHolder* wc = w.code;
  if (!holder_too) w.code = nullptr;
  compare_members(w, f, false, w.detached_compared, diffs);
  w.code = wc;
  if (!diffs.empty()) {
    std::ostringstream o; o << step << "@" << index << ":" << diffs;
    w.detached_diffs += (w.detached_diffs.empty() ? "" : ";") + o.str();
  }
  delete f.em;
  delete f.code;
  free(smem);
}

static uint64_t xs(uint64_t& s) { s ^= s << 13; s ^= s >> 7; s ^= s << 17; return s; }

static void perturb_heap(World& w, unsigned seed) {
  uint64_t s = 0x9E3779B97F4A7C15ull ^ (uint64_t(seed) * 0x2545F4914F6CDD1Dull);
  std::vector<void*> tmp;
  unsigned n = 20 + unsigned(xs(s) % 60);
  for (unsigned i = 0; i < n; i++) {
    static const size_t sizes[] = {16, 24, 40, 64, 100, 256, 1000, 4096, 16384 + 64, 65536 + 64, 70000, 200000};
    size_t sz = sizes[xs(s) % 12] + size_t(xs(s) % 32);
    void* p = malloc(sz);
    if (!p) continue;
    memset(p, 0xA5, sz);
    if (xs(s) % 3 == 0) w.kept.push_back(p); else tmp.push_back(p);
    if (!tmp.empty() && xs(s) % 2) { size_t k = xs(s) % tmp.size(); free(tmp[k]); tmp[k] = tmp.back(); tmp.pop_back(); }
  }
  for (void* p : tmp) free(p);
}

static void init_holder(World& w) {
  w.env = Environment(w.is_x86 ? (w.is_32 ? Arch::kX86 : Arch::kX64) : Arch::kAArch64);
  w.code->init(w.env, w.base);
  holder_fresh_names(w);
}

static void run_case(const std::vector<std::string>& tok) {
  World w;
  const std::string& id = tok[1];
  w.is_x86 = tok[2] == "x";
  w.kind = tok[3][0];
  w.static_bytes = size_t(atol(tok[4].c_str()));
  if (w.static_bytes) { w.static_mem = static_cast<uint8_t*>(malloc(w.static_bytes)); memset(w.static_mem, 0xA5, w.static_bytes); }
  w.log1 = new StringLogger();
  w.log2 = new StringLogger();

  w.code = make_holder(w);
  init_holder(w);
  w.em = make_emitter(w);
  w.code->attach(w.em);

  std::string trace;
  std::string final_prog;
  std::string alone_prog;
  bool p_is32 = false;                       // configuration of the holder at the moment the final program starts
  uint64_t p_base = Globals::kNoBaseAddress; // (relocate_to_base inside the program changes the base address afterwards)
  for (size_t i = 5; i < tok.size(); i++) {
    const std::string& st = tok[i];
    if (st.compare(0, 2, "G:") == 0) run_prog(w, st.substr(2));
    else if (st == "RS" || st == "RH") {
      w.code->reset(st == "RS" ? ResetPolicy::kSoft : ResetPolicy::kHard);
      detached_probe(w, true, st.c_str(), i - 5);
      init_holder(w);
      w.code->attach(w.em);
    }
    else if (st == "RI") { w.code->reinit(); holder_fresh_names(w); }
    else if (st == "DA") { w.code->detach(w.em); detached_probe(w, false, "DA", i - 5); w.code->attach(w.em); }
    else if (st == "NE") { delete w.em; w.em = make_emitter(w); w.code->attach(w.em); }
    else if (st == "NH" || st == "NHa") {
      CodeHolder* old = w.code;
      if (st == "NH") { delete old; w.code = make_holder(w); }
      else {
        // two holders cannot share one static block: the second one is dynamic
        size_t sb = w.static_bytes; w.static_bytes = 0; w.code = make_holder(w); w.static_bytes = sb; delete old;
      }
      init_holder(w);
      w.code->attach(w.em);
    }
    else if (st == "E32") w.is_32 = w.is_x86 && w.kind != 'c';      // takes effect at the next init (RS / RH / NH / NHa)
    else if (st == "E64") w.is_32 = false;
    else if (st[0] == 'B') w.base = st.size() > 1 ? strtoull(st.c_str() + 1, nullptr, 16) : Globals::kNoBaseAddress;
    else if (st == "XA") { if (!w.extra) w.extra = w.is_x86 ? static_cast<BaseEmitter*>(new x86::Assembler()) : static_cast<BaseEmitter*>(new a64::Assembler()); w.code->attach(w.extra); }
    else if (st == "XD") { if (w.extra && w.extra->code() == w.code) w.code->detach(w.extra); }
    else if (st == "XN") { delete w.extra; w.extra = nullptr; }
    else if (st == "L1") w.code->set_logger(w.log1);
    else if (st == "L0") w.code->set_logger(nullptr);
    else if (st == "EL1") w.em->set_logger(w.log2);
    else if (st == "EL0") w.em->reset_logger();
    else if (st == "V1") w.em->add_diagnostic_options(DiagnosticOptions::kValidateAssembler | DiagnosticOptions::kValidateIntermediate);
    else if (st == "V0") w.em->clear_diagnostic_options(DiagnosticOptions::kValidateAssembler | DiagnosticOptions::kValidateIntermediate);
    else if (st[0] == 'H') perturb_heap(w, unsigned(atol(st.c_str() + 1)));
    else if (st.compare(0, 2, "Q:") == 0) { alone_prog = st.substr(2); continue; }
    else if (st.compare(0, 2, "P:") == 0) {
      printf("M %s %s\n", id.c_str(), probe(w).c_str());
      p_is32 = w.code->arch() == Arch::kX86;
      p_base = w.code->base_address();
      final_prog = st.substr(2); run_prog(w, final_prog);
    }
    else { printf("X %s bad-step:%s\n", id.c_str(), st.c_str()); return; }
    trace += (trace.empty() ? "" : " ") + state_line(w);
    w.log1->content().clear();
    w.log2->content().clear();
  }
  std::string rec = dump(w);
  printf("S %s %s\n", id.c_str(), trace.c_str());
  printf("D %s %zu %s\n", id.c_str(), w.detached_compared, w.detached_diffs.empty() ? "-" : w.detached_diffs.c_str());
  printf("R %s %s\n", id.c_str(), rec.c_str());

  // fresh objects, canonical configuration: dynamic arena, no logger, no validation, no history
  {
    World f;
    f.is_x86 = w.is_x86; f.kind = w.kind;
    f.is_32 = p_is32;      // the mode / base address the recycled holder was (re)initialised with
    f.base = p_base;
    f.code = new CodeHolder();
    init_holder(f);
    f.em = make_emitter(f);
    f.code->attach(f.em);
    run_prog(f, final_prog);
    std::string fr = dump(f);
    printf("F %s %s\n", id.c_str(), fr.c_str());
    if (!alone_prog.empty()) {
      // the last function of the final program compiled alone on fresh objects (function independence)
      World a;
      a.is_x86 = w.is_x86; a.kind = w.kind; a.is_32 = f.is_32; a.base = f.base;
      a.code = new CodeHolder();
      init_holder(a);
      a.em = make_emitter(a);
      a.code->attach(a.em);
      run_prog(a, alone_prog);
      std::string hex;
      Section* ts = a.code->text_section();
      hex_bytes(hex, ts->data(), ts->buffer_size());
      std::string errs;
      for (size_t i = 0; i < a.errs.size(); i++) { errs += (i ? "," : ""); errs += std::to_string(a.errs[i]); }
      printf("T %s errs=%s text=%s\n", id.c_str(), errs.c_str(), hex.c_str());
      delete a.em;
      delete a.code;
    }
    fflush(stdout);        // the destructors below may still trip a sanitizer: keep the lines whole
    delete f.em;
    delete f.code;
  }
  delete w.extra;
  delete w.em;
  delete w.code;
  delete w.log1;
  delete w.log2;
  for (void* p : w.kept) free(p);
  free(w.static_mem);
}

int main(int argc, char** argv) {
  bool do_fork = !(argc > 1 && strcmp(argv[1], "--nofork") == 0);
  char* line = nullptr;
  size_t cap = 0;
  ssize_t n;
  while ((n = getline(&line, &cap, stdin)) > 0) {
    std::vector<std::string> tok;
    std::istringstream is(line);
    std::string t;
    while (is >> t) tok.push_back(t);
    if (tok.size() < 6 || tok[0] != "C") continue;
    fflush(stdout);
    if (!do_fork) { run_case(tok); continue; }
    pid_t pid = fork();
    if (pid == 0) {
      fprintf(stderr, "=== case %s\n", tok[1].c_str());
      alarm(60);            // a lifecycle that does not terminate is reported as a crash (signal 14)
      run_case(tok);
      fflush(stdout);
      _exit(0);
    }
    int status = 0;
    waitpid(pid, &status, 0);
    if (!(WIFEXITED(status) && WEXITSTATUS(status) == 0)) {
      printf("\nX %s status=%d sig=%d\n", tok[1].c_str(), WIFEXITED(status) ? WEXITSTATUS(status) : -1, WIFSIGNALED(status) ? WTERMSIG(status) : 0);
    }
  }
  free(line);
  return 0;
}

// C10 correspondence harness: drives the real CodeHolder section functions of /repo's working tree.
// One SCENARIO per input line (fresh CodeHolder, x86-64 environment); tokens are operations executed in order, the answer
// line holds one answer per answering operation (space separated).  All numbers decimal (uint64 / int32).
//   D n                       make the holder's arena dirty: n named labels, then reinit()            -> "D"
//   N namehex align order     new_section(name, explicit size, flags none, align, order)  ('-' = "")   -> "N:ok:<id>" | "N:<err>"
//   Ns bufhex align order     new_section(C string, SIZE_MAX, ...) ; Bs keyhex  section_by_name(C string, SIZE_MAX)   -> as N / B
//   Z id bsize vsize seed     fabricate contents: buffer of bsize bytes (pattern from seed), virtual size -> (silent)
//   B keyhex                  section_by_name(key, explicit size)                                      -> "B:<id>" | "B:-"
//   F                         flatten()                                                                -> "F:<err>"
//   L                         dump of sections_by_order(): id,order,align,offset,vsize,bsize;...       -> "L:..."
//   I                         dump of sections() ids (by id): must be 0,1,2,...                          -> "I:..."
//   C                         code_size()                                                              -> "C:<n>"
//   P dst_size flags          copy_flattened_data into a guard-banded buffer (0xCD inside, 0xEE guards)  -> "P:<err>:<rle>:g<0|1>"
//   Q id dst_size flags       copy_section_data, same buffer discipline                                -> "Q:<err>:<rle>:g<0|1>"
//   J                         JitRuntime::_add(&p, &code) (flatten + relocate + copy into executable memory), then the
//                             first code_size() bytes at p are read back and p is released                -> "J:ok:<size>:<rle>" | "J:<err>"
//   K addr len                x86-64 assembler: call <absolute addr> into .text (address-table entry)  -> "K:<err>:<text size>"
//   G id add clr              Section::add_flags(add); clear_flags(clr)                                  -> "G:<flags>:<has_flag(clr)>"
//   E id                      label bound at the end of section id; embed_label(label) into .text (RelocType::kRelToAbs) -> "E:<err>:<text size>:<label offset>"
//   KR addr                   x86-64 assembler: jz <absolute addr> into .text (RelocType::kAbsToRel, no address-table fallback)   -> "KR:<err>:<text size>"
//   ED id1 id2 size           embed_label_delta(label at end of id1, label at end of id2, size) into .text (RelocType::kExpression) -> "ED:<err>:<text size>:<o1>:<o2>"
//   X base used               relocate_to_base(base, &summary)                                         -> "X:<err>:<reduction>"
#include <asmjit/core.h>
#include <asmjit/x86.h>
#include <cstdio>
#include <cstring>
#include <cstdlib>
#include <cinttypes>
#include <string>
#include <vector>
#include <sstream>

using namespace asmjit;

static const char* err_name(Error e) {
  static char buf[32];
  switch (e) {
    case Error::kOk: return "ok";
    case Error::kInvalidArgument: return "EINVAL";
    case Error::kInvalidSectionName: return "ENAME";
    case Error::kTooLarge: return "ETOOLARGE";
    case Error::kInvalidSection: return "ESECTION";
    case Error::kNoCodeGenerated: return "ENOCODE";
    case Error::kInvalidRelocEntry: return "ERELOC";
    case Error::kRelocOffsetOutOfRange: return "ERANGE";
    default: snprintf(buf, sizeof(buf), "E%u", unsigned(e)); return buf;
  }
}

static std::string unhex(const std::string& h) {
  std::string out;
  if (h == "-") return out;
  for (size_t i = 0; i + 1 < h.size(); i += 2) out.push_back(char(strtoul(h.substr(i, 2).c_str(), nullptr, 16)));
  return out;
}

static inline uint8_t pattern(uint64_t seed, uint64_t k) { return uint8_t((seed * 131u + k * 29u + (k >> 8) * 7u) % 255u + 1u); }

static const size_t GUARD = 64;
static const uint64_t MAX_REAL_BUFFER = uint64_t(1) << 22;

static std::string rle(const uint8_t* p, size_t n) {
  if (!n) return "-";
  std::string out;
  char tmp[48];
  size_t i = 0;
  while (i < n) {
    size_t j = i;
    while (j < n && p[j] == p[i]) j++;
    snprintf(tmp, sizeof(tmp), "%s%u*%zu", out.empty() ? "" : ",", unsigned(p[i]), j - i);
    out += tmp;
    i = j;
  }
  return out;
}

struct Dst {
  std::vector<uint8_t> mem;
  size_t n;
  explicit Dst(size_t n_) : mem(n_ + 2 * GUARD, 0xEE), n(n_) { memset(mem.data() + GUARD, 0xCD, n); }
  uint8_t* p() { return mem.data() + GUARD; }
  bool guards_ok() const {
    for (size_t i = 0; i < GUARD; i++) if (mem[i] != 0xEE || mem[GUARD + n + i] != 0xEE) return false;
    return true;
  }
};

int main() {
  std::string line;
  static char buf[1 << 16];
  while (fgets(buf, sizeof(buf), stdin)) {
    std::istringstream in(buf);
    std::string out, op;
    auto emit = [&](const std::string& s) { if (!out.empty()) out += ' '; out += s; };
    char tmp[256];

    Environment env(Arch::kX64);
    CodeHolder code;
    code.init(env);
    x86::Assembler* as = nullptr;
    bool fabricated_huge = false;
    std::vector<uint64_t> call_targets;

    while (in >> op) {
      if (op == "T") {
        // translator: the constants of /repo's headers / initial state the Coq model hard-codes (regenerated into coq/gen/C10Consts.v)
        std::string t = "T";
        auto kv = [&](const char* k, unsigned long long v) { snprintf(tmp, sizeof(tmp), ";%s=%llu", k, v); t += tmp; };
        auto hexs = [&](const char* k, const char* p, size_t n) { t += std::string(";") + k + "="; for (size_t i = 0; i < n; i++) { snprintf(tmp, sizeof(tmp), "%02x", unsigned(uint8_t(p[i]))); t += tmp; } if (!n) t += "-"; };
        kv("max_name", Globals::kMaxSectionNameSize);
        kv("name_cells", sizeof(code.text_section()->_name.str));
        kv("no_offset", Globals::kNoSectionOffset);
        kv("f_executable", unsigned(SectionFlags::kExecutable)); kv("f_readonly", unsigned(SectionFlags::kReadOnly));
        kv("f_zeroinit", unsigned(SectionFlags::kZeroInitialized)); kv("f_comment", unsigned(SectionFlags::kComment));
        kv("f_builtin", unsigned(SectionFlags::kBuiltIn)); kv("f_implicit", unsigned(SectionFlags::kImplicit));
        kv("copy_pad_section", unsigned(CopySectionFlags::kPadSectionBuffer)); kv("copy_pad_target", unsigned(CopySectionFlags::kPadTargetBuffer));
        Section* tx = code.text_section();
        kv("text_id", tx->section_id()); kv("text_flags", unsigned(tx->flags())); kv("text_align", tx->alignment());
        snprintf(tmp, sizeof(tmp), ";text_order=%d", int(tx->order())); t += tmp;
        kv("text_offset", tx->offset()); hexs("text_name", tx->name(), strlen(tx->name()));
        kv("new_section_align_of_0", [&]() { Section* s0 = nullptr; code.new_section(Out(s0), "z", 1, SectionFlags::kNone, 0, 0); return s0 ? s0->alignment() : 0u; }());
        kv("new_section_offset", code.section_by_id(1)->offset());
        x86::Assembler a0(&code);
        a0.call(Imm(uint64_t(0x123456789ABCull)));
        hexs("call_bytes", reinterpret_cast<const char*>(tx->data()), tx->buffer_size());
        Section* at = code.address_table_section();
        kv("addrtab_align", at ? at->alignment() : 0); kv("addrtab_vsize_per_slot", at ? at->virtual_size() : 0);
        snprintf(tmp, sizeof(tmp), ";addrtab_order=%d", at ? int(at->order()) : 0); t += tmp;
        hexs("addrtab_name", at ? at->name() : "", at ? strlen(at->name()) : 0);
        Label L = a0.new_label(); a0.bind(L); size_t b0 = tx->buffer_size(); a0.embed_label(L);
        kv("embed_label_size", tx->buffer_size() - b0);
        emit(t);
        continue;
      }
      if (op == "D") {
        unsigned n; in >> n;
        for (unsigned i = 0; i < n; i++) {
          uint32_t id;
          snprintf(tmp, sizeof(tmp), "VVVVVVVVVVVVVVVVVVVVVVVVVVVVVVVVVVVVVVVVVVVVVVVVVVVVVVVVVVVVVVVV%u", i);
          (void)code.new_named_label_id(Out(id), tmp, SIZE_MAX, LabelType::kGlobal);
        }
        code.reinit();
        emit("D");
      }
      else if (op == "N") {
        std::string nh; uint64_t al; long long ord; in >> nh >> al >> ord;
        std::string name = unhex(nh);
        Section* s = nullptr;
        Error e = code.new_section(Out(s), name.data(), name.size(), SectionFlags::kNone, uint32_t(al), int32_t(ord));
        if (e == Error::kOk && s) snprintf(tmp, sizeof(tmp), "N:ok:%u", s->section_id());
        else snprintf(tmp, sizeof(tmp), "N:%s", err_name(e));
        emit(tmp);
      }
      else if (op == "Ns") {
        // name_size == SIZE_MAX: the name is a C string (strlen); the buffer may hold a NUL before its end
        std::string nh; uint64_t al; long long ord; in >> nh >> al >> ord;
        std::string name = unhex(nh);
        Section* s = nullptr;
        Error e = code.new_section(Out(s), name.c_str(), SIZE_MAX, SectionFlags::kNone, uint32_t(al), int32_t(ord));
        if (e == Error::kOk && s) snprintf(tmp, sizeof(tmp), "N:ok:%u", s->section_id());
        else snprintf(tmp, sizeof(tmp), "N:%s", err_name(e));
        emit(tmp);
      }
      else if (op == "Bs") {
        std::string kh; in >> kh;
        std::string key = unhex(kh);
        Section* s = code.section_by_name(key.c_str(), SIZE_MAX);
        if (s) { snprintf(tmp, sizeof(tmp), "B:%u", s->section_id()); emit(tmp); } else emit("B:-");
      }
      else if (op == "Z") {
        uint32_t id; uint64_t bs, vs, seed; in >> id >> bs >> vs >> seed;
        if (!code.is_section_valid(id)) { emit("Z:bad"); continue; }
        Section* s = code.section_by_id(id);
        if (bs <= MAX_REAL_BUFFER) {
          if (bs) {
            if (code.reserve_buffer(&s->_buffer, size_t(bs)) != Error::kOk) { emit("Z:oom"); continue; }
            for (uint64_t k = 0; k < bs; k++) s->_buffer._data[k] = pattern(seed, k);
          }
        }
        else {
          fabricated_huge = true;   // size only, no data: copy operations are refused by the harness afterwards
        }
        s->_buffer._size = size_t(bs);
        s->_virtual_size = vs;
      }
      else if (op == "B") {
        std::string kh; in >> kh;
        std::string key = unhex(kh);
        Section* s = code.section_by_name(key.data(), key.size());
        if (s) { snprintf(tmp, sizeof(tmp), "B:%u", s->section_id()); emit(tmp); } else emit("B:-");
      }
      else if (op == "F") {
        Error e = code.flatten();
        emit(std::string("F:") + err_name(e));
      }
      else if (op == "L") {
        std::string s = "L:";
        bool first = true;
        for (Section* sec : code.sections_by_order()) {
          snprintf(tmp, sizeof(tmp), "%s%u,%d,%u,%" PRIu64 ",%" PRIu64 ",%zu", first ? "" : ";", sec->section_id(), int(sec->order()),
                   sec->alignment(), sec->offset(), sec->virtual_size(), sec->buffer_size());
          s += tmp; first = false;
        }
        emit(s);
      }
      else if (op == "I") {
        std::string s = "I:";
        bool first = true;
        for (Section* sec : code.sections()) {
          snprintf(tmp, sizeof(tmp), "%s%u", first ? "" : ",", sec->section_id());
          s += tmp; first = false;
        }
        emit(s);
      }
      else if (op == "C") {
        snprintf(tmp, sizeof(tmp), "C:%zu", code.code_size());
        emit(tmp);
      }
      else if (op == "P") {
        uint64_t n; unsigned fl; in >> n >> fl;
        if (fabricated_huge || n > (uint64_t(1) << 24)) { emit("P:unsafe"); continue; }
        Dst d{size_t(n)};
        Error e = code.copy_flattened_data(d.p(), size_t(n), CopySectionFlags(fl));
        emit(std::string("P:") + err_name(e) + ":" + rle(d.p(), size_t(n)) + (d.guards_ok() ? ":g1" : ":g0"));
      }
      else if (op == "Q") {
        uint32_t id; uint64_t n; unsigned fl; in >> id >> n >> fl;
        if (fabricated_huge || n > (uint64_t(1) << 24)) { emit("Q:unsafe"); continue; }
        Dst d{size_t(n)};
        Error e = code.copy_section_data(d.p(), size_t(n), id, CopySectionFlags(fl));
        emit(std::string("Q:") + err_name(e) + ":" + rle(d.p(), size_t(n)) + (d.guards_ok() ? ":g1" : ":g0"));
      }
      else if (op == "J") {
        // layouts beyond 16 MiB are the allocator's business (it refuses very large requests), not the section functions'
        if (fabricated_huge || code.code_size() > (size_t(1) << 24)) { emit("J:unsafe"); continue; }
        static JitRuntime rt;
        void* p = nullptr;
        Error e = rt._add(&p, &code);
        bool near_target = false;   // scenarios with calls promise targets no rel32 can reach from the allocated memory
        for (uint64_t t : call_targets) { uint64_t d = t - uint64_t(uintptr_t(p)); if (d + (uint64_t(1) << 32) < (uint64_t(2) << 32)) near_target = true; }
        if (e == Error::kOk && p && near_target) { emit("J:near"); rt._release(p); }
        else if (e == Error::kOk && p) {
          size_t n = code.code_size();
          // the image is made independent of where the allocator put it: every kRelToAbs word (the relocation list says where
          // they are) has the base subtracted again; address-table calls are out of rel32 reach (checked above), expressions
          // do not depend on the base
          std::vector<uint8_t> img(static_cast<const uint8_t*>(p), static_cast<const uint8_t*>(p) + n);
          for (const RelocEntry* re : code.reloc_entries()) {
            if (re->reloc_type() != RelocType::kRelToAbs) continue;
            Section* src = code.section_by_id(re->source_section_id());
            size_t at = size_t(src->offset()) + size_t(re->source_offset()) + re->format().value_offset();
            size_t vs = re->format().value_size();
            if (at + vs > n || vs > 8) continue;
            uint64_t w = 0;
            for (size_t k = 0; k < vs; k++) w |= uint64_t(img[at + k]) << (8 * k);
            w -= uint64_t(uintptr_t(p));
            for (size_t k = 0; k < vs; k++) img[at + k] = uint8_t(w >> (8 * k));
          }
          emit(std::string("J:ok:") + std::to_string(n) + ":" + rle(img.data(), n));
          rt._release(p);
        }
        else emit(std::string("J:") + err_name(e));
      }
      else if (op == "K") {
        uint64_t addr, len_ignored; in >> addr >> len_ignored;
        if (!as) { as = new x86::Assembler(&code); }
        Error e = as->call(Imm(addr));
        call_targets.push_back(addr);
        snprintf(tmp, sizeof(tmp), "K:%s:%zu", err_name(e), code.text_section()->buffer_size());
        emit(tmp);
      }
      else if (op == "G") {
        // section flags: add_flags(add) then clear_flags(clr); answers the 16-bit flag word and has_flag(clr)
        uint32_t id, add, clr; in >> id >> add >> clr;
        if (!code.is_section_valid(id)) { emit("G:bad"); continue; }
        Section* sec = code.section_by_id(id);
        sec->add_flags(SectionFlags(add));
        sec->clear_flags(SectionFlags(clr));
        snprintf(tmp, sizeof(tmp), "G:%u:%d", unsigned(sec->flags()), int(sec->has_flag(SectionFlags(clr))));
        emit(tmp);
      }
      else if (op == "E") {
        // embed_label: the 8-byte absolute address of a label bound at the current end of section `id` is embedded into .text
        uint32_t id; in >> id;
        if (!code.is_section_valid(id) || fabricated_huge) { emit("E:bad"); continue; }
        if (!as) { as = new x86::Assembler(&code); }
        Section* sec = code.section_by_id(id);
        Label L = as->new_label();
        Error e = as->section(sec);
        uint64_t loff = as->offset();
        if (e == Error::kOk) e = as->bind(L);
        if (e == Error::kOk) e = as->section(code.text_section());
        if (e == Error::kOk) e = as->embed_label(L);
        snprintf(tmp, sizeof(tmp), "E:%s:%zu:%" PRIu64, err_name(e), code.text_section()->buffer_size(), loff);
        emit(tmp);
      }
      else if (op == "KR") {
        // jz <absolute address>: a conditional jump cannot go through the address table, its rel32 is an AbsToRel relocation
        uint64_t addr; in >> addr;
        if (!as) { as = new x86::Assembler(&code); }
        Error e = as->jz(Imm(addr));
        snprintf(tmp, sizeof(tmp), "KR:%s:%zu", err_name(e), code.text_section()->buffer_size());
        emit(tmp);
      }
      else if (op == "ED") {
        // embed_label_delta: (label at the end of section id1) - (label at the end of section id2) as a `size`-byte value in .text
        uint32_t id1, id2, size; in >> id1 >> id2 >> size;
        if (!code.is_section_valid(id1) || !code.is_section_valid(id2) || fabricated_huge) { emit("ED:bad"); continue; }
        if (!as) { as = new x86::Assembler(&code); }
        Label L1 = as->new_label(), L2 = as->new_label();
        Error e = as->section(code.section_by_id(id1));
        uint64_t o1 = as->offset();
        if (e == Error::kOk) e = as->bind(L1);
        if (e == Error::kOk) e = as->section(code.section_by_id(id2));
        uint64_t o2 = as->offset();
        if (e == Error::kOk) e = as->bind(L2);
        if (e == Error::kOk) e = as->section(code.text_section());
        if (e == Error::kOk) e = as->embed_label_delta(L1, L2, size);
        snprintf(tmp, sizeof(tmp), "ED:%s:%zu:%" PRIu64 ":%" PRIu64, err_name(e), code.text_section()->buffer_size(), o1, o2);
        emit(tmp);
      }
      else if (op == "X") {
        uint64_t base, used_ignored; in >> base >> used_ignored;
        CodeHolder::RelocationSummary summary;
        summary.code_size_reduction = 12345;
        Error e = code.relocate_to_base(base, &summary);
        snprintf(tmp, sizeof(tmp), "X:%s:%zu", err_name(e), summary.code_size_reduction);
        emit(tmp);
      }
      else {
        emit("BAD:" + op);
      }
    }
    if (as) { delete as; as = nullptr; }
    // fabricated sizes must not survive into the holder's destructor paths that look at them
    for (Section* sec : code.sections()) { if (sec->_buffer._size > sec->_buffer._capacity) sec->_buffer._size = 0; }
    puts(out.c_str());
    fflush(stdout);   // a crash in a later scenario must not swallow earlier answers (the check names the scenario that died)
  }
  return 0;
}

// C05 harness: generated Compiler programs -> (a) RaIR dump of the node list before and after register allocation
// (public API only; uses/defs from InstAPI::query_rw_info + the virtual register's size, never from the allocator's
// RAInst), (b) search oracle: the compiled function is JIT-executed on the x86-64 host on many inputs and compared
// with a source-level interpreter of the generated program over an unbounded set of virtual registers.
//
// usage: c05_harness <seed> <first> <count> <inputs> [only-index]        (prints one block per program)
#include <asmjit/x86.h>
#include <asmjit/a64.h>
#include <stdio.h>
#include <stdlib.h>
#include <string.h>
#include <stdint.h>
#include <string>
#include <vector>
#include <map>
#include <algorithm>
#include <unistd.h>
#include <signal.h>
#include <sys/wait.h>

using namespace asmjit;

// ------------------------------------------------------------------------------------------------ PRNG
struct Rng {
  uint64_t s;
  explicit Rng(uint64_t seed) : s(seed * 0x9E3779B97F4A7C15ull + 0x1234567ull) { next(); next(); }
  uint64_t next() { uint64_t z = (s += 0x9E3779B97F4A7C15ull); z = (z ^ (z >> 30)) * 0xBF58476D1CE4E5B9ull; z = (z ^ (z >> 27)) * 0x94D049BB133111EBull; return z ^ (z >> 31); }
  uint32_t below(uint32_t n) { return n ? uint32_t(next() % n) : 0; }
  bool chance(uint32_t pct) { return below(100) < pct; }
};

// ------------------------------------------------------------------------------------------------ generated programs
enum Kind : int {
  K_MOVRR, K_MOVRI, K_ALU, K_ALUI, K_IMUL, K_SHIFTCL, K_SHIFTI, K_UNARY, K_MUL, K_DIV, K_CMP, K_TEST, K_CMPI, K_CMOV, K_SETCC,
  K_LEA, K_MOVZX, K_MOVSX, K_LOAD, K_LOADX, K_STORE, K_JCC, K_JMP, K_LABEL, K_RET, K_CALL,
  K_VLOAD, K_VSTORE, K_VBIN, K_VMOV, K_VFROMGP, K_VTOGP, K_VSHUF, K_VPINSRW, K_VSHIFTI, K_SWITCH,
  K_YLOAD, K_YSTORE, K_YBIN, K_YMOV, K_KLOAD, K_KSTORE, K_KBIN, K_KMOV, K_KFROMGP, K_KTOGP
};
enum VOp { V_PADDD, V_PSUBD, V_PXOR, V_PAND, V_POR, V_PADDQ, V_PMULUDQ, V_PADDB, V_PCMPEQD };
enum AluOp { A_ADD, A_SUB, A_AND, A_OR, A_XOR };
enum ShOp { S_SHL, S_SHR, S_SAR, S_ROL, S_ROR };
enum UnOp { U_NEG, U_NOT, U_INC, U_DEC };

struct Ins {
  int k = 0, op = 0, d = -1, a = -1, b = -1, w = 8, w2 = 0, lbl = -1, cc = 0, scale = 0;
  int64_t imm = 0;
  int nargs = 0, xs[8] = {0, 0, 0, 0, 0, 0, 0, 0};   // K_CALL: 2 (register arguments) or 8 (two of them on the stack)
};

struct Prog {
  std::vector<int> vsize;     // size in bytes of each virtual register; vreg 0 = pointer argument
  std::vector<Ins> ins;
  int nlabels = 0;
  bool fp = false;            // the function keeps a frame pointer (stack arguments are then addressed through it)
  int jt_mode = -1; size_t ninit = 0;     // ninit: the first ninit instructions define every register
  std::vector<int> argv;      // 8-byte virtual registers that receive the function arguments 1..k (6th and later on the stack)
};

static const int kBufQwords = 64;           // input region [0, 512)
static const int kOutBase = 512;            // output region
static const int kOutQwords = 260;
static const int kBufBytes = kOutBase + kOutQwords * 8;

// generator features that are switched off while the corresponding recorded defect of the tree is present (decided by the
// probes, see tools/checks/c05.py): bit 0 = 32-bit writes to 8-byte virtual registers (zero-extension) and
// bit 1 = 8/16-bit xor/sub same-register idioms on wider virtual registers, bit 2 = `and r, 0`, bit 3 = calls, bit 4 = 16-byte vector registers, bit 5 = further function arguments (register and stack), bit 6 = annotated jump tables, bit 7 = AVX functions (32-byte vectors, mask registers, re-aligned stack), bit 8 = blocks named by several jump-table entries, bit 9 = AVX-512 functions (64-byte vectors), bit 10 = calls of a Windows-x64 callee with 16-byte vector arguments (passed by reference)
static unsigned g_features = 2047;
static int g_jt_mode = -1;

struct Gen {
  Rng& r; Prog& p;
  std::vector<int> vals;      // value vregs (general purpose)
  std::vector<int> vvals;     // 16-byte vector vregs
  std::vector<int> yvals, kvals;   // 32-byte vector vregs and 64-bit mask vregs (AVX functions; vsize 32 resp. -8)
  std::vector<int> counters;  // loop counters (never written by ordinary instructions)
  int idxTmp = -1;            // 64-bit temporary used for computed indices
  const std::vector<int>* skel = nullptr;   // systematic CFG skeleton: terminator code of every block but the last (see skeleton_body)
  bool fixed_heavy = false;   // program class dominated by fixed-register instructions, calls and loops (moves/swaps on back edges)
  int jtIdx = -1, jtOff = -1, jtTgt = -1;   // temporaries of jump-table dispatch (never observed otherwise)
  Gen(Rng& r_, Prog& p_) : r(r_), p(p_) {}

  int newv(int size) { p.vsize.push_back(size); return int(p.vsize.size()) - 1; }
  int anyv() { return vals[r.below(uint32_t(vals.size()))]; }
  int anyvv() { return vvals[r.below(uint32_t(vvals.size()))]; }
  int vmin(int minsize) {    // a value vreg of size >= minsize, or -1
    for (int t = 0; t < 12; t++) { int v = anyv(); if (p.vsize[v] >= minsize) return v; }
    for (int v : vals) if (p.vsize[v] >= minsize) return v;
    return -1;
  }
  int pickw(int maxw) { static const int ws[4] = {1, 2, 4, 8}; for (;;) { int w = ws[r.below(4)]; if (w <= maxw) return w; } }
  int64_t pickimm(int w) {
    switch (r.below(8)) {
      case 0: return 0;
      case 1: return -1;
      case 2: return 1;
      case 3: return int64_t(r.below(256)) - 128;
      case 4: return w >= 4 ? int64_t(int32_t(r.next())) : int64_t(int8_t(r.next()));
      case 5: return (1ll << r.below(uint32_t(w * 8 > 31 ? 31 : w * 8 - 1)));
      default: return int64_t(r.below(100000)) - 50000;
    }
  }
  static int64_t fitimm(int64_t v, int w) { if (w == 1) return int8_t(v); if (w == 2) return int16_t(v); return int32_t(v); }

  bool wide(int v) const { return v >= 0 && p.vsize[size_t(v)] == 8; }
  void add(Ins i) {
    bool writes_d = i.k == K_MOVRR || i.k == K_MOVRI || i.k == K_ALU || i.k == K_ALUI || i.k == K_IMUL || i.k == K_SHIFTCL || i.k == K_SHIFTI ||
                    i.k == K_UNARY || i.k == K_CMOV || i.k == K_LEA || i.k == K_LOAD || i.k == K_LOADX || i.k == K_VTOGP;
    if (!(g_features & 1)) {
      if (writes_d && i.w == 4 && wide(i.d)) {
        bool a_ok = (i.k == K_MOVRR || i.k == K_ALU || i.k == K_IMUL || i.k == K_CMOV) ? wide(i.a) : true;
        if (a_ok) { i.w = 8; if (i.k == K_MOVRI || i.k == K_ALUI) i.imm = int64_t(int32_t(i.imm)); if (i.k == K_SHIFTI) i.imm &= 63; } else i.w = 2;
        if (i.w == 2 && (i.k == K_MOVRI || i.k == K_ALUI)) i.imm = int16_t(i.imm);
        if (i.w == 2 && i.k == K_SHIFTI) i.imm &= 15;
        if (i.w == 2 && i.k == K_LEA) return;
      }
      if ((i.k == K_MUL || i.k == K_DIV) && i.w == 4 && (wide(i.d) || wide(i.a))) { if (wide(i.d) && wide(i.a) && wide(i.b)) i.w = 8; else return; }
      if ((i.k == K_MOVZX || i.k == K_MOVSX) && i.w2 == 4 && wide(i.d)) i.w2 = 8;
    }
    if (!(g_features & 2) && i.k == K_ALU && i.d == i.a && (i.op == A_SUB || i.op == A_XOR) && i.w < 4 && p.vsize[size_t(i.d)] > i.w) i.op = A_ADD;
    if (!(g_features & 4) && i.k == K_ALUI && i.op == A_AND && i.imm == 0) i.imm = 1;
    p.ins.push_back(i);
  }

  void cmp_any() {
    Ins i; int a = anyv(); int w = pickw(p.vsize[a]);
    if (r.chance(40)) { i.k = K_CMPI; i.a = a; i.w = w; i.imm = fitimm(pickimm(w), w); }
    else { int b = vmin(w); if (b < 0) b = a; if (p.vsize[b] < w) w = p.vsize[b]; i.k = r.chance(25) ? K_TEST : K_CMP; i.a = a; i.b = b; i.w = w; }
    add(i);
  }

  void one_op() {
    Ins i;
    uint32_t pick = r.below((g_features & 8) ? 26 : 24);
    if (fixed_heavy && r.chance(60)) { static const uint32_t fh[10] = {9, 10, 9, 13, 14, 24, 12, 3, 11, 17}; pick = fh[r.below((g_features & 8) ? 10 : 5)]; if (pick == 24 && !(g_features & 8)) pick = 9; }
    if ((g_features & 16) && !vvals.empty() && r.chance(30)) pick = 100 + r.below((g_features & 1024) && (g_features & 8) ? 11 : 10);
    if (!yvals.empty() && r.chance(30)) pick = 200 + r.below(5);
    if (!kvals.empty() && r.chance(12)) pick = 210 + r.below(6);
    switch (pick) {
      case 0: case 1: { int d = anyv(), a = anyv(); int w = pickw(std::min(p.vsize[d], p.vsize[a])); i.k = K_MOVRR; i.d = d; i.a = a; i.w = w; add(i); break; }
      case 2: { int d = anyv(); int w = pickw(p.vsize[d]); i.k = K_MOVRI; i.d = d; i.w = w; i.imm = (w == 8 && r.chance(30)) ? int64_t(r.next()) : fitimm(pickimm(w), w); add(i); break; }
      case 3: case 4: case 5: { int d = anyv(), a = r.chance(8) ? d : anyv(); int w = pickw(std::min(p.vsize[d], p.vsize[a])); i.k = K_ALU; i.op = int(r.below(5)); i.d = d; i.a = a; i.w = w; add(i); break; }
      case 6: case 7: { int d = anyv(); int w = pickw(p.vsize[d]); i.k = K_ALUI; i.op = int(r.below(5)); i.d = d; i.w = w; i.imm = fitimm(pickimm(w), w); add(i); break; }
      case 8: { int d = vmin(2); if (d < 0) break; int a = vmin(2); int w = pickw(std::min(p.vsize[d], p.vsize[a])); if (w < 2) w = 2; i.k = K_IMUL; i.d = d; i.a = a; i.w = w; add(i); break; }
      case 9: case 10: { int d = anyv(), c = anyv(); int w = pickw(p.vsize[d]); i.k = K_SHIFTCL; i.op = int(r.below(5)); i.d = d; i.a = c; i.w = w; add(i); break; }
      case 11: { int d = anyv(); int w = pickw(p.vsize[d]); i.k = K_SHIFTI; i.op = int(r.below(5)); i.d = d; i.w = w; i.imm = r.chance(15) ? 0 : int64_t(r.below(uint32_t(w * 8))); add(i); break; }
      case 12: { int d = anyv(); int w = pickw(p.vsize[d]); i.k = K_UNARY; i.op = int(r.below(4)); i.d = d; i.w = w; add(i); break; }
      case 13: { // mul hi, lo, src
        int hi = vmin(4), lo = vmin(4), s = vmin(4); if (hi < 0 || lo < 0 || s < 0 || hi == lo) break;
        int w = std::min(std::min(p.vsize[hi], p.vsize[lo]), p.vsize[s]) >= 8 && r.chance(60) ? 8 : 4;
        i.k = K_MUL; i.d = hi; i.a = lo; i.b = s; i.w = w; add(i); break; }
      case 14: { // xor hi,hi ; or src,1 ; div hi, lo, src
        int hi = vmin(4), lo = vmin(4), s = vmin(4); if (hi < 0 || lo < 0 || s < 0 || hi == lo || s == hi) break;
        int w = std::min(std::min(p.vsize[hi], p.vsize[lo]), p.vsize[s]) >= 8 && r.chance(60) ? 8 : 4;
        Ins z; z.k = K_ALU; z.op = A_XOR; z.d = hi; z.a = hi; z.w = w; add(z);
        Ins o; o.k = K_ALUI; o.op = A_OR; o.d = s; o.w = w; o.imm = 1; add(o);
        i.k = K_DIV; i.d = hi; i.a = lo; i.b = s; i.w = w; add(i); break; }
      case 15: { cmp_any(); int d = vmin(2), s = vmin(2); if (d < 0) break; int w = pickw(std::min(p.vsize[d], p.vsize[s])); if (w < 2) w = 2;
        i.k = K_CMOV; i.cc = int(r.below(16)); i.d = d; i.a = s; i.w = w; add(i); break; }
      case 16: { cmp_any(); i.k = K_SETCC; i.cc = int(r.below(16)); i.d = anyv(); i.w = 1; add(i); break; }
      case 17: { int d = vmin(4), a = vmin(8), b = vmin(8); if (d < 0 || a < 0) break; i.k = K_LEA; i.d = d; i.a = a; i.b = r.chance(70) ? b : -1; i.scale = int(r.below(4));
        i.imm = int64_t(r.below(4096)) - 2048; i.w = p.vsize[d] >= 8 && r.chance(60) ? 8 : 4; add(i); break; }
      case 18: { int a = anyv(); int w1 = pickw(std::min(p.vsize[a], 2)); int d = vmin(w1 * 2); if (d < 0) break; int w2 = pickw(p.vsize[d]); if (w2 <= w1) w2 = w1 * 2;
        i.k = K_MOVZX; i.d = d; i.a = a; i.w = w1; i.w2 = w2; add(i); break; }
      case 19: { int a = anyv(); int w1 = pickw(std::min(p.vsize[a], 4)); int d = vmin(w1 * 2); if (d < 0) break; int w2 = pickw(p.vsize[d]); if (w2 <= w1) w2 = w1 * 2;
        i.k = K_MOVSX; i.d = d; i.a = a; i.w = w1; i.w2 = w2; add(i); break; }
      case 20: { int d = anyv(); int w = pickw(p.vsize[d]); i.k = K_LOAD; i.d = d; i.w = w; i.imm = int64_t(r.below(kBufQwords)) * 8; add(i); break; }
      case 21: { // computed index: mov t32, x32 ; and t32, 0x1F8 ; mov d, [p + t + disp]
        int x = vmin(4); if (x < 0) break; int d = anyv(); int w = pickw(p.vsize[d]);
        Ins m; m.k = K_MOVRR; m.d = idxTmp; m.a = x; m.w = 4; add(m);
        Ins n; n.k = K_ALUI; n.op = A_AND; n.d = idxTmp; n.w = 4; n.imm = 0xF8; add(n);
        i.k = K_LOADX; i.d = d; i.a = idxTmp; i.w = w; i.imm = int64_t(r.below(4)) * 64; add(i); break; }
      case 200: { i.k = K_YLOAD; i.d = yvals[r.below(uint32_t(yvals.size()))]; i.imm = int64_t(r.below(kBufQwords - 8)) * 8; add(i); break; }
      case 201: case 202: case 203: { i.k = K_YBIN; i.op = int(r.below(4)); i.d = yvals[r.below(uint32_t(yvals.size()))]; i.a = yvals[r.below(uint32_t(yvals.size()))]; i.b = r.chance(10) ? i.a : yvals[r.below(uint32_t(yvals.size()))]; add(i); break; }
      case 204: { i.k = K_YMOV; i.d = yvals[r.below(uint32_t(yvals.size()))]; i.a = yvals[r.below(uint32_t(yvals.size()))]; add(i); break; }
      case 210: { i.k = K_KLOAD; i.d = kvals[r.below(uint32_t(kvals.size()))]; i.imm = int64_t(r.below(kBufQwords)) * 8; add(i); break; }
      case 211: case 212: { i.k = K_KBIN; i.op = int(r.below(3)); i.d = kvals[r.below(uint32_t(kvals.size()))]; i.a = kvals[r.below(uint32_t(kvals.size()))]; i.b = kvals[r.below(uint32_t(kvals.size()))]; add(i); break; }
      case 213: { i.k = K_KMOV; i.d = kvals[r.below(uint32_t(kvals.size()))]; i.a = kvals[r.below(uint32_t(kvals.size()))]; add(i); break; }
      case 214: { int g = vmin(8); if (g < 0) break; i.k = K_KFROMGP; i.d = kvals[r.below(uint32_t(kvals.size()))]; i.a = g; add(i); break; }
      case 215: { int g = vmin(8); if (g < 0) break; i.k = K_KTOGP; i.d = g; i.a = kvals[r.below(uint32_t(kvals.size()))]; i.w = 8; add(i); break; }
      case 100: { i.k = K_VLOAD; i.d = anyvv(); i.imm = int64_t(r.below(kBufQwords - 1)) * 8; add(i); break; }
      case 101: case 102: case 103: { i.k = K_VBIN; i.op = int(r.below(9)); i.d = anyvv(); i.a = r.chance(12) ? i.d : anyvv(); add(i); break; }
      case 104: { i.k = K_VMOV; i.d = anyvv(); i.a = anyvv(); add(i); break; }
      case 105: { int g = vmin(4); if (g < 0) break; i.k = K_VFROMGP; i.d = anyvv(); i.a = g; i.w = p.vsize[g] >= 8 && r.chance(50) ? 8 : 4; add(i); break; }
      case 106: { int g = vmin(4); if (g < 0) break; i.k = K_VTOGP; i.d = g; i.a = anyvv(); i.w = p.vsize[g] >= 8 && r.chance(50) ? 8 : 4; add(i); break; }
      case 107: { i.k = K_VSHUF; i.d = anyvv(); i.a = anyvv(); i.imm = int64_t(r.below(256)); add(i); break; }
      case 108: { int g = vmin(4); if (g < 0) break; i.k = K_VPINSRW; i.d = anyvv(); i.a = g; i.imm = int64_t(r.below(8)); add(i); break; }
      case 109: { i.k = K_VSHIFTI; i.op = int(r.below(2)); i.d = anyvv(); i.imm = int64_t(r.below(70)); add(i); break; }
      case 110: { // call of a Windows-x64 callee with two 16-byte vector arguments (passed by reference) and an integer
        int d = vmin(8), g = vmin(8); if (d < 0 || g < 0) break; i.k = K_CALL; i.d = d; i.nargs = 3; i.xs[0] = anyvv(); i.xs[1] = g; i.xs[2] = anyvv(); add(i); break; }
      case 24: case 25: { // call of a C helper with 2 register arguments or 8 arguments (6 in registers, 2 on the stack)
        int d = vmin(8); if (d < 0 || vmin(8) < 0) break; i.k = K_CALL; i.d = d; i.nargs = r.chance(60) ? 2 : (r.chance(50) ? 8 : 6);     // 6: a callee with the Windows x64 convention
        for (int q = 0; q < i.nargs; q++) i.xs[q] = vmin(8);
        add(i); break; }
      case 22: case 23: { int a = anyv(); int w = pickw(p.vsize[a]); i.k = K_STORE; i.a = a; i.w = w; i.imm = kOutBase + int64_t(r.below(kOutQwords - 1)) * 8; add(i); break; }
    }
  }

  // Systematic CFG skeleton of B blocks: block i (i < B-1) ends with terminator t = (*skel)[i]: 0 fall through,
  // 1..B conditional branch to block t-1, B+1..2B unconditional jump to block t-B-1; branches that do not go forward are
  // guarded by a counter so that the program terminates. The last block leaves the function.
  void skeleton_body() {
    int B = int(skel->size()) + 1; std::vector<int> lbl; for (int i = 0; i < B; i++) lbl.push_back(p.nlabels++);
    for (int i = 0; i < B; i++) {
      Ins l; l.k = K_LABEL; l.lbl = lbl[size_t(i)]; add(l);
      int nops = 2 + int(r.below(3)); for (int q = 0; q < nops; q++) one_op();
      if (i == B - 1) break;
      int t = (*skel)[size_t(i)]; if (t == 0) continue;
      bool cond = t <= B; int j = cond ? t - 1 : t - B - 1; bool forward = j > i;
      int skip = -1;
      if (!forward) {            // at most K more executions of this edge
        int c = counters.empty() ? -1 : counters[size_t(i) % counters.size()]; if (c < 0) continue;
        skip = p.nlabels++;
        Ins tt; tt.k = K_TEST; tt.a = c; tt.b = c; tt.w = 8; add(tt); Ins jz; jz.k = K_JCC; jz.cc = 4; jz.lbl = skip; add(jz);
        Ins d; d.k = K_UNARY; d.op = U_DEC; d.d = c; d.w = 8; add(d);
      }
      if (cond) { cmp_any(); Ins jc; jc.k = K_JCC; jc.cc = int(r.below(16)); jc.lbl = lbl[size_t(j)]; add(jc); }
      else { Ins jm; jm.k = K_JMP; jm.lbl = lbl[size_t(j)]; add(jm); }
      if (skip >= 0) { Ins s; s.k = K_LABEL; s.lbl = skip; add(s); }
    }
  }

  void build(int nvals, int nitems, int flowpct, int nvec = 0) {
    newv(8);                                        // vreg 0: pointer
    int nloops = skel ? 4 : fixed_heavy ? 2 + int(r.below(4)) : int(r.below(4));
    for (int j = 0; j < nloops; j++) counters.push_back(newv(8));
    idxTmp = newv(8);
    if (g_features & 64) { jtIdx = newv(8); jtOff = newv(8); jtTgt = newv(8); }
    static const int sizes[8] = {8, 8, 8, 4, 4, 2, 1, 8};
    for (int j = 0; j < nvals; j++) vals.push_back(newv(sizes[r.below(8)]));
    if (vals.empty()) vals.push_back(newv(8));
    bool avx = (g_features & 128) && nvec > 0 && r.chance(40);      // an AVX function: its vectors are 32 bytes wide, mask registers appear
    bool avx512 = avx && (g_features & 512) && r.chance(40);        // ... or 64 bytes wide (EVEX forms, 32 vector registers)
    if (avx512) nvec += int(r.below(20));
    if (avx) { for (int j = 0; j < nvec; j++) yvals.push_back(newv(avx512 ? 64 : 32)); int nk = int(r.below(10)); for (int j = 0; j < nk; j++) kvals.push_back(newv(-8)); }
    else if (g_features & 16) for (int j = 0; j < nvec; j++) vvals.push_back(newv(16));
    if ((g_features & 32) && r.chance(50)) { int k = int(r.below(12)); /* also in frames with a re-aligned stack: stack arguments come through the SA register */ p.fp = r.chance(20); for (int j = 0; j < k; j++) { int v = vmin(8); if (v >= 0 && std::find(p.argv.begin(), p.argv.end(), v) == p.argv.end()) p.argv.push_back(v); } }
    // entry: every register is defined on every path
    for (int c : counters) { Ins i; i.k = K_MOVRI; i.d = c; i.w = 8; i.imm = (fixed_heavy ? 2 : 1) + int64_t(r.below(3)); add(i); }
    { Ins i; i.k = K_MOVRI; i.d = idxTmp; i.w = 8; i.imm = 0; add(i); }
    if (jtIdx >= 0) for (int t : {jtIdx, jtOff, jtTgt}) { Ins i; i.k = K_MOVRI; i.d = t; i.w = 8; i.imm = 0; add(i); }
    for (int v : vals) { if (std::find(p.argv.begin(), p.argv.end(), v) != p.argv.end()) continue; Ins i; if (r.chance(85)) { i.k = K_LOAD; i.d = v; i.w = p.vsize[v]; i.imm = int64_t(r.below(kBufQwords)) * 8; } else { i.k = K_MOVRI; i.d = v; i.w = p.vsize[v]; i.imm = fitimm(pickimm(p.vsize[v]), p.vsize[v]); } add(i); }
    for (int v : vvals) { Ins i; i.k = K_VLOAD; i.d = v; i.imm = int64_t(r.below(kBufQwords - 1)) * 8; add(i); }
    for (int v : yvals) { Ins i; i.k = K_YLOAD; i.d = v; i.imm = int64_t(r.below(kBufQwords - 8)) * 8; add(i); }
    for (int v : kvals) { Ins i; i.k = K_KLOAD; i.d = v; i.imm = int64_t(r.below(kBufQwords)) * 8; add(i); }
    p.ninit = p.ins.size();
    // body: labels are created on demand; forward jumps pick a label that will be placed later
    std::vector<int> placed;        // labels already bound (targets of backward jumps)
    std::vector<int> pending;       // labels referenced by forward jumps, not yet bound
    std::vector<int> freeCounters = counters;
    std::vector<int> jtpend;        // jump-table targets that no other jump may use (C05_JT_SHARE=0)
    // how jump-table targets relate to the rest of the flow: 0 entered through their table only, 2 also by falling through,
    // 3/4 also by conditional/unconditional forward jumps, 5 two entries share a block, 6 also by loop back edges,
    // 7 the entries of all tables are bound back to back at the end of the function (recorded defect, probe only)
    // 1, 5 and 7 (a block named by several entries / tables) only with feature bit 8: they were miscompiled before the
    // repairs fixes/C05-shared-assignment-union-find.patch and C05-indirect-jump-single-successor-scratch.patch
    static const int modes[8] = {0, 2, 3, 4, 6, 1, 5, 7};
    int jt_mode = g_jt_mode >= 0 ? g_jt_mode : modes[r.below((g_features & 256) ? 8 : 5)]; p.jt_mode = jt_mode;
    if (skel) { skeleton_body(); nitems = 0; }
    for (int n = 0; n < nitems; n++) {
      uint32_t x = r.below(100);
      if (int(x) < flowpct) {
        uint32_t y = r.below(jtIdx >= 0 ? 12 : 10);
        if (y >= 10) {                               // annotated jump table with 2 or 4 forward targets; the first one follows directly
          int x = vmin(4); if (x < 0) continue; int n = r.chance(50) ? 2 : 4;
          Ins m; m.k = K_MOVRR; m.d = jtIdx; m.a = x; m.w = 4; add(m);
          Ins a; a.k = K_ALUI; a.op = A_AND; a.d = jtIdx; a.w = 4; a.imm = n - 1; add(a);
          Ins sw; sw.k = K_SWITCH; sw.a = jtIdx; sw.d = jtOff; sw.b = jtTgt; sw.nargs = n;
          sw.xs[0] = p.nlabels++;
          int jt_share = jt_mode;
          for (int q = 1; q < n; q++) { if (jt_share == 1 && !pending.empty() && r.chance(40)) sw.xs[q] = pending[r.below(uint32_t(pending.size()))]; else { sw.xs[q] = p.nlabels++; (jt_share == 1 ? pending : jtpend).push_back(sw.xs[q]); } }
          add(sw);
          Ins s; s.k = K_LABEL; s.lbl = sw.xs[0]; add(s); placed.push_back(sw.xs[0]);
        } else if (y < 4) {                                 // forward conditional jump
          int l; if (jt_mode == 3 && !jtpend.empty() && r.chance(40)) l = jtpend[r.below(uint32_t(jtpend.size()))]; else if (!pending.empty() && r.chance(40)) l = pending[r.below(uint32_t(pending.size()))]; else { l = p.nlabels++; pending.push_back(l); }
          cmp_any(); Ins i; i.k = K_JCC; i.cc = int(r.below(16)); i.lbl = l; add(i);
        } else if (y < 7) {                          // bind a label (pending one or a fresh one for back edges)
          if (!jtpend.empty() && r.chance(50)) {     // an exclusive jump-table target: entered through its table only
            int lj = jtpend.back(); jtpend.pop_back();
            if (jt_mode != 2 && jt_mode != 5) { int skip = p.nlabels++; pending.push_back(skip); Ins j; j.k = K_JMP; j.lbl = skip; add(j); }
            Ins s; s.k = K_LABEL; s.lbl = lj; add(s); if (jt_mode == 6) placed.push_back(lj); if (jt_mode != 5) one_op(); else if (!jtpend.empty()) { Ins s2; s2.k = K_LABEL; s2.lbl = jtpend.back(); jtpend.pop_back(); add(s2); } continue;
          }
          int l; if (false) { l = 0; } else if (!pending.empty() && r.chance(75)) { uint32_t q = r.below(uint32_t(pending.size())); l = pending[q]; pending.erase(pending.begin() + q); } else l = p.nlabels++;
          Ins i; i.k = K_LABEL; i.lbl = l; add(i); placed.push_back(l);
        } else if (y < 9) {                          // guarded backward jump
          if (placed.empty() || freeCounters.empty()) continue;
          int c = freeCounters.back(); if (r.chance(70)) freeCounters.pop_back();
          int l = placed[r.below(uint32_t(placed.size()))]; int skip = p.nlabels++;
          Ins t; t.k = K_TEST; t.a = c; t.b = c; t.w = 8; add(t);
          Ins j; j.k = K_JCC; j.cc = 4 /* jz */; j.lbl = skip; add(j);
          Ins d; d.k = K_UNARY; d.op = U_DEC; d.d = c; d.w = 8; add(d);
          Ins b; b.k = K_JMP; b.lbl = l; add(b);
          Ins s; s.k = K_LABEL; s.lbl = skip; add(s); placed.push_back(skip);
        } else {                                     // forward unconditional jump; the code after it stays reachable because the
                                                     // label bound right behind it is already the target of an earlier forward branch
          if (pending.empty()) continue;
          uint32_t q = r.below(uint32_t(pending.size())); int l2 = pending[q]; pending.erase(pending.begin() + q);
          int l; if (jt_mode == 4 && !jtpend.empty() && r.chance(50)) l = jtpend[r.below(uint32_t(jtpend.size()))]; else if (!pending.empty() && r.chance(40)) l = pending[r.below(uint32_t(pending.size()))]; else { l = p.nlabels++; pending.push_back(l); }
          Ins i; i.k = K_JMP; i.lbl = l; add(i);
          Ins s; s.k = K_LABEL; s.lbl = l2; add(s); placed.push_back(l2);
        }
      } else one_op();
    }
    if (jt_mode == 7) { for (int lj : jtpend) { Ins s; s.k = K_LABEL; s.lbl = lj; add(s); } jtpend.clear(); }
    for (int lj : jtpend) { int skip = p.nlabels++; pending.push_back(skip); Ins j; j.k = K_JMP; j.lbl = skip; add(j); Ins s; s.k = K_LABEL; s.lbl = lj; add(s); one_op(); }
    for (int l : pending) { Ins i; i.k = K_LABEL; i.lbl = l; add(i); }
    // exit: all values become observable
    int slot = 0;
    for (int v : vals) { if (slot >= kOutQwords - 1) break; Ins i; i.k = K_STORE; i.a = v; i.w = p.vsize[v]; i.imm = kOutBase + 8 * slot++; add(i); }
    for (int v : vvals) { if (slot >= kOutQwords - 2) break; Ins i; i.k = K_VSTORE; i.a = v; i.imm = kOutBase + 8 * slot; slot += 2; add(i); }
    for (int v : yvals) { int q = p.vsize[size_t(v)] / 8; if (slot >= kOutQwords - q) break; Ins i; i.k = K_YSTORE; i.a = v; i.imm = kOutBase + 8 * slot; slot += q; add(i); }
    for (int v : kvals) { if (slot >= kOutQwords - 1) break; Ins i; i.k = K_KSTORE; i.a = v; i.imm = kOutBase + 8 * slot++; add(i); }
    int rv = vmin(8); if (rv < 0) { rv = idxTmp; }
    Ins i; i.k = K_RET; i.a = rv; add(i);
  }
};

// ------------------------------------------------------------------------------------------------ source-level interpreter
static inline uint64_t maskw(int w) { return w >= 8 ? ~0ull : ((1ull << (8 * w)) - 1); }
static inline int64_t sxw(uint64_t x, int w) { int s = 64 - 8 * w; return s ? (int64_t(x << s) >> s) : int64_t(x); }

struct Flags { bool cf = 0, zf = 0, sf = 0, of = 0, pf = 0; };
static bool parity8(uint64_t x) { x &= 0xFF; x ^= x >> 4; x ^= x >> 2; x ^= x >> 1; return !(x & 1); }
static bool cond(int cc, const Flags& f) {
  switch (cc) {
    case 0: return f.of; case 1: return !f.of; case 2: return f.cf; case 3: return !f.cf; case 4: return f.zf; case 5: return !f.zf;
    case 6: return f.cf || f.zf; case 7: return !f.cf && !f.zf; case 8: return f.sf; case 9: return !f.sf; case 10: return f.pf; case 11: return !f.pf;
    case 12: return f.sf != f.of; case 13: return f.sf == f.of; case 14: return f.zf || (f.sf != f.of); default: return !f.zf && (f.sf == f.of);
  }
}

static std::vector<uint64_t> g_callLog;
static uint64_t helper(uint64_t a, uint64_t b) { g_callLog.push_back(2); g_callLog.push_back(a); g_callLog.push_back(b); return (a * 0x9E3779B97F4A7C15ull) ^ (b + (a >> 7)) ^ 0x5bd1e995; }
// Windows x64 convention (4 register arguments rcx/rdx/r8/r9, 32 bytes of shadow space, rsi/rdi/xmm6-15 preserved)
__attribute__((ms_abi)) static uint64_t helper_ms(uint64_t a0, uint64_t a1, uint64_t a2, uint64_t a3, uint64_t a4, uint64_t a5) {
  uint64_t v[6] = {a0, a1, a2, a3, a4, a5}; uint64_t h = 0x777; g_callLog.push_back(6);
  for (int i = 0; i < 6; i++) { g_callLog.push_back(v[i]); h = (h + v[i]) * 0x9E3779B97F4A7C15ull ^ uint64_t(i); }
  return h;
}
// Windows x64: 16-byte vector arguments are passed BY REFERENCE (the caller copies them to temporaries and passes pointers)
#include <emmintrin.h>
__attribute__((ms_abi)) static uint64_t helper_msv(__m128i a, uint64_t b, __m128i c) {
  uint64_t v[5]; memcpy(v, &a, 16); v[2] = b; memcpy(v + 3, &c, 16); uint64_t h = 0x3141; g_callLog.push_back(5);
  for (int i = 0; i < 5; i++) { g_callLog.push_back(v[i]); h = (h ^ v[i]) * 0x9E3779B97F4A7C15ull + uint64_t(i); }
  return h;
}
static uint64_t helper8(uint64_t a0, uint64_t a1, uint64_t a2, uint64_t a3, uint64_t a4, uint64_t a5, uint64_t a6, uint64_t a7) {
  uint64_t v[8] = {a0, a1, a2, a3, a4, a5, a6, a7}; uint64_t h = 0x1234567; g_callLog.push_back(8);
  for (int i = 0; i < 8; i++) { g_callLog.push_back(v[i]); h = (h ^ v[i]) * 0x100000001B3ull + uint64_t(i); }
  return h;
}

struct V128 { uint64_t q[2]; };
struct V256 { uint64_t q[8]; };     // up to 64 bytes
struct Interp {
  const Prog& p; std::vector<uint64_t> R; std::vector<V128> X; std::vector<V256> Y; Flags f; uint8_t* buf; bool fault = false;
  Interp(const Prog& p_, uint8_t* b) : p(p_), R(p_.vsize.size(), 0), X(p_.vsize.size(), V128{{0, 0}}), Y(p_.vsize.size(), V256{{0, 0, 0, 0, 0, 0, 0, 0}}), buf(b) {}
  uint64_t rd(int v, int w) const { return R[size_t(v)] & maskw(w); }
  void wr(int v, int w, uint64_t x) { if (w >= 4) R[size_t(v)] = x & maskw(w); else R[size_t(v)] = (R[size_t(v)] & ~maskw(w)) | (x & maskw(w)); }
  uint64_t ld(int64_t off, int w) { if (off < 0 || off + w > kBufBytes) { fault = true; return 0; } uint64_t x = 0; memcpy(&x, buf + off, size_t(w)); return x; }
  void stm(int64_t off, int w, uint64_t x) { if (off < 0 || off + w > kBufBytes) { fault = true; return; } memcpy(buf + off, &x, size_t(w)); }
  void setcmp(uint64_t a, uint64_t b, int w) { uint64_t m = maskw(w); a &= m; b &= m; uint64_t r = (a - b) & m; uint64_t sb = 1ull << (8 * w - 1);
    f.cf = a < b; f.zf = r == 0; f.sf = (r & sb) != 0; f.of = (((a ^ b) & (a ^ r)) & sb) != 0; f.pf = parity8(r); }
  void settest(uint64_t a, uint64_t b, int w) { uint64_t r = a & b & maskw(w); f.cf = 0; f.of = 0; f.zf = r == 0; f.sf = (r >> (8 * w - 1)) & 1; f.pf = parity8(r); }

  // returns the function result; `steps` guards against non-termination (cannot happen by construction)
  uint64_t run(uint64_t ptrval, const uint64_t* extra = nullptr) {
    std::map<int, size_t> lab; for (size_t i = 0; i < p.ins.size(); i++) if (p.ins[i].k == K_LABEL) lab[p.ins[i].lbl] = i;
    R[0] = ptrval; size_t pc = 0; long steps = 0;
    for (size_t q = 0; q < p.argv.size(); q++) R[size_t(p.argv[q])] = extra ? extra[q] : 0;
    while (pc < p.ins.size()) {
      if (++steps > 5000000) { fault = true; return 0; }
      const Ins& i = p.ins[pc++]; int w = i.w; unsigned bits = unsigned(8 * w);
      switch (i.k) {
        case K_MOVRR: wr(i.d, w, rd(i.a, w)); break;
        case K_MOVRI: wr(i.d, w, uint64_t(i.imm)); break;
        case K_ALU: case K_ALUI: { uint64_t a = rd(i.d, w), b = i.k == K_ALU ? rd(i.a, w) : uint64_t(i.imm), x = 0;
          switch (i.op) { case A_ADD: x = a + b; break; case A_SUB: x = a - b; break; case A_AND: x = a & b; break; case A_OR: x = a | b; break; default: x = a ^ b; break; }
          wr(i.d, w, x); break; }
        case K_IMUL: wr(i.d, w, uint64_t(sxw(rd(i.d, w), w) * sxw(rd(i.a, w), w))); break;
        case K_SHIFTCL: case K_SHIFTI: { uint64_t a = rd(i.d, w); unsigned c = unsigned(i.k == K_SHIFTCL ? rd(i.a, 1) : uint64_t(i.imm)) & (w == 8 ? 63u : 31u); uint64_t x = a;
          if (c) switch (i.op) {
            case S_SHL: x = c >= 64 ? 0 : a << c; break;
            case S_SHR: x = c >= bits ? 0 : a >> c; break;
            case S_SAR: { unsigned cc = c >= bits ? bits - 1 : c; x = uint64_t(sxw(a, w) >> cc); break; }
            case S_ROL: { unsigned cc = c % bits; x = cc ? ((a << cc) | (a >> (bits - cc))) : a; break; }
            default: { unsigned cc = c % bits; x = cc ? ((a >> cc) | (a << (bits - cc))) : a; break; }
          }
          // a 32-bit shift with a zero count still writes (zero-extends) the destination only if executed; x86 leaves the
          // register untouched for count 0 in 64-bit mode? No: the 32-bit form always zero-extends. Model: always write.
          wr(i.d, w, x); break; }
        case K_UNARY: { uint64_t a = rd(i.d, w), x = 0; switch (i.op) { case U_NEG: x = 0 - a; break; case U_NOT: x = ~a; break; case U_INC: x = a + 1; break; default: x = a - 1; break; } wr(i.d, w, x); break; }
        case K_MUL: { uint64_t a = rd(i.a, w), b = rd(i.b, w); if (w == 8) { unsigned __int128 m = (unsigned __int128)a * b; wr(i.a, 8, uint64_t(m)); wr(i.d, 8, uint64_t(m >> 64)); } else { uint64_t m = a * b; wr(i.a, 4, m & 0xFFFFFFFFu); wr(i.d, 4, m >> 32); } break; }
        case K_DIV: { uint64_t hi = rd(i.d, w), lo = rd(i.a, w), s = rd(i.b, w); if (s == 0 || hi != 0) { fault = true; return 0; } wr(i.a, w, lo / s); wr(i.d, w, lo % s); break; }
        case K_CMP: setcmp(rd(i.a, w), rd(i.b, w), w); break;
        case K_CMPI: setcmp(rd(i.a, w), uint64_t(i.imm), w); break;
        case K_TEST: settest(rd(i.a, w), rd(i.b, w), w); break;
        case K_CMOV: if (cond(i.cc, f)) wr(i.d, w, rd(i.a, w)); else if (w == 4) wr(i.d, 4, rd(i.d, 4)); break;
        case K_SETCC: wr(i.d, 1, cond(i.cc, f) ? 1 : 0); break;
        case K_LEA: { uint64_t x = rd(i.a, 8) + (i.b >= 0 ? (rd(i.b, 8) << i.scale) : 0) + uint64_t(i.imm); wr(i.d, w, x); break; }
        case K_MOVZX: wr(i.d, i.w2, rd(i.a, w)); break;
        case K_MOVSX: wr(i.d, i.w2, uint64_t(sxw(rd(i.a, w), w))); break;
        case K_LOAD: wr(i.d, w, ld(i.imm, w)); break;
        case K_LOADX: wr(i.d, w, ld(int64_t(rd(i.a, 8)) + i.imm, w)); break;
        case K_STORE: stm(i.imm, w, rd(i.a, w)); break;
        case K_JCC: if (cond(i.cc, f)) pc = lab[i.lbl]; break;
        case K_JMP: pc = lab[i.lbl]; break;
        case K_LABEL: break;
        case K_SWITCH: pc = lab[i.xs[rd(i.a, 8) % uint64_t(i.nargs)]]; break;
        case K_YLOAD: { int n = p.vsize[size_t(i.d)]; if (i.imm < 0 || i.imm + n > kBufBytes) { fault = true; break; } memcpy(&Y[size_t(i.d)], buf + i.imm, size_t(n)); break; }
        case K_YSTORE: { int n = p.vsize[size_t(i.a)]; if (i.imm < 0 || i.imm + n > kBufBytes) { fault = true; break; } memcpy(buf + i.imm, &Y[size_t(i.a)], size_t(n)); break; }
        case K_YMOV: Y[size_t(i.d)] = Y[size_t(i.a)]; break;
        case K_YBIN: { V256 a = Y[size_t(i.a)], b = Y[size_t(i.b)], x = V256{{0, 0, 0, 0, 0, 0, 0, 0}}; uint32_t al[16], bl[16], xl[16]; memcpy(al, &a, 64); memcpy(bl, &b, 64); int nq = p.vsize[size_t(i.d)] / 8;
          switch (i.op) { case 0: for (int q = 0; q < 2 * nq; q++) xl[q] = al[q] + bl[q]; memcpy(&x, xl, size_t(8 * nq)); break;
                          case 1: for (int q = 0; q < nq; q++) x.q[q] = a.q[q] ^ b.q[q]; break;
                          case 2: for (int q = 0; q < 2 * nq; q++) xl[q] = al[q] - bl[q]; memcpy(&x, xl, size_t(8 * nq)); break;
                          default: for (int q = 0; q < nq; q++) x.q[q] = a.q[q] & b.q[q]; break; }
          Y[size_t(i.d)] = x; break; }
        case K_KLOAD: R[size_t(i.d)] = ld(i.imm, 8); break;
        case K_KSTORE: stm(i.imm, 8, R[size_t(i.a)]); break;
        case K_KMOV: R[size_t(i.d)] = R[size_t(i.a)]; break;
        case K_KBIN: R[size_t(i.d)] = i.op == 0 ? (R[size_t(i.a)] & R[size_t(i.b)]) : i.op == 1 ? (R[size_t(i.a)] | R[size_t(i.b)]) : (R[size_t(i.a)] ^ R[size_t(i.b)]); break;
        case K_KFROMGP: R[size_t(i.d)] = rd(i.a, 8); break;
        case K_KTOGP: wr(i.d, 8, R[size_t(i.a)]); break;
        case K_VLOAD: { if (i.imm < 0 || i.imm + 16 > kBufBytes) { fault = true; break; } memcpy(&X[size_t(i.d)], buf + i.imm, 16); break; }
        case K_VSTORE: { if (i.imm < 0 || i.imm + 16 > kBufBytes) { fault = true; break; } memcpy(buf + i.imm, &X[size_t(i.a)], 16); break; }
        case K_VMOV: X[size_t(i.d)] = X[size_t(i.a)]; break;
        case K_VFROMGP: { V128 v; v.q[0] = rd(i.a, w); v.q[1] = 0; X[size_t(i.d)] = v; break; }
        case K_VTOGP: wr(i.d, w, X[size_t(i.a)].q[0]); break;
        case K_VBIN: { V128 a = X[size_t(i.d)], b = X[size_t(i.a)], x; uint32_t al[4], bl[4], xl[4]; memcpy(al, &a, 16); memcpy(bl, &b, 16);
          switch (i.op) {
            case V_PADDD: for (int q = 0; q < 4; q++) xl[q] = al[q] + bl[q]; memcpy(&x, xl, 16); break;
            case V_PSUBD: for (int q = 0; q < 4; q++) xl[q] = al[q] - bl[q]; memcpy(&x, xl, 16); break;
            case V_PXOR: x.q[0] = a.q[0] ^ b.q[0]; x.q[1] = a.q[1] ^ b.q[1]; break;
            case V_PAND: x.q[0] = a.q[0] & b.q[0]; x.q[1] = a.q[1] & b.q[1]; break;
            case V_POR: x.q[0] = a.q[0] | b.q[0]; x.q[1] = a.q[1] | b.q[1]; break;
            case V_PADDQ: x.q[0] = a.q[0] + b.q[0]; x.q[1] = a.q[1] + b.q[1]; break;
            case V_PMULUDQ: x.q[0] = uint64_t(al[0]) * bl[0]; x.q[1] = uint64_t(al[2]) * bl[2]; break;
            case V_PADDB: { uint8_t ab[16], bb[16], xb[16]; memcpy(ab, &a, 16); memcpy(bb, &b, 16); for (int q = 0; q < 16; q++) xb[q] = uint8_t(ab[q] + bb[q]); memcpy(&x, xb, 16); break; }
            default: for (int q = 0; q < 4; q++) xl[q] = al[q] == bl[q] ? 0xFFFFFFFFu : 0; memcpy(&x, xl, 16); break;
          }
          X[size_t(i.d)] = x; break; }
        case K_VSHUF: { uint32_t al[4], xl[4]; memcpy(al, &X[size_t(i.a)], 16); for (int q = 0; q < 4; q++) xl[q] = al[(i.imm >> (2 * q)) & 3]; memcpy(&X[size_t(i.d)], xl, 16); break; }
        case K_VPINSRW: { uint16_t h[8]; memcpy(h, &X[size_t(i.d)], 16); h[i.imm & 7] = uint16_t(rd(i.a, 4)); memcpy(&X[size_t(i.d)], h, 16); break; }
        case K_VSHIFTI: { V128& x = X[size_t(i.d)]; if (i.op == 0) { uint32_t l[4]; memcpy(l, &x, 16); for (int q = 0; q < 4; q++) l[q] = i.imm > 31 ? 0 : l[q] << i.imm; memcpy(&x, l, 16); }
          else { x.q[0] = i.imm > 63 ? 0 : x.q[0] >> i.imm; x.q[1] = i.imm > 63 ? 0 : x.q[1] >> i.imm; } break; }
        case K_CALL: { if (i.nargs == 3) { __m128i a, c; memcpy(&a, &X[size_t(i.xs[0])], 16); memcpy(&c, &X[size_t(i.xs[2])], 16); wr(i.d, 8, helper_msv(a, rd(i.xs[1], 8), c)); break; }
          uint64_t v[8]; for (int q = 0; q < i.nargs; q++) v[q] = rd(i.xs[q], 8);
          wr(i.d, 8, i.nargs == 2 ? helper(v[0], v[1]) : i.nargs == 6 ? helper_ms(v[0], v[1], v[2], v[3], v[4], v[5]) : helper8(v[0], v[1], v[2], v[3], v[4], v[5], v[6], v[7])); break; }
        case K_RET: return rd(i.a, 8);
      }
      if (fault) return 0;
    }
    fault = true; return 0;
  }
};

// ------------------------------------------------------------------------------------------------ emission through x86::Compiler
static x86::Gp view(const x86::Gp& g, int w) { return w == 1 ? g.r8() : w == 2 ? g.r16() : w == 4 ? g.r32() : g.r64(); }
static const InstId kAlu[5] = {x86::Inst::kIdAdd, x86::Inst::kIdSub, x86::Inst::kIdAnd, x86::Inst::kIdOr, x86::Inst::kIdXor};
static const InstId kSh[5] = {x86::Inst::kIdShl, x86::Inst::kIdShr, x86::Inst::kIdSar, x86::Inst::kIdRol, x86::Inst::kIdRor};
static const InstId kUn[4] = {x86::Inst::kIdNeg, x86::Inst::kIdNot, x86::Inst::kIdInc, x86::Inst::kIdDec};
static const InstId kJcc[16] = {x86::Inst::kIdJo, x86::Inst::kIdJno, x86::Inst::kIdJb, x86::Inst::kIdJae, x86::Inst::kIdJz, x86::Inst::kIdJnz, x86::Inst::kIdJbe, x86::Inst::kIdJa,
  x86::Inst::kIdJs, x86::Inst::kIdJns, x86::Inst::kIdJp, x86::Inst::kIdJnp, x86::Inst::kIdJl, x86::Inst::kIdJge, x86::Inst::kIdJle, x86::Inst::kIdJg};
static const InstId kCmov[16] = {x86::Inst::kIdCmovo, x86::Inst::kIdCmovno, x86::Inst::kIdCmovb, x86::Inst::kIdCmovae, x86::Inst::kIdCmovz, x86::Inst::kIdCmovnz, x86::Inst::kIdCmovbe, x86::Inst::kIdCmova,
  x86::Inst::kIdCmovs, x86::Inst::kIdCmovns, x86::Inst::kIdCmovp, x86::Inst::kIdCmovnp, x86::Inst::kIdCmovl, x86::Inst::kIdCmovge, x86::Inst::kIdCmovle, x86::Inst::kIdCmovg};
static const InstId kSet[16] = {x86::Inst::kIdSeto, x86::Inst::kIdSetno, x86::Inst::kIdSetb, x86::Inst::kIdSetae, x86::Inst::kIdSetz, x86::Inst::kIdSetnz, x86::Inst::kIdSetbe, x86::Inst::kIdSeta,
  x86::Inst::kIdSets, x86::Inst::kIdSetns, x86::Inst::kIdSetp, x86::Inst::kIdSetnp, x86::Inst::kIdSetl, x86::Inst::kIdSetge, x86::Inst::kIdSetle, x86::Inst::kIdSetg};

struct JTab { Label tab; std::vector<Label> targets; };
struct Emitted { FuncNode* func = nullptr; std::vector<x86::Gp> regs; std::vector<x86::Vec> xregs; std::vector<x86::KReg> kregs; Error err = Error::kOk; };

static Emitted emit_prog(x86::Compiler& cc, const Prog& p) {
  Emitted e;
  { FuncSignature sig(CallConvId::kCDecl); sig.set_ret_t<uint64_t>(); sig.add_arg_t<uint64_t*>(); for (size_t q = 0; q < p.argv.size(); q++) sig.add_arg_t<uint64_t>(); e.func = cc.add_func(sig); if (p.fp && e.func) e.func->frame().set_preserved_fp(); }
  for (size_t v = 0; v < p.vsize.size(); v++) {
    int s = p.vsize[v];
    e.kregs.push_back(s == -8 ? cc.new_kq() : x86::KReg());
    if (s == 16 || s == 32 || s == 64) { e.xregs.push_back(s == 16 ? cc.new_xmm() : s == 32 ? cc.new_ymm() : cc.new_zmm()); e.regs.push_back(x86::Gp()); if (s >= 32) e.func->frame().set_avx_enabled(); if (s == 64) e.func->frame().set_avx512_enabled(); continue; }
    if (s == -8) { e.xregs.push_back(x86::Vec()); e.regs.push_back(x86::Gp()); e.func->frame().set_avx_enabled(); continue; }
    e.xregs.push_back(x86::Vec());
    e.regs.push_back(s == 1 ? cc.new_gp8() : s == 2 ? cc.new_gp16() : s == 4 ? cc.new_gp32() : cc.new_gp64());
  }
  e.func->set_arg(0, e.regs[0]);
  for (size_t q = 0; q < p.argv.size(); q++) e.func->set_arg(uint32_t(q + 1), e.regs[size_t(p.argv[q])]);
  std::vector<Label> labels; for (int l = 0; l < p.nlabels; l++) labels.push_back(cc.new_label());
  auto R = [&](int v, int w) { return view(e.regs[size_t(v)], w); };
  x86::Gp ptr = e.regs[0];
  auto X = [&](int v) { return e.xregs[size_t(v)]; };
  static const InstId kVbin[9] = {x86::Inst::kIdPaddd, x86::Inst::kIdPsubd, x86::Inst::kIdPxor, x86::Inst::kIdPand, x86::Inst::kIdPor, x86::Inst::kIdPaddq, x86::Inst::kIdPmuludq, x86::Inst::kIdPaddb, x86::Inst::kIdPcmpeqd};
  Error err = Error::kOk;
  auto E = [&](Error x) { if (x != Error::kOk && err == Error::kOk) err = x; };
  std::vector<JTab> tables;
  for (const Ins& i : p.ins) {
    int w = i.w;
    switch (i.k) {
      case K_MOVRR: E(cc.emit(x86::Inst::kIdMov, R(i.d, w), R(i.a, w))); break;
      case K_MOVRI: E(cc.emit(w == 8 && i.imm != int64_t(int32_t(i.imm)) ? x86::Inst::kIdMovabs : x86::Inst::kIdMov, R(i.d, w), Imm(i.imm))); break;
      case K_ALU: E(cc.emit(kAlu[i.op], R(i.d, w), R(i.a, w))); break;
      case K_ALUI: E(cc.emit(kAlu[i.op], R(i.d, w), Imm(i.imm))); break;
      case K_IMUL: E(cc.emit(x86::Inst::kIdImul, R(i.d, w), R(i.a, w))); break;
      case K_SHIFTCL: E(cc.emit(kSh[i.op], R(i.d, w), R(i.a, 1))); break;
      case K_SHIFTI: E(cc.emit(kSh[i.op], R(i.d, w), Imm(i.imm))); break;
      case K_UNARY: E(cc.emit(kUn[i.op], R(i.d, w))); break;
      case K_MUL: E(cc.emit(x86::Inst::kIdMul, R(i.d, w), R(i.a, w), R(i.b, w))); break;
      case K_DIV: E(cc.emit(x86::Inst::kIdDiv, R(i.d, w), R(i.a, w), R(i.b, w))); break;
      case K_CMP: E(cc.emit(x86::Inst::kIdCmp, R(i.a, w), R(i.b, w))); break;
      case K_CMPI: E(cc.emit(x86::Inst::kIdCmp, R(i.a, w), Imm(i.imm))); break;
      case K_TEST: E(cc.emit(x86::Inst::kIdTest, R(i.a, w), R(i.b, w))); break;
      case K_CMOV: E(cc.emit(kCmov[i.cc], R(i.d, w), R(i.a, w))); break;
      case K_SETCC: E(cc.emit(kSet[i.cc], R(i.d, 1))); break;
      case K_LEA: { x86::Mem m = i.b >= 0 ? x86::ptr(R(i.a, 8), R(i.b, 8), uint32_t(i.scale), int32_t(i.imm)) : x86::ptr(R(i.a, 8), int32_t(i.imm)); E(cc.emit(x86::Inst::kIdLea, R(i.d, w), m)); break; }
      case K_MOVZX: E(cc.emit(x86::Inst::kIdMovzx, R(i.d, i.w2 == 8 ? 4 : i.w2), R(i.a, w))); break;
      case K_MOVSX: E(cc.emit(w == 4 ? x86::Inst::kIdMovsxd : x86::Inst::kIdMovsx, R(i.d, i.w2), R(i.a, w))); break;
      case K_LOAD: { x86::Mem m = x86::ptr(ptr, int32_t(i.imm), uint32_t(w)); E(cc.emit(x86::Inst::kIdMov, R(i.d, w), m)); break; }
      case K_LOADX: { x86::Mem m = x86::ptr(ptr, R(i.a, 8), 0, int32_t(i.imm), uint32_t(w)); E(cc.emit(x86::Inst::kIdMov, R(i.d, w), m)); break; }
      case K_STORE: { x86::Mem m = x86::ptr(ptr, int32_t(i.imm), uint32_t(w)); E(cc.emit(x86::Inst::kIdMov, m, R(i.a, w))); break; }
      case K_JCC: E(cc.emit(kJcc[i.cc], labels[size_t(i.lbl)])); break;
      case K_JMP: E(cc.emit(x86::Inst::kIdJmp, labels[size_t(i.lbl)])); break;
      case K_LABEL: E(cc.bind(labels[size_t(i.lbl)])); break;
      case K_SWITCH: { JTab jt; jt.tab = cc.new_label(); JumpAnnotation* ann = cc.new_jump_annotation();
        for (int q = 0; q < i.nargs; q++) { jt.targets.push_back(labels[size_t(i.xs[q])]); if (ann) ann->add_label(labels[size_t(i.xs[q])]); }
        E(cc.lea(R(i.d, 8), x86::ptr(jt.tab))); E(cc.movsxd(R(i.b, 8), x86::dword_ptr(R(i.d, 8), R(i.a, 8), 2))); E(cc.add(R(i.b, 8), R(i.d, 8)));
        E(cc.jmp(R(i.b, 8), ann)); tables.push_back(jt); break; }
      case K_YLOAD: { bool z = p.vsize[size_t(i.d)] == 64; E(cc.emit(z ? x86::Inst::kIdVmovdqu32 : x86::Inst::kIdVmovdqu, X(i.d), x86::ptr(ptr, int32_t(i.imm), z ? 64 : 32))); break; }
      case K_YSTORE: { bool z = p.vsize[size_t(i.a)] == 64; E(cc.emit(z ? x86::Inst::kIdVmovdqu32 : x86::Inst::kIdVmovdqu, x86::ptr(ptr, int32_t(i.imm), z ? 64 : 32), X(i.a))); break; }
      case K_YMOV: E(cc.emit(p.vsize[size_t(i.d)] == 64 ? x86::Inst::kIdVmovdqa32 : x86::Inst::kIdVmovdqa, X(i.d), X(i.a))); break;
      case K_YBIN: { static const InstId yb[4] = {x86::Inst::kIdVpaddd, x86::Inst::kIdVpxor, x86::Inst::kIdVpsubd, x86::Inst::kIdVpand}; static const InstId zb[4] = {x86::Inst::kIdVpaddd, x86::Inst::kIdVpxord, x86::Inst::kIdVpsubd, x86::Inst::kIdVpandd};
        E(cc.emit(p.vsize[size_t(i.d)] == 64 ? zb[i.op] : yb[i.op], X(i.d), X(i.a), X(i.b))); break; }
      case K_KLOAD: E(cc.emit(x86::Inst::kIdKmovq, e.kregs[size_t(i.d)], x86::ptr(ptr, int32_t(i.imm), 8))); break;
      case K_KSTORE: E(cc.emit(x86::Inst::kIdKmovq, x86::ptr(ptr, int32_t(i.imm), 8), e.kregs[size_t(i.a)])); break;
      case K_KMOV: E(cc.emit(x86::Inst::kIdKmovq, e.kregs[size_t(i.d)], e.kregs[size_t(i.a)])); break;
      case K_KBIN: { static const InstId kb[3] = {x86::Inst::kIdKandq, x86::Inst::kIdKorq, x86::Inst::kIdKxorq}; E(cc.emit(kb[i.op], e.kregs[size_t(i.d)], e.kregs[size_t(i.a)], e.kregs[size_t(i.b)])); break; }
      case K_KFROMGP: E(cc.emit(x86::Inst::kIdKmovq, e.kregs[size_t(i.d)], R(i.a, 8))); break;
      case K_KTOGP: E(cc.emit(x86::Inst::kIdKmovq, R(i.d, 8), e.kregs[size_t(i.a)])); break;
      case K_VLOAD: E(cc.emit(x86::Inst::kIdMovdqu, X(i.d), x86::ptr(ptr, int32_t(i.imm), 16))); break;
      case K_VSTORE: E(cc.emit(x86::Inst::kIdMovdqu, x86::ptr(ptr, int32_t(i.imm), 16), X(i.a))); break;
      case K_VMOV: E(cc.emit(x86::Inst::kIdMovdqa, X(i.d), X(i.a))); break;
      case K_VFROMGP: E(cc.emit(w == 8 ? x86::Inst::kIdMovq : x86::Inst::kIdMovd, X(i.d), R(i.a, w))); break;
      case K_VTOGP: E(cc.emit(w == 8 ? x86::Inst::kIdMovq : x86::Inst::kIdMovd, R(i.d, w), X(i.a))); break;
      case K_VBIN: E(cc.emit(kVbin[i.op], X(i.d), X(i.a))); break;
      case K_VSHUF: E(cc.emit(x86::Inst::kIdPshufd, X(i.d), X(i.a), Imm(i.imm))); break;
      case K_VPINSRW: E(cc.emit(x86::Inst::kIdPinsrw, X(i.d), R(i.a, 4), Imm(i.imm))); break;
      case K_VSHIFTI: E(cc.emit(i.op == 0 ? x86::Inst::kIdPslld : x86::Inst::kIdPsrlq, X(i.d), Imm(i.imm))); break;
      case K_CALL: { InvokeNode* inv = nullptr;
        if (i.nargs == 3) { FuncSignature sig(CallConvId::kX64Windows); sig.set_ret_t<uint64_t>(); sig.add_arg(TypeId::kInt32x4); sig.add_arg_t<uint64_t>(); sig.add_arg(TypeId::kInt32x4);
          E(cc.invoke(Out<InvokeNode*>(inv), Imm(uint64_t(uintptr_t(&helper_msv))), sig));
          if (inv) { inv->set_arg(0, X(i.xs[0])); inv->set_arg(1, R(i.xs[1], 8)); inv->set_arg(2, X(i.xs[2])); inv->set_ret(0, R(i.d, 8)); } break; }
        if (i.nargs == 6) { FuncSignature sig(CallConvId::kX64Windows); sig.set_ret_t<uint64_t>(); for (int q = 0; q < 6; q++) sig.add_arg_t<uint64_t>();
          E(cc.invoke(Out<InvokeNode*>(inv), Imm(uint64_t(uintptr_t(&helper_ms))), sig)); }
        else if (i.nargs == 2) E(cc.invoke(Out<InvokeNode*>(inv), Imm(uint64_t(uintptr_t(&helper))), FuncSignature::build<uint64_t, uint64_t, uint64_t>()));
        else E(cc.invoke(Out<InvokeNode*>(inv), Imm(uint64_t(uintptr_t(&helper8))), FuncSignature::build<uint64_t, uint64_t, uint64_t, uint64_t, uint64_t, uint64_t, uint64_t, uint64_t, uint64_t>()));
        if (inv) { for (int q = 0; q < i.nargs; q++) inv->set_arg(uint32_t(q), R(i.xs[q], 8)); inv->set_ret(0, R(i.d, 8)); } break; }
      case K_RET: E(cc.ret(R(i.a, 8))); break;
    }
  }
  E(cc.end_func());
  for (auto& jt : tables) { E(cc.bind(jt.tab)); for (auto& l : jt.targets) E(cc.embed_label_delta(l, jt.tab, 4)); }   // the tables, behind the function
  e.err = err;
  return e;
}

// ------------------------------------------------------------------------------------------------ RaIR dump
static const uint32_t kFlagBase = 1000000;     // pseudo virtual registers for the status flags (one per CpuRWFlags bit)
static const uint32_t kPtrV = 3000000;         // pseudo virtual registers: address of the temporary of a by-reference call argument (one per argument index)
static const uint32_t kRetV = 2000000;         // pseudo virtual register holding the function result
static const uint32_t kFlagGroup = 15;

struct Arg { std::string name; int w; std::string raw; };   // raw non-empty: raw RW facts of a register operand (classified in Coq)
struct Desc { bool ok = true; std::string why; std::string key; std::vector<Arg> uses, defs; std::string jin = "0 0 - 0"; std::vector<std::vector<std::string>> lists; };   // lists: register-list operand groups

static int msb_width(uint64_t mask) { int w = 0; while (mask) { w++; mask >>= 1; } return w; }
static uint64_t low_mask(uint32_t n) { return n >= 64 ? ~0ull : ((1ull << n) - 1); }
static int contig_width(uint64_t mask) { int w = 0; while (mask & 1) { w++; mask >>= 1; } return w; }

struct Dumper {
  BaseCompiler& cc; FuncNode* func; bool a64; bool x32; int aw;      // aw: address / native register width in bytes
  // frames with a re-aligned stack reach the function's stack arguments through the SA register ("mov sa, zsp" in the prolog):
  // [sa + sa_offset_from_sa + k] is argument-area byte k. The argument assignment may exchange/copy that register first, so
  // the dumper only prints WHICH register an inserted load goes through ("a<reg>:<k>") and the register the prolog set up
  // ("M <address width> <reg>"); the driver follows the register set with the extracted, proven RaIRModel.sa_step and
  // refuses an operand whose base register is not in the set.
  int sa_reg = -1; int64_t sa_base = 0;
  // by-reference call arguments: the last "lea p, [sp+k]" (tmp_reg >= 0: one was seen; k = tmp_off is only a HINT for the
  // "movaps [q], x" behind it - the dumper prints "t<q>:<k>" and the driver accepts "slot k" only if the extracted, proven
  // RaIRModel.sa_step lists q among the registers holding the address of temporary k, started by the line "N <p> <k>"),
  // the number of such lea seen per call, the temporaries of each call
  int tmp_reg = -1; int64_t tmp_off = 0; std::map<BaseNode*, int> tmp_seen; std::map<std::pair<BaseNode*, int>, int64_t> tmp_of;
  bool is_arg_mem(const x86::Mem& m) const { return sa_reg >= 0 && m.has_base_reg() && !m.has_index() && m.base_id() < 32 && m.base_id() != x86::Gp::kIdSp && !(fp_frame() && m.base_id() == x86::Gp::kIdBp) && (m.base_type() == RegType::kGp64 || m.base_type() == RegType::kGp32) && !m.is_reg_home() && !m.has_segment(); }
  // functions that keep a frame pointer address their stack arguments as [zbp + sa_offset_from_sa + k]; the allocator never
  // allocates zbp there; that zbp is constant in the body is CHECKED by the driver with the extracted, proven
  // RaIRModel.reg_untouched on the dumped program (line "F <group> <id>"). With a re-aligned stack that is argument-area
  // byte k ("a-:k"), otherwise the same byte is also [zsp + sa_offset_from_sp + k] and gets that (canonical) slot name.
  bool fp_frame() const { return !a64 && func->frame().has_preserved_fp(); }
  bool is_fp_arg_mem(const x86::Mem& m) const { return fp_frame() && m.has_base_reg() && !m.has_index() && m.base_id() == x86::Gp::kIdBp && (m.base_type() == RegType::kGp64 || m.base_type() == RegType::kGp32) && !m.is_reg_home() && !m.has_segment(); }
  std::string fp_arg_name(const x86::Mem& m) const { const FuncFrame& fr = func->frame(); int64_t k = int64_t(m.offset()) - int64_t(fr.sa_offset_from_sa());
    return fr.has_dynamic_alignment() ? argname(-1, k) : slotname(int64_t(fr.sa_offset_from_sp()) + k); }
  static std::string argname(int reg, int64_t k) { char b[64]; if (reg < 0) snprintf(b, sizeof b, "a-:%lld", (long long)k); else snprintf(b, sizeof b, "a%d:%lld", reg, (long long)k); return b; }

  Dumper(BaseCompiler& c, FuncNode* f) : cc(c), func(f), a64(c.arch() == Arch::kAArch64), x32(c.arch() == Arch::kX86), aw(c.arch() == Arch::kX86 ? 4 : 8) {}

  bool is_virt(uint32_t id) const { return Operand::is_virt_id(id); }
  uint32_t vindex(uint32_t id) const { return Operand::virt_id_to_index(id); }
  uint32_t vsize_of(uint32_t id) const { return cc.virt_reg_by_id(id)->virt_size(); }

  std::string regname(RegGroup g, uint32_t id) const {
    char b[48];
    if (is_virt(id)) snprintf(b, sizeof b, "v%u", vindex(id)); else snprintf(b, sizeof b, "r%u.%u", unsigned(g), id);
    return b;
  }
  static std::string slotname(int64_t off) { char b[48]; snprintf(b, sizeof b, "s%lld", (long long)off); return b; }
  static std::string flagname(bool target, int bit) { char b[48]; if (target) snprintf(b, sizeof b, "r%u.%d", kFlagGroup, bit); else snprintf(b, sizeof b, "v%u", kFlagBase + uint32_t(bit)); return b; }

  // is this memory operand a frame slot ([rsp + disp], no index)?
  static bool is_slot(const x86::Mem& m) { return m.has_base_reg() && !m.has_index() && m.base_id() == x86::Gp::kIdSp && (m.base_type() == RegType::kGp64 || m.base_type() == RegType::kGp32) && !m.is_reg_home() && !m.has_segment(); }
  static bool is_slot_a64(const a64::Mem& m) { return m.has_base_reg() && !m.has_index() && m.base_id() == a64::Gp::kIdSp && m.base_type() == RegType::kGp64 && !m.is_reg_home() && m.is_fixed_offset(); }
  // control flow class of an instruction (a64: the same small table the allocator uses)
  InstControlFlow cf_of(InstId id) const {
    if (!a64) return x86::InstDB::inst_info_by_id(id).control_flow();
    switch (BaseInst::extract_real_id(id)) {
      case a64::Inst::kIdB: case a64::Inst::kIdBr: return BaseInst::extract_arm_cond_code(id) == a64::CondCode::kAL ? InstControlFlow::kJump : InstControlFlow::kBranch;
      case a64::Inst::kIdBl: case a64::Inst::kIdBlr: return InstControlFlow::kCall;
      case a64::Inst::kIdCbz: case a64::Inst::kIdCbnz: case a64::Inst::kIdTbz: case a64::Inst::kIdTbnz: return InstControlFlow::kBranch;
      case a64::Inst::kIdRet: return InstControlFlow::kReturn;
      default: return InstControlFlow::kRegular;
    }
  }

  // Use/def description of one instruction from InstAPI::query_rw_info.
  // vsizes: per operand the size of the virtual register that the SOURCE instruction names there (0 = not a register);
  //         filled when describing the source, consulted when describing the target (partial-write rule).
  Desc describe(InstNode* inst, bool target, std::vector<uint32_t>& vsizes, std::string& idioms) {
    Desc d;
    Span<Operand> ops = inst->operands();
    InstRWInfo rw;
    BaseInst bi(inst->inst_id(), inst->options(), inst->extra_reg());
    if (InstAPI::query_rw_info(cc.arch(), bi, ops.data(), ops.size(), &rw) != Error::kOk) { d.ok = false; d.why = "query_rw_info failed"; return d; }
    if (inst->has_extra_reg()) { d.ok = false; d.why = "extra register not modelled"; return d; }
    char kb[96];
    uint32_t opt = uint32_t(inst->options()) & ~uint32_t(InstOptions::kShortForm | InstOptions::kLongForm);
    snprintf(kb, sizeof kb, "i%u/o%x", unsigned(inst->inst_id()), opt); d.key = kb;
    if (!target) vsizes.assign(ops.size(), 0);
    else if (vsizes.size() != ops.size()) { d.ok = false; d.why = "operand count changed"; return d; }
    InstId id = inst->inst_id();
    // same-register / immediate idioms (value semantics written down by hand; the default is always sound)
    // idiom_wo: the result does not depend on the register operands (xor/sub r,r = 0; or r,-1 = -1)
    // idiom_ro: the written bytes keep their value (and/or r,r; add/or/xor/sub/shift/rotate r,0) - only the flags change
    // inputs of the idiom table RwRuleModel.idiom_of (decided on the SOURCE instruction; the key ties both sides)
    if (!target) {
      idioms = "0 0 - 0";
      if (!a64) {
        // the idiom class is looked up by instruction id in the generated table coq/gen/C05IdiomTags.v (extracted)
        char tagb[24]; snprintf(tagb, sizeof tagb, "%u", unsigned(id)); const char* tag = tagb;
        bool same2 = (ops.size() == 2 && ops[0].is_reg() && ops[1].is_reg() && ops[0] == ops[1]) ||
                     (ops.size() == 3 && ops[0].is_reg() && ops[0] == ops[1] && ops[0] == ops[2]);     // VEX three-operand form, all the same register
        bool imm2 = ops.size() == 2 && ops[0].is_reg() && ops[1].is_imm();
        uint32_t sz0 = ops.size() >= 1 && ops[0].is_reg() ? ops[0].as<Reg>().size() : 0;
        char jb[96]; if (imm2) snprintf(jb, sizeof jb, "%s 0 %lld %u", tag, (long long)ops[1].as<Imm>().value(), sz0); else snprintf(jb, sizeof jb, "%s %d - %u", tag, int(same2), sz0);
        if (same2 || imm2) idioms = jb;
      }
    }
    d.jin = idioms;
    for (size_t i = 0; i < ops.size(); i++) {
      const Operand& op = ops[i]; const OpRWInfo& oi = rw.operand(i);
      bool src_was_reg = target && i < vsizes.size() && vsizes[i] != 0;
      uint32_t src_osize = i < vsizes.size() ? (vsizes[i] >> 16) : 0;
      if (op.is_reg() || (op.is_mem() && src_was_reg && !a64)) {
        std::string name; uint32_t osize;
        if (op.is_reg()) {
          const Reg& r = op.as<Reg>();
          if (r.reg_type() == RegType::kGp8Hi) { d.ok = false; d.why = "gp8-hi"; return d; }
          if (target == is_virt(r.id())) { d.ok = false; d.why = target ? "virtual register left in output" : "physical register in input"; return d; }
          name = regname(r.reg_group(), r.id()); osize = r.size();
          if (!target) vsizes[i] = vsize_of(r.id()) | (r.size() << 16);
          if (oi.has_op_flag(OpRWFlags::kRegPhysId) && target && oi.phys_id() != r.id()) { d.ok = false; d.why = "fixed register operand not in its register"; return d; }
        } else {
          const x86::Mem& m = op.as<x86::Mem>();
          if (is_fp_arg_mem(m)) name = fp_arg_name(m);
          else if (!is_slot(m)) { d.ok = false; d.why = "register operand replaced by a non-frame memory operand"; return d; }
          else name = slotname(m.offset());
          osize = m.size();
          // the memory form accesses rm_size bytes of the home slot
          if (oi.rm_size() && osize != oi.rm_size()) { d.ok = false; d.why = "substituted memory operand has not the architectural size"; return d; }
        }
        // in the opcode key a substituted operand counts with the size of the register it replaces
        if (a64) snprintf(kb, sizeof kb, "|R%x", op.signature().bits() & ~uint32_t(0)); else snprintf(kb, sizeof kb, "|R%u", op.is_mem() ? src_osize : osize);
        d.key += kb;
        uint32_t vs = vsizes[i] & 0xFFFFu;
        // the raw facts; uses/defs are derived by the extracted RwRuleModel.classify
        snprintf(kb, sizeof kb, "%d %d %llu %llu %llu %u %d %u %d %u %d", int(oi.is_read()), int(oi.is_write()), (unsigned long long)oi.read_byte_mask(),
                 (unsigned long long)oi.write_byte_mask(), (unsigned long long)oi.extend_byte_mask(), oi.rm_size(), int(oi.is_rm()), osize, int(op.is_mem()), vs, int(i == 0));
        d.uses.push_back({name, -1, kb});
      } else if (op.is_mem() && a64) {
        const a64::Mem& m = op.as<a64::Mem>();
        if (m.is_reg_home()) { d.ok = false; d.why = "stack-home memory operand not modelled"; return d; }
        if (!m.is_fixed_offset() || oi.is_mem_base_write()) { d.ok = false; d.why = "base write-back not modelled"; return d; }
        snprintf(kb, sizeof kb, "|M%d.%d.%u.%u.%lld", int(m.has_base_reg()), int(m.has_index_reg()), unsigned(m.shift_op()), m.shift(), (long long)m.offset()); d.key += kb;
        if (m.has_base_label()) { snprintf(kb, sizeof kb, "L%u", m.base_id()); d.key += kb; }
        if (m.has_base_reg()) {
          if (m.base_id() == a64::Gp::kIdSp) { d.ok = false; d.why = "explicit stack-pointer operand"; return d; }
          if (target == is_virt(m.base_id())) { d.ok = false; d.why = "memory base register kind"; return d; }
          d.uses.push_back({regname(RegGroup::kGp, m.base_id()), 8});
        }
        if (m.has_index_reg()) {
          if (target == is_virt(m.index_id())) { d.ok = false; d.why = "memory index register kind"; return d; }
          snprintf(kb, sizeof kb, "x%u", unsigned(m.index_type())); d.key += kb;
          d.uses.push_back({regname(RegGroup::kGp, m.index_id()), m.index_type() == RegType::kGp32 ? 4 : 8});
        }
      } else if (op.is_mem()) {
        const x86::Mem& m = op.as<x86::Mem>();
        if (m.is_reg_home()) { d.ok = false; d.why = "stack-home memory operand not modelled"; return d; }
        snprintf(kb, sizeof kb, "|M%u.%d.%d.%u.%lld.%u", m.size(), int(m.has_base_reg()), int(m.has_index_reg()), m.shift(), (long long)m.offset(), unsigned(m.segment_id())); d.key += kb;
        if (m.has_base_label()) { snprintf(kb, sizeof kb, "L%u", m.base_id()); d.key += kb; }
        if (m.has_base_reg()) {
          if (target == is_virt(m.base_id())) { d.ok = false; d.why = "memory base register kind"; return d; }
          if (oi.is_mem_base_write()) { d.ok = false; d.why = "base write-back not modelled"; return d; }
          d.uses.push_back({regname(RegGroup::kGp, m.base_id()), aw});
        }
        if (m.has_index_reg()) {
          if (m.index_type() != RegType::kGp64 && m.index_type() != RegType::kGp32) { d.ok = false; d.why = "vector index not modelled"; return d; }
          if (target == is_virt(m.index_id())) { d.ok = false; d.why = "memory index register kind"; return d; }
          d.uses.push_back({regname(RegGroup::kGp, m.index_id()), aw});
        }
      } else if (op.is_imm()) {
        snprintf(kb, sizeof kb, "|I%lld", (long long)op.as<Imm>().value()); d.key += kb;
      } else if (op.is_label()) {
        snprintf(kb, sizeof kb, "|L%u", op.as<Label>().id()); d.key += kb;
      } else { d.ok = false; d.why = "operand kind"; return d; }
    }
    // register lists: RW info marks the lead operand with the number of consecutive registers the encoding implies
    for (size_t i = 0; i < ops.size(); i++) {
      uint32_t n = rw.operand(i).consecutive_lead_count();
      if (n > 1 && i + n <= ops.size()) {
        std::vector<std::string> g; bool regs = true;
        for (size_t q = i; q < i + n; q++) { if (!ops[q].is_reg()) { regs = false; break; } const Reg& r = ops[q].as<Reg>(); g.push_back(regname(r.reg_group(), r.id())); }
        if (!regs) { d.ok = false; d.why = "register list with a non-register member"; return d; }
        d.lists.push_back(g);
      }
    }
    uint32_t rf = uint32_t(rw.read_flags()), wf = uint32_t(rw.write_flags());
    for (int b = 0; b < 16; b++) if (rf & (1u << b)) d.uses.push_back({flagname(target, b), 1});
    for (int b = 0; b < 16; b++) if (wf & (1u << b)) d.defs.push_back({flagname(target, b), 1});
    return d;
  }

  // " J <idiom inputs> <a64> <n> items": R name <raw>, U name w, D name w
  std::string items(const Desc& d) const {
    std::string s = " J " + d.jin + (a64 ? " 1" : " 0"); char b[64]; snprintf(b, sizeof b, " %zu", d.uses.size() + d.defs.size()); s += b;
    for (auto& x : d.uses) { if (!x.raw.empty()) s += " R " + x.name + " " + x.raw; else { snprintf(b, sizeof b, " U %s %d", x.name.c_str(), x.w); s += b; } }
    for (auto& x : d.defs) { snprintf(b, sizeof b, " D %s %d", x.name.c_str(), x.w); s += b; }
    for (auto& g : d.lists) { snprintf(b, sizeof b, " K %zu", g.size()); s += b; for (auto& n : g) s += " " + n; }
    return s;
  }
};

// a pure register copy d := s of w bytes (in the source: both operands virtual registers) that the allocator may drop
static bool source_copy_a64(Dumper& D, InstNode* inst, uint32_t& dv, uint32_t& sv, int& w) {
  if (inst->op_count() != 2 || !inst->op(0).is_reg() || !inst->op(1).is_reg()) return false;
  const Reg& ra = inst->op(0).as<Reg>(); const Reg& rb = inst->op(1).as<Reg>();
  if (!D.is_virt(ra.id()) || !D.is_virt(rb.id()) || ra.signature() != rb.signature()) return false;
  InstId id = inst->inst_id();
  if (id == a64::Inst::kIdMov && (ra.reg_type() == RegType::kGp32 || ra.reg_type() == RegType::kGp64)) { dv = D.vindex(ra.id()); sv = D.vindex(rb.id()); w = int(ra.size()); return true; }
  if (id == a64::Inst::kIdMov_v && ra.reg_type() == RegType::kVec128 && D.vsize_of(ra.id()) <= 16) { dv = D.vindex(ra.id()); sv = D.vindex(rb.id()); w = 16; return true; }
  return false;
}

// a64: mov x/w, ldr/ldrb/ldrh/str/strb/strh with [sp, #imm], mov v.16b/v.8b, fmov s, ldr/str s/d/q - every register write zero-extends
static bool target_move_a64(Dumper& D, InstNode* inst, std::string& out) {
  char b[160]; if (inst->op_count() != 2) return false;
  InstId id = inst->inst_id(); const Operand& o0 = inst->op(0); const Operand& o1 = inst->op(1);
  auto regloc = [&](const Operand& o, std::string& name, uint32_t& size, bool& vec) -> bool {
    if (!o.is_reg()) return false; const Reg& r = o.as<Reg>(); if (D.is_virt(r.id())) return false;
    vec = r.reg_group() == RegGroup::kVec; if (!vec && r.reg_group() != RegGroup::kGp) return false;
    if (!vec && r.id() >= 31) return false;
    name = D.regname(r.reg_group(), r.id()); size = r.size(); return true; };
  std::string d, s; uint32_t ds = 0, ss = 0; bool dv = false, sv = false;
  if (o1.is_reg()) {                                   // register to register
    if (!regloc(o0, d, ds, dv) || !regloc(o1, s, ss, sv) || dv != sv || ds != ss) return false;
    if (!dv && id == a64::Inst::kIdMov) { snprintf(b, sizeof b, "mov %s %s %u 0 8", d.c_str(), s.c_str(), ds); out = b; return true; }
    if (dv && (id == a64::Inst::kIdMov_v || id == a64::Inst::kIdFmov_v)) {
      const a64::Vec& v0 = o0.as<a64::Vec>(); const a64::Vec& v1 = o1.as<a64::Vec>();
      if (v0.has_element_index() || v1.has_element_index()) return false;
      snprintf(b, sizeof b, "mov %s %s %u 0 64", d.c_str(), s.c_str(), ds); out = b; return true; }
    return false;
  }
  if (!o1.is_mem() || !Dumper::is_slot_a64(o1.as<a64::Mem>())) return false;
  std::string slot = Dumper::slotname(o1.as<a64::Mem>().offset());
  if (!regloc(o0, d, ds, dv)) return false;
  uint32_t w = 0; bool load = false;
  if (!dv) { if (id == a64::Inst::kIdLdr) { w = ds; load = true; } else if (id == a64::Inst::kIdLdrb) { w = 1; load = true; } else if (id == a64::Inst::kIdLdrh) { w = 2; load = true; }
             else if (id == a64::Inst::kIdStr) w = ds; else if (id == a64::Inst::kIdStrb) w = 1; else if (id == a64::Inst::kIdStrh) w = 2; else return false; }
  else { if (id == a64::Inst::kIdLdr_v) { w = ds; load = true; } else if (id == a64::Inst::kIdStr_v) w = ds; else return false; }
  if (load) snprintf(b, sizeof b, "mov %s %s %u 0 %u", d.c_str(), slot.c_str(), w, dv ? 64u : 8u); else snprintf(b, sizeof b, "mov %s %s %u 0 %u", slot.c_str(), d.c_str(), w, w);
  out = b; return true;
}

static bool source_copy(Dumper& D, InstNode* inst, uint32_t& dv, uint32_t& sv, int& w) {
  if (D.a64) return source_copy_a64(D, inst, dv, sv, w);
  if (inst->op_count() != 2 || inst->has_extra_reg()) return false;
  const Operand& a = inst->op(0); const Operand& b = inst->op(1);
  if (!a.is_reg() || !b.is_reg()) return false;
  const Reg& ra = a.as<Reg>(); const Reg& rb = b.as<Reg>();
  InstId cid = inst->inst_id();
  if (cid == x86::Inst::kIdMovdqa || cid == x86::Inst::kIdMovdqu || cid == x86::Inst::kIdMovaps || cid == x86::Inst::kIdMovups || cid == x86::Inst::kIdMovapd || cid == x86::Inst::kIdMovupd) {
    if (ra.reg_type() != RegType::kVec128 || rb.reg_type() != RegType::kVec128 || !D.is_virt(ra.id()) || !D.is_virt(rb.id()) || D.vsize_of(ra.id()) > 16) return false;
    dv = D.vindex(ra.id()); sv = D.vindex(rb.id()); w = 16; return true;
  }
  if (cid == x86::Inst::kIdVmovdqa || cid == x86::Inst::kIdVmovdqu || cid == x86::Inst::kIdVmovaps || cid == x86::Inst::kIdVmovups || cid == x86::Inst::kIdVmovdqa32 || cid == x86::Inst::kIdVmovdqu32 || cid == x86::Inst::kIdVmovdqa64 || cid == x86::Inst::kIdVmovdqu64) {
    // VEX/EVEX full-register copy (zeroes the bits above the operand)
    if ((ra.reg_type() != RegType::kVec128 && ra.reg_type() != RegType::kVec256 && ra.reg_type() != RegType::kVec512) || ra.reg_type() != rb.reg_type() || !D.is_virt(ra.id()) || !D.is_virt(rb.id()) || D.vsize_of(ra.id()) > ra.size()) return false;
    dv = D.vindex(ra.id()); sv = D.vindex(rb.id()); w = int(ra.size()); return true;
  }
  if (cid == x86::Inst::kIdKmovq) {
    if (ra.reg_group() != RegGroup::kMask || rb.reg_group() != RegGroup::kMask || !D.is_virt(ra.id()) || !D.is_virt(rb.id())) return false;
    dv = D.vindex(ra.id()); sv = D.vindex(rb.id()); w = 8; return true;
  }
  if (cid != x86::Inst::kIdMov) return false;
  if (ra.reg_group() != RegGroup::kGp || rb.reg_group() != RegGroup::kGp || ra.reg_type() != rb.reg_type() || ra.reg_type() == RegType::kGp8Hi) return false;
  if (!D.is_virt(ra.id()) || !D.is_virt(rb.id())) return false;
  uint32_t sz = ra.size();
  // mov r32 zero-extends (d := low 4 bytes, rest 0 = tr 4 s); mov r64 copies everything; mov r8/r16 is a copy of the
  // whole virtual register only if that register is no wider than the operand
  if (sz < 4 && D.vsize_of(ra.id()) > sz) {
    // merging move: only `mov x, x` (architecturally a no-op) is a copy - of the whole virtual register onto itself
    if (ra.id() != rb.id()) return false;
    dv = sv = D.vindex(ra.id()); w = int(D.vsize_of(ra.id())); return true;
  }
  dv = D.vindex(ra.id()); sv = D.vindex(rb.id()); w = int(sz); return true;
}

// inserted (or rewritten copy) instruction -> TMove / TSwap; returns false if it is not a whitelisted move
static bool target_move(Dumper& D, InstNode* inst, std::string& out) {
  if (D.a64) return target_move_a64(D, inst, out);
  InstId id = inst->inst_id(); char b[160];
  if (inst->has_extra_reg() || inst->op_count() != 2) return false;
  const Operand& o0 = inst->op(0); const Operand& o1 = inst->op(1);
  auto locof = [&](const Operand& o, std::string& name, uint32_t& size) -> bool {
    if (o.is_reg()) { const Reg& r = o.as<Reg>(); if (D.is_virt(r.id()) || r.reg_type() == RegType::kGp8Hi) return false; if (r.reg_group() != RegGroup::kGp && r.reg_type() != RegType::kVec128 && r.reg_type() != RegType::kVec256 && r.reg_type() != RegType::kVec512 && r.reg_group() != RegGroup::kMask) return false; name = D.regname(r.reg_group(), r.id()); size = r.size(); return true; }
    if (o.is_mem()) { const x86::Mem& m = o.as<x86::Mem>(); if (D.is_fp_arg_mem(m)) { name = D.fp_arg_name(m); size = m.size(); return true; } if (D.is_arg_mem(m)) { name = Dumper::argname(int(m.base_id()), m.offset() - D.sa_base); size = m.size(); return true; } if (!Dumper::is_slot(m)) return false; name = Dumper::slotname(m.offset()); size = m.size(); return true; }
    return false; };
  std::string d, s; uint32_t ds = 0, ss = 0;
  if (!locof(o0, d, ds) || !locof(o1, s, ss)) return false;
  if (o0.is_mem() && o1.is_mem()) return false;
  bool gp0 = !o0.is_reg() || o0.as<Reg>().reg_group() == RegGroup::kGp, gp1 = !o1.is_reg() || o1.as<Reg>().reg_group() == RegGroup::kGp;
  if (id == x86::Inst::kIdMovdqa || id == x86::Inst::kIdMovdqu || id == x86::Inst::kIdMovaps || id == x86::Inst::kIdMovups || id == x86::Inst::kIdMovapd || id == x86::Inst::kIdMovupd) {
    // legacy SSE full-register move / load / store: 16 bytes, bits above 128 of the destination register survive
    if ((o0.is_reg() && (gp0 || o0.as<Reg>().reg_type() != RegType::kVec128)) || (o1.is_reg() && (gp1 || o1.as<Reg>().reg_type() != RegType::kVec128))) return false;
    if ((o0.is_mem() && ds && ds != 16) || (o1.is_mem() && ss && ss != 16)) return false;
    snprintf(b, sizeof b, "mov %s %s 16 %d 16", d.c_str(), s.c_str(), int(o0.is_reg())); out = b; return true;
  }
  if (id == x86::Inst::kIdVmovdqa || id == x86::Inst::kIdVmovdqu || id == x86::Inst::kIdVmovaps || id == x86::Inst::kIdVmovups || id == x86::Inst::kIdVmovapd || id == x86::Inst::kIdVmovupd ||
      id == x86::Inst::kIdVmovdqa32 || id == x86::Inst::kIdVmovdqu32 || id == x86::Inst::kIdVmovdqa64 || id == x86::Inst::kIdVmovdqu64) {
    // VEX/EVEX full-register move / load / store of 16 or 32 bytes: the destination register is zeroed above the operand
    auto isvec = [](const Operand& o) { return o.is_reg() && o.as<Reg>().reg_group() == RegGroup::kVec; };
    if ((o0.is_reg() && !isvec(o0)) || (o1.is_reg() && !isvec(o1))) return false;
    uint32_t w = o0.is_reg() ? ds : ss; if (w != 16 && w != 32 && w != 64) return false;
    if ((o0.is_mem() && ds && ds != w) || (o1.is_mem() && ss && ss != w) || (o0.is_reg() && o1.is_reg() && ds != ss)) return false;
    snprintf(b, sizeof b, "mov %s %s %u 0 %u", d.c_str(), s.c_str(), w, o0.is_reg() ? 64u : w); out = b; return true;
  }
  if (id == x86::Inst::kIdKmovq) {
    auto isk = [](const Operand& o) { return o.is_reg() && o.as<Reg>().reg_group() == RegGroup::kMask; };
    if ((o0.is_reg() && !isk(o0)) || (o1.is_reg() && !isk(o1))) return false;
    if ((o0.is_mem() && ds && ds != 8) || (o1.is_mem() && ss && ss != 8)) return false;
    snprintf(b, sizeof b, "mov %s %s 8 0 8", d.c_str(), s.c_str()); out = b; return true;
  }
  if (!gp0 || !gp1) return false;
  if (id == x86::Inst::kIdMov) {
    uint32_t w = o0.is_reg() ? ds : ss; if (o0.is_mem() && ds && ds != w) return false; if (o1.is_mem() && ss && ss != w) return false;
    bool keep = o0.is_reg() && w < 4; uint32_t e = o0.is_reg() ? (w >= 4 ? 8 : w) : w;
    snprintf(b, sizeof b, "mov %s %s %u %d %u", d.c_str(), s.c_str(), w, int(keep), e); out = b; return true;
  }
  if (id == x86::Inst::kIdMovzx && o0.is_reg() && (ds == 4 || ds == 8) && (ss == 1 || ss == 2)) {
    snprintf(b, sizeof b, "mov %s %s %u 0 8", d.c_str(), s.c_str(), ss); out = b; return true;
  }
  if (id == x86::Inst::kIdXchg && o0.is_reg() && o1.is_reg() && ds == ss && ds >= 4) {
    snprintf(b, sizeof b, "swap %s %s %u", d.c_str(), s.c_str(), ds); out = b; return true;
  }
  return false;
}

struct PreNode { BaseNode* node; NodeType type; int sidx; InstId inst_id; bool is_copy; std::vector<uint32_t> vsizes; std::string key; std::string idioms; std::vector<int> argw; int retw = 0; std::vector<int> ind_arg, ind_sidx; /* by-reference arguments: index, S line of its ARGTMP */ };

struct DumpResult { bool ok = true; std::string why; std::vector<std::string> S, T; };

static void dump_source(Dumper& D, std::vector<PreNode>& pre, std::map<BaseNode*, size_t>& idx, DumpResult& out) {
  FuncNode* func = D.func; char b[256];
  for (BaseNode* n = D.cc.first_node(), *stop = D.func->end_node()->next(); n && n != stop; n = n->next()) {
    PreNode pn; pn.node = n; pn.type = n->type(); pn.sidx = int(out.S.size()); pn.inst_id = 0; pn.is_copy = false;
    switch (n->type()) {
      case NodeType::kFunc: {
        std::string s = "op ENTRY 0"; std::vector<Arg> defs;
        for (uint32_t i = 0; i < func->arg_count(); i++) { const RegOnly& ro = func->arg_pack(i)[0]; if (ro.is_reg()) defs.push_back({D.regname(RegGroup::kGp, ro.id()), int(D.vsize_of(ro.id()))}); }
        snprintf(b, sizeof b, " %zu", defs.size()); s += b; for (auto& a : defs) { snprintf(b, sizeof b, " %s %d", a.name.c_str(), a.w); s += b; }
        out.S.push_back(s); break; }
      case NodeType::kLabel: snprintf(b, sizeof b, "label %u", n->as<LabelNode>()->label_id()); out.S.push_back(b); break;
      case NodeType::kSentinel: snprintf(b, sizeof b, "ret 1 v%u %d", kRetV, D.aw); out.S.push_back(b); break;
      case NodeType::kFuncRet: {
        FuncRetNode* r = n->as<FuncRetNode>();
        if (r->op_count() >= 1 && r->op(0).is_reg()) { const Reg& rr = r->op(0).as<Reg>(); snprintf(b, sizeof b, "mov v%u v%u %u", kRetV, D.vindex(rr.id()), rr.size()); out.S.push_back(b); }
        snprintf(b, sizeof b, "jmp %u", func->exit_label().id()); out.S.push_back(b); break; }
      case NodeType::kInvoke: {
        InvokeNode* inv = n->as<InvokeNode>(); pn.inst_id = inv->inst_id();
        Desc d = D.describe(inv, false, pn.vsizes, pn.idioms);
        if (!d.ok) { out.ok = false; out.why = "source call: " + d.why; return; }
        const FuncDetail& fd = inv->detail();
        for (uint32_t ai = 0; ai < inv->arg_count(); ai++) {
          const Operand& op = inv->arg(ai, 0);
          if (!op.is_reg() || !fd.arg(ai)) { out.ok = false; out.why = "call argument kind not modelled"; return; }
          const Reg& r = op.as<Reg>(); if (r.reg_group() != RegGroup::kGp && r.reg_group() != RegGroup::kVec) { out.ok = false; out.why = "call argument register group not modelled"; return; }
          int w = int(std::min<uint32_t>(r.size(), D.vsize_of(r.id()))); pn.argw.push_back(w);
          if (fd.arg(ai).is_indirect()) {
            // passed by reference: the allocator copies the vector to a temporary of the call frame ("lea p, [sp+k]; movaps [p], x")
            // and passes p. Source side: "p := address of temporary ai" is an instruction of its own, the call reads p and x.
            if (D.a64 || D.x32 || r.reg_group() != RegGroup::kVec || w != 16 || !fd.arg(ai).is_reg()) { out.ok = false; out.why = "by-reference call argument of this kind not modelled"; return; }
            pn.ind_arg.push_back(int(ai)); pn.ind_sidx.push_back(int(out.S.size()));
            snprintf(b, sizeof b, "op ARGTMP|%u 0 1 v%u %d", ai, kPtrV + ai, D.aw); out.S.push_back(b);
            snprintf(b, sizeof b, "v%u", kPtrV + ai); d.uses.push_back({b, D.aw}); }
          d.uses.push_back({D.regname(r.reg_group(), r.id()), w});
        }
        std::vector<Arg> defs;
        if (fd.has_ret() && inv->ret(0).is_reg()) { const Reg& r = inv->ret(0).as<Reg>(); if (r.reg_group() != RegGroup::kGp && r.reg_group() != RegGroup::kVec) { out.ok = false; out.why = "call result register group not modelled"; return; }
          pn.retw = int(std::min<uint32_t>(r.size(), D.vsize_of(r.id()))); defs.push_back({D.regname(r.reg_group(), r.id()), pn.retw}); }
        for (auto& a : defs) d.defs.push_back(a);
        pn.sidx = int(out.S.size());
        out.S.push_back("op call/" + d.key + D.items(d)); break; }
      case NodeType::kInst: case NodeType::kJump: {
        InstNode* inst = n->as<InstNode>(); pn.inst_id = inst->inst_id();
        InstControlFlow cf = D.cf_of(inst->inst_id());
        if (cf == InstControlFlow::kJump) {
          if (inst->op_count() == 1 && !inst->op(0).is_label() && n->type() == NodeType::kJump && n->as<JumpNode>()->annotation()) {
            // annotated indirect jump: the possible targets are the labels of the annotation
            Desc d = D.describe(inst, false, pn.vsizes, pn.idioms);
            if (!d.ok) { out.ok = false; out.why = "source: " + d.why; return; }
            pn.key = d.key; Span<uint32_t> ids = n->as<JumpNode>()->annotation()->label_ids();
            std::string s = "jmptab " + d.key; snprintf(b, sizeof b, " %zu", ids.size()); s += b; for (uint32_t id : ids) { snprintf(b, sizeof b, " %u", id); s += b; }
            out.S.push_back(s + D.items(d)); break;
          }
          if (inst->op_count() != 1 || !inst->op(0).is_label()) { out.ok = false; out.why = "indirect jump not modelled"; return; }
          snprintf(b, sizeof b, "jmp %u", inst->op(0).as<Label>().id()); out.S.push_back(b); break;
        }
        uint32_t dv, sv; int w;
        if (cf == InstControlFlow::kRegular && source_copy(D, inst, dv, sv, w)) {
          pn.is_copy = true; snprintf(b, sizeof b, "mov v%u v%u %d", dv, sv, w); out.S.push_back(b); break;
        }
        Desc d = D.describe(inst, false, pn.vsizes, pn.idioms);
        if (!d.ok) { out.ok = false; out.why = "source: " + d.why; return; }
        pn.key = d.key;
        if (cf == InstControlFlow::kBranch) {
          if (!inst->op(inst->op_count() - 1).is_label()) { out.ok = false; out.why = "branch without label"; return; }
          // the label is not part of the opcode (the allocator may redirect the branch through a trampoline)
          std::string key = d.key.substr(0, d.key.rfind("|L"));
          std::string s = "cond " + key; snprintf(b, sizeof b, " %u", inst->op(inst->op_count() - 1).as<Label>().id()); s += b;
          out.S.push_back(s + D.items(d)); break;
        }
        if (cf != InstControlFlow::kRegular) { out.ok = false; out.why = "call/return instruction not modelled"; return; }
        out.S.push_back("op " + d.key + D.items(d)); break; }
      case NodeType::kSection: case NodeType::kComment: case NodeType::kAlign: break;
      default: out.ok = false; out.why = "node type not modelled"; return;
    }
    idx[n] = pre.size(); pre.push_back(pn);
  }
}

static bool same_inst(InstNode* a, InstNode* b) {
  if (a->inst_id() != b->inst_id() || a->op_count() != b->op_count()) return false;
  for (uint32_t i = 0; i < a->op_count(); i++) if (!(a->op(i) == b->op(i))) return false;
  return true;
}

static void dump_target(Dumper& D, std::vector<PreNode>& pre, std::map<BaseNode*, size_t>& idx, DumpResult& out) {
  FuncNode* func = D.func; char b[256];
  // prolog / epilog of the final frame, re-emitted into a scratch builder
  CodeHolder scratch; scratch.init(D.cc.code()->environment(), D.cc.code()->cpu_features());
  x86::Builder pbx; a64::Builder pba; BaseBuilder& pb = D.a64 ? static_cast<BaseBuilder&>(pba) : static_cast<BaseBuilder&>(pbx);
  scratch.attach(&pb); pb.emit_prolog(func->frame());
  std::vector<InstNode*> prolog; for (BaseNode* n = pb.first_node(); n; n = n->next()) if (n->is_inst()) prolog.push_back(n->as<InstNode>());
  CodeHolder scratch2; scratch2.init(D.cc.code()->environment(), D.cc.code()->cpu_features());
  x86::Builder ebx; a64::Builder eba; BaseBuilder& eb = D.a64 ? static_cast<BaseBuilder&>(eba) : static_cast<BaseBuilder&>(ebx);
  scratch2.attach(&eb); eb.emit_epilog(func->frame());
  std::vector<InstNode*> epilog; for (BaseNode* n = eb.first_node(); n; n = n->next()) if (n->is_inst()) epilog.push_back(n->as<InstNode>());
  if (D.a64 && func->frame().has_preserved_fp()) { out.ok = false; out.why = "frame pointer not modelled"; return; }

  size_t prolog_left = 0, epilog_pos = 0; bool in_epilog = false;
  auto T = [&](int hint, const std::string& s) { if (hint >= 0) snprintf(b, sizeof b, "%d ", hint); else snprintf(b, sizeof b, "- "); out.T.push_back(std::string(b) + s); };
  for (BaseNode* n = D.cc.first_node(), *stop = D.func->end_node()->next(); n && n != stop; n = n->next()) {
    auto it = idx.find(n);
    PreNode* pn = it == idx.end() ? nullptr : &pre[it->second];
    switch (n->type()) {
      case NodeType::kFunc: {
        std::string s = "op ENTRY 0"; std::vector<Arg> defs;
        for (uint32_t i = 0; i < func->arg_count(); i++) {
          const RegOnly& ro = func->arg_pack(i)[0]; if (!ro.is_reg()) continue;
          const FuncValue& fv = func->detail().arg(i);
          if (fv.is_indirect()) { out.ok = false; out.why = "indirect argument not modelled"; return; }
          if (fv.is_reg()) defs.push_back({D.regname(RegUtils::group_of(fv.reg_type()), fv.reg_id()), int(D.vsize_of(ro.id()))});
          else if (fv.is_stack() && func->frame().has_dynamic_alignment()) {
            const FuncFrame& fr = func->frame();
            if (fr.has_preserved_fp()) { defs.push_back({Dumper::argname(-1, fv.stack_offset()), int(D.vsize_of(ro.id()))}); continue; }
            if (fr.sa_reg_id() == Reg::kIdBad || fr.sa_reg_id() == x86::Gp::kIdSp) { out.ok = false; out.why = "stack argument in a re-aligned frame without SA register"; return; }
            D.sa_reg = int(fr.sa_reg_id()); D.sa_base = int64_t(fr.sa_offset_from_sa());
            defs.push_back({Dumper::argname(-1, fv.stack_offset()), int(D.vsize_of(ro.id()))}); }
          else if (fv.is_stack()) defs.push_back({Dumper::slotname(int64_t(func->frame().sa_offset_from_sp()) + fv.stack_offset()), int(D.vsize_of(ro.id()))});   // the caller's argument area, seen from the body's sp
          else { out.ok = false; out.why = "argument location"; return; }
        }
        snprintf(b, sizeof b, " %zu", defs.size()); s += b; for (auto& a : defs) { snprintf(b, sizeof b, " %s %d", a.name.c_str(), a.w); s += b; }
        T(0, s); prolog_left = prolog.size(); break; }
      case NodeType::kLabel: {
        snprintf(b, sizeof b, "label %u", n->as<LabelNode>()->label_id()); T(pn ? pn->sidx : -1, b);
        if (n == func->exit_node()) in_epilog = true;
        break; }
      case NodeType::kSentinel: {
        if (epilog_pos != epilog.size() || in_epilog) { out.ok = false; out.why = "epilog shorter than expected"; return; }
        break; }
      case NodeType::kInvoke: {
        InvokeNode* inv = n->as<InvokeNode>();
        if (!pn) { out.ok = false; out.why = "inserted call"; return; }
        Desc d = D.describe(inv, true, pn->vsizes, pn->idioms);
        if (!d.ok) { std::string t = d.why; std::replace(t.begin(), t.end(), ' ', '_'); T(pn->sidx, "bad call:" + t); break; }
        const FuncDetail& fd = inv->detail();
        if (fd.has_flag(CallConvFlags::kCalleePopsStack) || fd.has_var_args() || pn->argw.size() != inv->arg_count()) { out.ok = false; out.why = "call convention not modelled"; return; }
        std::vector<Arg> clob;
        for (uint32_t ai = 0; ai < inv->arg_count(); ai++) {
          const FuncValue& fv = fd.arg(ai);
          if (fv.is_indirect()) {
            auto it = D.tmp_of.find({n, int(ai)});
            if (!fv.is_reg() || it == D.tmp_of.end()) { out.ok = false; out.why = "by-reference call argument without its temporary"; return; }
            d.uses.push_back({D.regname(RegGroup::kGp, fv.reg_id()), D.aw}); d.uses.push_back({Dumper::slotname(it->second), pn->argw[ai]});
            clob.push_back({Dumper::slotname(it->second), pn->argw[ai]}); }     // the callee owns the copy
          else if (fv.is_reg()) d.uses.push_back({D.regname(RegUtils::group_of(fv.reg_type()), fv.reg_id()), pn->argw[ai]});
          else if (fv.is_stack()) { d.uses.push_back({Dumper::slotname(fv.stack_offset()), pn->argw[ai]}); clob.push_back({Dumper::slotname(fv.stack_offset()), D.aw}); }
          else { out.ok = false; out.why = "call argument location"; return; }
        }
        std::vector<Arg> defs; uint32_t retid = 0xFFFFFFFFu;
        uint32_t retvec = 0xFFFFFFFFu;
        if (pn->retw) { const FuncValue& rv = fd.ret(0); if (!rv.is_reg()) { out.ok = false; out.why = "call result location"; return; }
          RegGroup rg = RegUtils::group_of(rv.reg_type()); if (rg == RegGroup::kGp) retid = rv.reg_id(); else if (rg == RegGroup::kVec) retvec = rv.reg_id(); else { out.ok = false; out.why = "call result location"; return; }
          defs.push_back({D.regname(rg, rv.reg_id()), pn->retw}); }
        // everything the callee may destroy: registers not preserved by its calling convention, the flags, its stack arguments
        uint32_t ngp = D.a64 ? 31u : D.x32 ? 8u : 16u, spid = D.a64 ? 31u : uint32_t(x86::Gp::kIdSp);
        for (uint32_t id = 0; id < ngp; id++) if (id != spid && id != retid && !(fd.preserved_regs(RegGroup::kGp) & (1u << id))) defs.push_back({D.regname(RegGroup::kGp, id), 8});
        for (uint32_t id = 0; id < 32; id++) if (id != retvec && !(fd.preserved_regs(RegGroup::kVec) & (1u << id))) defs.push_back({D.regname(RegGroup::kVec, id), 64});
        if (!D.a64) for (uint32_t id = 0; id < 8; id++) if (!(fd.preserved_regs(RegGroup::kMask) & (1u << id))) defs.push_back({D.regname(RegGroup::kMask, id), 8});
        for (int fb : {0, 1, 2, 3, 8, 9, 10}) if (!D.a64 || fb < 4) defs.push_back({Dumper::flagname(true, fb), 1});
        for (auto& c : clob) defs.push_back(c);
        for (auto& a : defs) d.defs.push_back(a);
        T(pn->sidx, "op call/" + d.key + D.items(d)); break; }
      case NodeType::kInst: case NodeType::kJump: {
        InstNode* inst = n->as<InstNode>();
        if (!pn && in_epilog) {
          if (epilog_pos >= epilog.size() || !same_inst(inst, epilog[epilog_pos])) { out.ok = false; out.why = "epilog does not match emit_epilog(frame)"; return; }
          epilog_pos++;
          if (epilog_pos == epilog.size()) {        // the function returns here; trampolines may follow behind the epilog
            in_epilog = false;
            const FuncValue& rv = func->detail().ret(0);
            if (!rv.is_reg()) { out.ok = false; out.why = "return value location"; return; }
            auto ite = idx.find(func->end_node());
            snprintf(b, sizeof b, "ret 1 %s %d", D.regname(RegUtils::group_of(rv.reg_type()), rv.reg_id()).c_str(), D.aw); T(ite == idx.end() ? -1 : pre[ite->second].sidx, b);
          }
          break;
        }
        if (!pn && prolog_left) {
          if (!same_inst(inst, prolog[prolog.size() - prolog_left])) { out.ok = false; out.why = "prolog does not match emit_prolog(frame)"; return; }
          prolog_left--; break;
        }
        if (pn && prolog_left) { out.ok = false; out.why = "prolog shorter than expected"; return; }
        InstControlFlow cf = D.cf_of(inst->inst_id());
        if (cf == InstControlFlow::kJump) {
          if (pn && inst->op_count() == 1 && !inst->op(0).is_label() && n->type() == NodeType::kJump && n->as<JumpNode>()->annotation()) {
            Desc d = D.describe(inst, true, pn->vsizes, pn->idioms);
            if (!d.ok) { std::string t = d.why; std::replace(t.begin(), t.end(), ' ', '_'); T(pn->sidx, "bad " + t); break; }
            Span<uint32_t> ids = n->as<JumpNode>()->annotation()->label_ids();
            std::string s = "jmptab " + d.key; snprintf(b, sizeof b, " %zu", ids.size()); s += b; for (uint32_t id : ids) { snprintf(b, sizeof b, " %u", id); s += b; }
            T(pn->sidx, s + D.items(d)); break;
          }
          if (inst->op_count() != 1 || !inst->op(0).is_label()) { out.ok = false; out.why = "indirect jump in output"; return; }
          snprintf(b, sizeof b, "jmp %u", inst->op(0).as<Label>().id()); T(-1, b); break;
        }
        if (!pn || pn->is_copy) {
          std::string s;
          if (pn && pn->inst_id != inst->inst_id()) { T(pn->sidx, "bad copy instruction changed its id"); break; }
          if (!pn && !D.a64 && !D.x32 && inst->inst_id() == x86::Inst::kIdLea && inst->op_count() == 2 && inst->op(0).is_reg() && inst->op(0).as<Reg>().reg_group() == RegGroup::kGp &&
              !D.is_virt(inst->op(0).as<Reg>().id()) && int(inst->op(0).as<Reg>().size()) == D.aw && inst->op(1).is_mem() && Dumper::is_slot(inst->op(1).as<x86::Mem>())) {
            // "lea p, [sp+k]" in front of a call with by-reference arguments: p := address of the temporary of the next such argument
            BaseNode* c = n->next(); while (c && c->type() != NodeType::kInvoke && c->type() != NodeType::kLabel && c != D.func->end_node()) c = c->next();
            auto ci = c && c->type() == NodeType::kInvoke ? idx.find(c) : idx.end();
            if (ci != idx.end()) { PreNode& cp = pre[ci->second]; int k = D.tmp_seen[c]++;
              if (k < int(cp.ind_arg.size())) {
                D.tmp_reg = int(inst->op(0).as<Reg>().id()); D.tmp_off = inst->op(1).as<x86::Mem>().offset(); D.tmp_of[{c, cp.ind_arg[size_t(k)]}] = D.tmp_off;
                snprintf(b, sizeof b, "!N %d %lld", D.tmp_reg, (long long)D.tmp_off); out.T.push_back(b);
                snprintf(b, sizeof b, "op ARGTMP|%d 0 1 %s %d", cp.ind_arg[size_t(k)], D.regname(RegGroup::kGp, uint32_t(D.tmp_reg)).c_str(), D.aw); T(cp.ind_sidx[size_t(k)], b); break; } } }
          if (!pn && D.tmp_reg >= 0 && !D.a64 && !D.x32 && (inst->inst_id() == x86::Inst::kIdMovaps || inst->inst_id() == x86::Inst::kIdVmovaps) && inst->op_count() == 2 && inst->op(0).is_mem() && inst->op(1).is_reg()) {
            // "movaps [p], x" directly behind that lea (nothing in between named p): the 16 bytes of x are stored in the temporary
            const x86::Mem& m = inst->op(0).as<x86::Mem>(); const Reg& x = inst->op(1).as<Reg>();
            if (m.has_base_reg() && !m.has_index() && m.base_id() < 32 && m.base_type() == RegType::kGp64 && m.base_id() != x86::Gp::kIdSp && m.offset() == 0 && !m.has_segment() && !m.is_reg_home() && x.reg_type() == RegType::kVec128 && !D.is_virt(x.id())) {
              snprintf(b, sizeof b, "mov t%u:%lld %s 16 0 16", unsigned(m.base_id()), (long long)D.tmp_off, D.regname(RegGroup::kVec, x.id()).c_str()); T(-1, b); break; } }
          bool tm = target_move(D, inst, s);
          if (tm) T(pn ? pn->sidx : -1, s);
          else { String sb; Formatter::format_node(sb, FormatOptions(), &D.cc, n); std::string t = sb.data(); std::replace(t.begin(), t.end(), ' ', '_'); T(pn ? pn->sidx : -1, "bad unmodelled-insertion:" + t); }
          break;
        }
        bool xform = false;
        if (pn->inst_id != inst->inst_id()) {
          // the allocator turns movd/movq gp, xmm into mov gp, [home of xmm] when the vector register lives in memory
          bool from = pn->inst_id == x86::Inst::kIdMovd || pn->inst_id == x86::Inst::kIdMovq || pn->inst_id == x86::Inst::kIdKmovq;   // (kmovq gp, k likewise)
          xform = from && inst->inst_id() == x86::Inst::kIdMov && inst->op_count() == 2 && inst->op(0).is_reg() && inst->op(0).as<Reg>().reg_group() == RegGroup::kGp &&
                  inst->op(1).is_mem() && Dumper::is_slot(inst->op(1).as<x86::Mem>()) && inst->op(1).as<x86::Mem>().size() == (pn->inst_id == x86::Inst::kIdMovd ? 4u : 8u) &&
                  inst->op(0).as<Reg>().size() == inst->op(1).as<x86::Mem>().size();
          if (!xform) { T(pn->sidx, "bad instruction id changed"); break; }
        }
        Desc d = D.describe(inst, true, pn->vsizes, pn->idioms);
        if (xform) d.key = pn->key;
        if (!d.ok) { std::string t = d.why; std::replace(t.begin(), t.end(), ' ', '_'); T(pn->sidx, "bad " + t); break; }
        if (cf == InstControlFlow::kBranch) {
          std::string key = d.key.substr(0, d.key.rfind("|L"));
          std::string s = "cond " + key; snprintf(b, sizeof b, " %u", inst->op(inst->op_count() - 1).as<Label>().id()); s += b;
          T(pn->sidx, s + D.items(d)); break;
        }
        T(pn->sidx, "op " + d.key + D.items(d)); break; }
      case NodeType::kSection: case NodeType::kComment: case NodeType::kAlign: break;
      default: out.ok = false; out.why = "node type in output not modelled"; return;
    }
  }
}

// ------------------------------------------------------------------------------------------------ one program
struct ErrH : public ErrorHandler { Error err = Error::kOk; std::string msg; void handle_error(Error e, const char* m, BaseEmitter*) override { if (err == Error::kOk) { err = e; msg = m ? m : ""; } } };

static void gen_program(uint64_t seed, uint64_t index, Prog& p) {
  Rng r(seed * 1000003ull + index);
  // pressure classes: small, around the 14 allocatable GP registers, large (up to 200 live values)
  int cls = int(index % 8), nvals; bool fh = cls >= 6; if (fh) cls = 0;
  switch (cls) { case 0: nvals = (fh ? 2 : 1) + int(r.below(fh ? 11 : 6)); break; case 1: nvals = 8 + int(r.below(6)); break; case 2: nvals = 13 + int(r.below(5)); break;
                 case 3: nvals = 18 + int(r.below(20)); break; case 4: nvals = 40 + int(r.below(60)); break; default: nvals = 100 + int(r.below(101)); break; }
  int nitems = 5 + int(r.below(cls >= 4 ? 120 : 60));
  int flow = int(r.below(4)) == 0 ? 0 : int(r.below(35)); if (fh) flow = 20 + int(r.below(25));
  int nvec = r.chance(50) ? 0 : (r.chance(50) ? 1 + int(r.below(12)) : 14 + int(r.below(14)));
  if (fh) nvec = r.chance(70) ? 0 : nvec;
  Gen g(r, p); g.fixed_heavy = fh; g.build(nvals, nitems, flow, nvec);
}

// index -> (pressure level, number of blocks, terminators): all skeletons of 2..5 blocks x {8, 14, 15, 28} live GP values
static const uint64_t kSkelCount = 4ull * (5 + 49 + 729 + 14641);
static bool g_skel = false;
static void gen_skeleton(uint64_t seed, uint64_t index, Prog& p, std::vector<int>& terms) {
  static const int press[4] = {8, 14, 15, 28};
  uint64_t k = index % kSkelCount; int nvals = press[k % 4]; k /= 4;
  int B = 2; uint64_t n = 5; while (k >= n) { k -= n; B++; n = 1; for (int q = 0; q < B - 1; q++) n *= uint64_t(1 + 2 * B); }
  terms.clear(); for (int q = 0; q < B - 1; q++) { terms.push_back(int(k % uint64_t(1 + 2 * B))); k /= uint64_t(1 + 2 * B); }
  Rng r(seed * 1000003ull + index + 0x5CE1ull);
  Gen g(r, p); g.skel = &terms; g.build(nvals, 0, 0, r.chance(30) ? 4 + int(r.below(14)) : 0);
}

typedef uint64_t (*JitFn)(uint64_t*, uint64_t, uint64_t, uint64_t, uint64_t, uint64_t, uint64_t, uint64_t, uint64_t, uint64_t, uint64_t, uint64_t, uint64_t);
static int exec_inputs(const Prog& p, JitFn fn, uint64_t seed, uint64_t index, int inputs, FILE* out) {
  static uint64_t bufA[kBufBytes / 8 + 8], bufInit[kBufBytes / 8 + 8], bufI[kBufBytes / 8 + 8];
  int diverged = 0;
  for (int t = 0; t < inputs && !diverged; t++) {
    Rng ir(seed * 7919ull + index * 104729ull + uint64_t(t));
    for (int q = 0; q < kBufBytes / 8; q++) { uint64_t x = ir.next(); switch (ir.below(6)) { case 0: x = 0; break; case 1: x = ~0ull; break; case 2: x &= 0xFF; break; case 3: x = uint64_t(int64_t(int32_t(x))); break; default: break; } bufInit[q] = x; }
    memcpy(bufI, bufInit, kBufBytes); memcpy(bufA, bufInit, kBufBytes);
    // the interpreter works on bufA as well (same address), results saved, then the compiled code runs on a fresh copy
    Interp in(p, reinterpret_cast<uint8_t*>(bufA)); g_callLog.clear();
    uint64_t xa[12]; for (int q = 0; q < 12; q++) { xa[q] = ir.next(); if (ir.below(4) == 0) xa[q] = uint64_t(int64_t(int8_t(xa[q]))); }
    uint64_t want = in.run(uint64_t(uintptr_t(bufA)), xa);
    if (in.fault) { fprintf(out, "X generator-fault input=%d\n", t); diverged = 2; break; }
    memcpy(bufI, bufA, kBufBytes); std::vector<uint64_t> wantLog = g_callLog;
    memcpy(bufA, bufInit, kBufBytes); g_callLog.clear();
    uint64_t got = fn(bufA, xa[0], xa[1], xa[2], xa[3], xa[4], xa[5], xa[6], xa[7], xa[8], xa[9], xa[10], xa[11]);
    bool same = got == want && memcmp(bufA, bufI, kBufBytes) == 0 && wantLog == g_callLog;
    if (!same) {
      int firstq = -1; for (int q = 0; q < kBufBytes / 8; q++) if (bufA[q] != bufI[q]) { firstq = q; break; }
      fprintf(out, "X diverge input=%d ret_got=%llx ret_want=%llx first_mem_qword=%d", t, (unsigned long long)got, (unsigned long long)want, firstq);
      if (firstq >= 0) fprintf(out, " mem_got=%llx mem_want=%llx", (unsigned long long)bufA[firstq], (unsigned long long)bufI[firstq]);
      fprintf(out, " calls_got=%zu calls_want=%zu\n", g_callLog.size(), wantLog.size());
      diverged = 1;
    }
  }
  if (!diverged) fprintf(out, "X ok %d\n", inputs);
  return diverged;
}

// ---- directed probes: small fixed programs for the defects recorded in known_findings.jsonl / fixes/C05-*.patch
static Ins mk(int k, int op, int d, int a, int b, int w, int64_t imm = 0, int lbl = -1, int cc = 0) { Ins i; i.k = k; i.op = op; i.d = d; i.a = a; i.b = b; i.w = w; i.imm = imm; i.lbl = lbl; i.cc = cc; return i; }
static bool probe_program(const std::string& name, Prog& p) {
  p.vsize.push_back(8);                                   // v0 = pointer
  auto ld = [&](int v, int off) { p.ins.push_back(mk(K_LOAD, 0, v, -1, -1, p.vsize[size_t(v)], off)); };
  auto st = [&](int v, int slot) { p.ins.push_back(mk(K_STORE, 0, -1, v, -1, p.vsize[size_t(v)], kOutBase + 8 * slot)); };
  if (name == "unreachable-into-loop") {
    // dead code behind an unconditional jump (label never referenced) that branches back into a live loop
    p.vsize.push_back(8); p.vsize.push_back(8); p.nlabels = 3;          // v1 value, v2 counter; labels 0 = loop, 1 = dead, 2 = exit
    ld(1, 0); p.ins.push_back(mk(K_MOVRI, 0, 2, -1, -1, 8, 3));
    p.ins.push_back(mk(K_LABEL, 0, -1, -1, -1, 8, 0, 0));
    p.ins.push_back(mk(K_ALU, A_ADD, 1, 1, -1, 8));
    p.ins.push_back(mk(K_UNARY, U_DEC, 2, -1, -1, 8));
    p.ins.push_back(mk(K_CMPI, 0, -1, 2, -1, 8, 0)); p.ins.push_back(mk(K_JCC, 0, -1, -1, -1, 8, 0, 2, 4));
    p.ins.push_back(mk(K_ALU, A_ADD, 1, 2, -1, 8));
    p.ins.push_back(mk(K_JMP, 0, -1, -1, -1, 8, 0, 0));
    p.ins.push_back(mk(K_LABEL, 0, -1, -1, -1, 8, 0, 1));
    p.ins.push_back(mk(K_ALU, A_ADD, 1, 1, -1, 8));
    p.ins.push_back(mk(K_TEST, 0, -1, 1, 1, 8)); p.ins.push_back(mk(K_JCC, 0, -1, -1, -1, 8, 0, 0, 5));
    p.ins.push_back(mk(K_LABEL, 0, -1, -1, -1, 8, 0, 2));
    st(1, 0); p.ins.push_back(mk(K_RET, 0, -1, 1, -1, 8)); return true;
  }
  if (name == "jump-table-shared-target") {
    // switch (x & 3) { case 0: <work>; /* falls through */ case 1: case 2: case 3: <use everything> } - several entries of the
    // annotated jump table name the same block, which is also entered by falling through from the first case
    const int M = 20; for (int j = 1; j <= M; j++) p.vsize.push_back(8);
    int jidx = M + 1, joff = M + 2, jtgt = M + 3, acc2 = M + 4; for (int j = 0; j < 4; j++) p.vsize.push_back(8);
    p.nlabels = 4;
    for (int j = 1; j <= M; j++) ld(j, 8 * j);
    p.ins.push_back(mk(K_MOVRI, 0, acc2, -1, -1, 8, 0));
    for (int t : {jidx, joff, jtgt}) p.ins.push_back(mk(K_MOVRI, 0, t, -1, -1, 8, 0));
    for (int j = 1; j <= M; j++) p.ins.push_back(mk(K_ALU, A_ADD, acc2, j, -1, 8));
    p.ins.push_back(mk(K_MOVRR, 0, jidx, 1, -1, 4)); p.ins.push_back(mk(K_ALUI, A_AND, jidx, -1, -1, 4, 3));
    Ins sw = mk(K_SWITCH, 0, joff, jidx, jtgt, 8); sw.nargs = 4; sw.xs[0] = 0; sw.xs[1] = 1; sw.xs[2] = 2; sw.xs[3] = 3; p.ins.push_back(sw);
    p.ins.push_back(mk(K_LABEL, 0, -1, -1, -1, 8, 0, 0));
    for (int j = 1; j <= M; j += 2) { p.ins.push_back(mk(K_SHIFTCL, S_ROL, acc2, j, -1, 8)); p.ins.push_back(mk(K_ALU, A_ADD, j, acc2, -1, 8)); }
    p.ins.push_back(mk(K_LABEL, 0, -1, -1, -1, 8, 0, 1)); p.ins.push_back(mk(K_LABEL, 0, -1, -1, -1, 8, 0, 2)); p.ins.push_back(mk(K_LABEL, 0, -1, -1, -1, 8, 0, 3));   // three table entries, one block
    for (int j = 1; j <= M; j++) p.ins.push_back(mk(K_ALU, A_XOR, acc2, j, -1, 8));
    for (int j = 1; j <= M; j++) st(j, j);
    st(acc2, 0); p.ins.push_back(mk(K_RET, 0, -1, acc2, -1, 8)); return true;
  }
  const int N = 24;
  for (int j = 1; j <= N; j++) p.vsize.push_back(8);
  int acc = int(p.vsize.size()); p.vsize.push_back(8);
  for (int j = 1; j <= N; j++) ld(j, 8 * j);
  p.ins.push_back(mk(K_MOVRI, 0, acc, -1, -1, 8, 0));
  for (int j = 1; j <= N; j++) p.ins.push_back(mk(K_ALU, A_ADD, acc, j, -1, 8));      // every value is live and has been read once
  if (name == "rm-write-zero-extension") {                // or v.r32(), 1 on an 8-byte register: bits 32..63 must become 0
    for (int j = 1; j <= N; j++) p.ins.push_back(mk(K_ALUI, A_OR, j, -1, -1, 4, 1));
  } else if (name == "same-reg-idiom-partial") {          // xor v.r16(), v.r16() on an 8-byte register: bits 16..63 must survive
    for (int j = 1; j <= N; j++) p.ins.push_back(mk(K_ALU, A_XOR, j, j, -1, 2));
  } else if (name == "and-zero") {                        // and v, 0 : the register becomes 0
    // the shift count must be in cl: a register living in memory is loaded (a clean copy of its home), cleared there, and
    // evicted by the next shift without being written back
    for (int j = 1; j <= N; j++) { p.ins.push_back(mk(K_SHIFTCL, S_ROL, acc, j, -1, 8)); p.ins.push_back(mk(K_ALUI, A_AND, j, -1, -1, 8, 0)); }
  } else if (name == "same-reg-and32") {                  // and v.r32(), v.r32() on an 8-byte register: bits 32..63 must become 0
    for (int j = 1; j <= N; j++) p.ins.push_back(mk(K_ALU, A_AND, j, j, -1, 4));
  } else return false;
  for (int j = 1; j <= N; j++) p.ins.push_back(mk(K_ALU, A_ADD, acc, j, -1, 8));
  for (int j = 1; j <= N; j++) st(j, j);
  st(acc, 0); p.ins.push_back(mk(K_RET, 0, -1, acc, -1, 8)); return true;
}

static int run_one(uint64_t seed, uint64_t index, int inputs, bool verbose, const char* probe = nullptr) {
  Prog p;
  std::vector<int> skel_terms;
  if (probe) { if (!probe_program(probe, p)) { printf("P 0\nG unknown-probe\nE\n"); return 0; } } else if (g_skel) gen_skeleton(seed, index, p, skel_terms); else gen_program(seed, index, p);
  if (const char* drop = getenv("C05_DROP")) {      // debugging aid (shrinking): remove the listed plain instructions
    std::vector<bool> d(p.ins.size(), false); for (const char* q = drop; *q;) { size_t i = strtoul(q, (char**)&q, 10); if (i < d.size()) d[i] = true; while (*q == ',') q++; }
    std::vector<Ins> keep;
    for (size_t i = 0; i < p.ins.size(); i++) {
      const Ins& x = p.ins[i]; bool plain = x.k != K_LABEL && x.k != K_JMP && x.k != K_JCC && x.k != K_SWITCH && x.k != K_RET && x.k != K_DIV && x.k != K_CMP && x.k != K_CMPI && x.k != K_TEST;
      if (i + 2 < p.ins.size() && (p.ins[i + 1].k == K_DIV || p.ins[i + 2].k == K_DIV)) plain = false;
      if (i + 2 < p.ins.size() && (p.ins[i + 1].k == K_LOADX || p.ins[i + 2].k == K_LOADX || p.ins[i + 1].k == K_SWITCH || p.ins[i + 2].k == K_SWITCH)) plain = false;
      if (i < p.ninit) plain = false;
      if (!(d[i] && plain)) keep.push_back(x);
    }
    p.ins.swap(keep);
  }
  printf("P %llu nv=%zu ni=%zu nl=%d jt=%d fp=%d\n", (unsigned long long)index, p.vsize.size(), p.ins.size(), p.nlabels, p.jt_mode, int(p.fp));
  JitRuntime rt; CodeHolder code; code.init(rt.environment(), rt.cpu_features());
  ErrH eh; code.set_error_handler(&eh);
  x86::Compiler cc(&code);
  Emitted em = emit_prog(cc, p);
  if (em.err != Error::kOk || eh.err != Error::kOk) { printf("G emit-error %u %s\nE\n", unsigned(eh.err != Error::kOk ? eh.err : em.err), eh.msg.c_str()); return 0; }
  Dumper D(cc, em.func);
  std::vector<PreNode> pre; std::map<BaseNode*, size_t> idx; DumpResult dr;
  dump_source(D, pre, idx, dr);
  if (getenv("C05_SHAPE")) { for (auto& x : dr.S) if (x.compare(0, 3, "op ") != 0 && x.compare(0, 4, "mov ") != 0) printf("# %s\n", x.c_str()); else printf("# .\n"); fflush(stdout); }
  Error e = cc.run_passes();
  if (e != Error::kOk) { printf("G ra-error %u %s\nE\n", unsigned(e), eh.msg.c_str()); return 0; }
  if (dr.ok) dump_target(D, pre, idx, dr);
  if (!dr.ok) printf("U %s\n", dr.why.c_str());
  else { for (auto& s : dr.S) printf("S %s\n", s.c_str()); if (D.sa_reg >= 0) printf("M %d %d\n", D.aw, D.sa_reg); if (D.fp_frame()) printf("F 0 %u\n", unsigned(x86::Gp::kIdBp)); for (auto& s : dr.T) { if (s[0] == '!') printf("%s\n", s.c_str() + 1); else printf("T %s\n", s.c_str()); } }
  if (verbose) { String sb; FormatOptions fo; for (BaseNode* n = cc.first_node(); n; n = n->next()) { sb.clear(); Formatter::format_node(sb, fo, &cc, n); printf("# %s\n", sb.data()); } }
  // serialize + execute
  x86::Assembler as(&code);
  e = cc.serialize_to(&as);
  typedef JitFn Fn;
  Fn fn = nullptr;
  if (e == Error::kOk) e = rt.add(&fn, &code);
  if (e != Error::kOk || !fn) { printf("X serialize-error %u %s\nE\n", unsigned(e), eh.msg.c_str()); return 0; }
  // The compiled code runs in a forked child: a miscompiled function may loop forever, trap or overwrite memory.
  fflush(stdout);
  int pfd[2]; if (pipe(pfd) != 0) { printf("X pipe-error\nE\n"); return 0; }
  pid_t pid = fork();
  if (pid == 0) {
    close(pfd[0]);
    FILE* out = fdopen(pfd[1], "w");
    alarm(6);
    int diverged = exec_inputs(p, fn, seed, index, inputs, out);
    (void)diverged; fflush(out); _exit(0);
  }
  close(pfd[1]);
  std::string xline; { char cb[512]; ssize_t n; while ((n = read(pfd[0], cb, sizeof cb)) > 0) xline.append(cb, size_t(n)); } close(pfd[0]);
  int status = 0; waitpid(pid, &status, 0);
  int diverged = 0;
  if (WIFSIGNALED(status)) { printf("X diverge compiled-code-killed-by-signal=%d%s\n", WTERMSIG(status), WTERMSIG(status) == SIGALRM ? "(timeout)" : ""); diverged = 1; }
  else if (xline.empty()) { printf("X diverge no-result\n"); diverged = 1; }
  else { fputs(xline.c_str(), stdout); diverged = xline.compare(0, 9, "X diverge") == 0; }
  rt.release(fn);
  printf("E\n");
  return diverged == 1;
}


// ------------------------------------------------------------------------------------------------ AArch64 (validator only)
// No AArch64 CPU is available here: the allocated code is not executed, only validated. Programs are generated and emitted
// in one go (no interpreter needed): every virtual register is defined at function entry, operands never exceed the
// register's size, no unreachable code.
struct A64Gen {
  Rng& r; a64::Compiler& cc; std::vector<a64::Gp> g; std::vector<int> gsz; std::vector<a64::Vec> v; std::vector<a64::Vec> fd; a64::Gp p; Error err = Error::kOk; bool calls = false, lists = false;   // fd: 64-bit scalar floating point registers
  A64Gen(Rng& r_, a64::Compiler& c) : r(r_), cc(c) {}
  void E(Error e) { if (e != Error::kOk && err == Error::kOk) err = e; }
  int any() { return int(r.below(uint32_t(g.size()))); }
  int wide() { for (int t = 0; t < 16; t++) { int x = any(); if (gsz[size_t(x)] == 8) return x; } for (size_t x = 0; x < g.size(); x++) if (gsz[x] == 8) return int(x); return -1; }
  a64::Gp R(int x, int w) { return w == 8 ? g[size_t(x)].x() : g[size_t(x)].w(); }
  void cond_branch(const Label& l) {
    switch (r.below(8)) { case 0: E(cc.b_eq(l)); break; case 1: E(cc.b_ne(l)); break; case 2: E(cc.b_lt(l)); break; case 3: E(cc.b_ge(l)); break;
                          case 4: E(cc.b_hi(l)); break; case 5: E(cc.b_ls(l)); break; case 6: E(cc.b_mi(l)); break; default: E(cc.b_cs(l)); break; } }
  void op() {
    static const InstId alu3[10] = {a64::Inst::kIdAdd, a64::Inst::kIdSub, a64::Inst::kIdAnd, a64::Inst::kIdOrr, a64::Inst::kIdEor, a64::Inst::kIdMul, a64::Inst::kIdUdiv, a64::Inst::kIdLsl, a64::Inst::kIdLsr, a64::Inst::kIdAsr};
    uint32_t k = r.below(v.empty() ? 14 : 20); if (calls && r.chance(6)) k = 20; if (lists && v.size() >= 4 && r.chance(5)) k = 22;
    if (r.chance(8)) k = 30 + r.below(2); if (!fd.empty() && r.chance(20)) k = 40 + r.below(7); if (calls && !fd.empty() && r.chance(4)) k = 50;
    switch (k) {
      case 0: case 1: case 2: case 3: { int d = any(), a = any(), b = any(); int w = (gsz[size_t(d)] == 8 && gsz[size_t(a)] == 8 && gsz[size_t(b)] == 8 && r.chance(60)) ? 8 : 4; E(cc.emit(alu3[r.below(10)], R(d, w), R(a, w), R(b, w))); break; }
      case 4: { int d = any(), a = any(); int w = (gsz[size_t(d)] == 8 && gsz[size_t(a)] == 8 && r.chance(60)) ? 8 : 4; E(cc.emit(r.chance(50) ? a64::Inst::kIdAdd : a64::Inst::kIdSub, R(d, w), R(a, w), Imm(r.below(4096)))); break; }
      case 5: { int d = any(), a = any(); int w = (gsz[size_t(d)] == 8 && gsz[size_t(a)] == 8 && r.chance(60)) ? 8 : 4; static const uint64_t m[4] = {0xFF, 0xFFFF, 0x3FFCu, 0x7FFFFFFF};
        E(cc.emit(r.chance(33) ? a64::Inst::kIdAnd : r.chance(50) ? a64::Inst::kIdOrr : a64::Inst::kIdEor, R(d, w), R(a, w), Imm(m[r.below(4)]))); break; }
      case 6: { int d = any(), a = any(); int w = (gsz[size_t(d)] == 8 && gsz[size_t(a)] == 8 && r.chance(60)) ? 8 : 4; E(cc.mov(R(d, w), R(a, w))); break; }
      case 7: { int d = any(); int w = gsz[size_t(d)] == 8 && r.chance(50) ? 8 : 4; E(cc.mov(R(d, w), Imm(r.below(65536)))); break; }
      case 8: { int d = any(), a = any(), b = any(), c = any(); int w = (gsz[size_t(d)] == 8 && gsz[size_t(a)] == 8 && gsz[size_t(b)] == 8 && gsz[size_t(c)] == 8 && r.chance(60)) ? 8 : 4;
        E(cc.emit(a64::Inst::kIdMadd, R(d, w), R(a, w), R(b, w), R(c, w))); break; }
      case 9: { int d = any(); uint32_t off = r.below(64) * 8; switch (r.below(4)) { case 0: E(cc.ldrb(R(d, 4), a64::ptr(p, int32_t(off)))); break; case 1: E(cc.ldrh(R(d, 4), a64::ptr(p, int32_t(off)))); break;
          case 2: E(cc.ldr(R(d, 4), a64::ptr(p, int32_t(off)))); break; default: if (gsz[size_t(d)] == 8) E(cc.ldr(R(d, 8), a64::ptr(p, int32_t(off)))); else E(cc.ldr(R(d, 4), a64::ptr(p, int32_t(off)))); break; } break; }
      case 10: { int a = any(); uint32_t off = 512 + r.below(64) * 8; switch (r.below(4)) { case 0: E(cc.strb(R(a, 4), a64::ptr(p, int32_t(off)))); break; case 1: E(cc.strh(R(a, 4), a64::ptr(p, int32_t(off)))); break;
          case 2: E(cc.str(R(a, 4), a64::ptr(p, int32_t(off)))); break; default: E(cc.str(R(a, gsz[size_t(a)]), a64::ptr(p, int32_t(off)))); break; } break; }
      case 11: { int a = any(), b = any(), d = any(), x = any(), y = any(); int w = (gsz[size_t(a)] == 8 && gsz[size_t(b)] == 8 && r.chance(50)) ? 8 : 4; E(cc.cmp(R(a, w), R(b, w)));
        int w2 = (gsz[size_t(d)] == 8 && gsz[size_t(x)] == 8 && gsz[size_t(y)] == 8 && r.chance(60)) ? 8 : 4; E(cc.csel(R(d, w2), R(x, w2), R(y, w2), r.chance(50) ? a64::CondCode::kLT : a64::CondCode::kNE)); break; }
      case 12: { int a = any(), d = any(); int w = gsz[size_t(a)] == 8 && r.chance(50) ? 8 : 4; E(cc.cmp(R(a, w), Imm(r.below(4096)))); E(cc.cset(R(d, gsz[size_t(d)] == 8 && r.chance(50) ? 8 : 4), a64::CondCode::kHI)); break; }
      case 13: { int x = wide(), d = any(); if (x < 0) break; int idx = wide(); if (idx < 0) break;   // register-indexed load
        E(cc.ldr(R(d, 4), a64::ptr(R(x, 8), R(idx, 8)))); break; }
      case 20: case 21: { // call through a register with 1..10 integer arguments (8 in x0-x7, the rest on the stack)
        int t = wide(), d = wide(); if (t < 0) break; uint32_t na = 1 + r.below(10);
        FuncSignature sig(CallConvId::kCDecl); sig.set_ret_t<uint64_t>(); for (uint32_t q = 0; q < na; q++) sig.add_arg_t<uint64_t>();
        InvokeNode* inv = nullptr; E(cc.invoke(Out<InvokeNode*>(inv), R(t, 8), sig));
        if (inv) { for (uint32_t q = 0; q < na; q++) { int a = wide(); inv->set_arg(q, R(a, 8)); } inv->set_ret(0, R(d, 8)); } break; }
      case 30: { int a = wide(), b = wide(); if (a < 0 || a == b) break; E(cc.ldp(R(a, 8), R(b, 8), a64::ptr(p, int32_t(r.below(30) * 16)))); break; }     // load pair (imm7 scaled by 8: up to 504)
      case 31: { int a = any(), b = any(); int w = (gsz[size_t(a)] == 8 && gsz[size_t(b)] == 8 && r.chance(60)) ? 8 : 4; { a64::Gp base = cc.new_gp64(); E(cc.add(base, p, Imm(1024))); E(cc.stp(R(a, w), R(b, w), a64::ptr(base, int32_t(r.below(15) * 16)))); } break; }
      case 40: { E(cc.ldr(fd[r.below(uint32_t(fd.size()))], a64::ptr(p, int32_t(r.below(64) * 8)))); break; }
      case 41: { E(cc.str(fd[r.below(uint32_t(fd.size()))], a64::ptr(p, int32_t(1536 + r.below(60) * 8)))); break; }
      case 42: case 43: { auto& d = fd[r.below(uint32_t(fd.size()))]; auto& a = fd[r.below(uint32_t(fd.size()))]; auto& b = fd[r.below(uint32_t(fd.size()))];
        switch (r.below(4)) { case 0: E(cc.fadd(d, a, b)); break; case 1: E(cc.fmul(d, a, b)); break; case 2: E(cc.fsub(d, a, b)); break; default: E(cc.fmadd(d, a, b, fd[r.below(uint32_t(fd.size()))])); break; } break; }
      case 44: { int x = wide(); if (x < 0) break; if (r.chance(50)) E(cc.fmov(fd[r.below(uint32_t(fd.size()))], R(x, 8))); else E(cc.fmov(R(x, 8), fd[r.below(uint32_t(fd.size()))])); break; }
      case 45: { int x = wide(); if (x < 0) break; if (r.chance(50)) E(cc.scvtf(fd[r.below(uint32_t(fd.size()))], R(x, 8))); else E(cc.fcvtzs(R(x, 8), fd[r.below(uint32_t(fd.size()))])); break; }
      case 46: { auto& a = fd[r.below(uint32_t(fd.size()))]; auto& b = fd[r.below(uint32_t(fd.size()))]; int d = any(); E(cc.fcmp(a, b)); E(cc.cset(R(d, 4), a64::CondCode::kMI)); break; }
      case 50: { // call with mixed integer / floating point arguments (x0-x7, d0-d7, the rest on the stack) and a double result
        int t = wide(); if (t < 0) break; uint32_t na = 1 + r.below(12);
        FuncSignature sig(CallConvId::kCDecl); sig.set_ret_t<double>(); std::vector<bool> isfp; for (uint32_t q = 0; q < na; q++) { bool f = r.chance(50); isfp.push_back(f); if (f) sig.add_arg_t<double>(); else sig.add_arg_t<uint64_t>(); }
        InvokeNode* inv = nullptr; E(cc.invoke(Out<InvokeNode*>(inv), R(t, 8), sig));
        if (inv) { for (uint32_t q = 0; q < na; q++) { if (isfp[q]) inv->set_arg(q, fd[r.below(uint32_t(fd.size()))]); else inv->set_arg(q, R(wide(), 8)); } inv->set_ret(0, fd[r.below(uint32_t(fd.size()))]); } break; }
      case 22: case 23: case 24: { // register lists: the allocator must place the 2..4 list members in consecutive vector registers
        if (v.size() < 4) break; uint32_t n = 2 + r.below(3); uint32_t idx[4]; bool dup = false;
        for (uint32_t q = 0; q < n; q++) { idx[q] = r.below(uint32_t(v.size())); for (uint32_t z = 0; z < q; z++) if (idx[z] == idx[q]) dup = true; }
        if (dup) break; a64::Gp base = cc.new_gp64(); E(cc.add(base, p, Imm(r.below(16) * 64)));
        bool st = r.chance(40);
        if (n == 2) E(st ? cc.st1(v[idx[0]].s4(), v[idx[1]].s4(), a64::ptr(base)) : cc.ld1(v[idx[0]].s4(), v[idx[1]].s4(), a64::ptr(base)));
        else if (n == 3) E(st ? cc.st1(v[idx[0]].s4(), v[idx[1]].s4(), v[idx[2]].s4(), a64::ptr(base)) : cc.ld1(v[idx[0]].s4(), v[idx[1]].s4(), v[idx[2]].s4(), a64::ptr(base)));
        else E(st ? cc.st1(v[idx[0]].s4(), v[idx[1]].s4(), v[idx[2]].s4(), v[idx[3]].s4(), a64::ptr(base)) : cc.ld1(v[idx[0]].s4(), v[idx[1]].s4(), v[idx[2]].s4(), v[idx[3]].s4(), a64::ptr(base)));
        break; }
      case 14: { E(cc.ldr(v[r.below(uint32_t(v.size()))], a64::ptr(p, int32_t(r.below(30) * 16)))); break; }
      case 15: { E(cc.str(v[r.below(uint32_t(v.size()))], a64::ptr(p, int32_t(1024 + r.below(60) * 16)))); break; }
      case 16: { auto& d = v[r.below(uint32_t(v.size()))]; auto& a = v[r.below(uint32_t(v.size()))]; auto& b = v[r.below(uint32_t(v.size()))];
        if (r.chance(50)) E(cc.add(d.s4(), a.s4(), b.s4())); else E(cc.eor(d.b16(), a.b16(), b.b16())); break; }
      case 17: { auto& d = v[r.below(uint32_t(v.size()))]; auto& a = v[r.below(uint32_t(v.size()))]; E(cc.mov(d.b16(), a.b16())); break; }
      case 18: { auto& d = v[r.below(uint32_t(v.size()))]; int a = any(); E(cc.ins(d.s(r.below(4)), R(a, 4))); break; }
      default: { auto& a = v[r.below(uint32_t(v.size()))]; int d = any(); E(cc.umov(R(d, 4), a.s(r.below(4)))); break; }
    }
  }
  FuncNode* build(int ngp, int nvec, int nitems, int flowpct) {
    FuncNode* f = cc.add_func(FuncSignature::build<uint64_t, uint64_t*>());
    p = cc.new_gp_ptr(); f->set_arg(0, p);
    for (int i = 0; i < ngp; i++) { bool w8 = r.chance(60); g.push_back(w8 ? cc.new_gp64() : cc.new_gp32()); gsz.push_back(w8 ? 8 : 4); }
    for (int i = 0; i < nvec; i++) v.push_back(cc.new_vec128());
    int nfd = r.chance(50) ? 0 : 1 + int(r.below(40)); for (int i = 0; i < nfd; i++) fd.push_back(cc.new_vec_d());
    for (size_t i = 0; i < g.size(); i++) E(cc.ldr(g[i], a64::ptr(p, int32_t(r.below(64) * 8))));
    for (size_t i = 0; i < fd.size(); i++) E(cc.ldr(fd[i], a64::ptr(p, int32_t(r.below(64) * 8))));
    for (size_t i = 0; i < v.size(); i++) E(cc.ldr(v[i], a64::ptr(p, int32_t(r.below(30) * 16))));
    std::vector<Label> placed, pending;
    for (int n = 0; n < nitems; n++) {
      if (int(r.below(100)) < flowpct) {
        uint32_t y = r.below(10);
        if (y < 4) { Label l; if (!pending.empty() && r.chance(40)) l = pending[r.below(uint32_t(pending.size()))]; else { l = cc.new_label(); pending.push_back(l); }
          int a = any(), b = any(); if (r.chance(30)) E(cc.cbz(R(a, gsz[size_t(a)]), l)); else if (r.chance(30)) E(cc.cbnz(R(a, 4), l)); else { E(cc.cmp(R(a, 4), R(b, 4))); cond_branch(l); } }
        else if (y < 7) { Label l; if (!pending.empty() && r.chance(75)) { uint32_t q = r.below(uint32_t(pending.size())); l = pending[q]; pending.erase(pending.begin() + q); } else l = cc.new_label(); E(cc.bind(l)); placed.push_back(l); }
        else if (y < 9) { if (placed.empty()) continue; int a = any(); E(cc.subs(R(a, 4), R(a, 4), Imm(1))); cond_branch(placed[r.below(uint32_t(placed.size()))]); }
        else { if (pending.empty()) continue; uint32_t q = r.below(uint32_t(pending.size())); Label l2 = pending[q]; pending.erase(pending.begin() + q);
          Label l; if (!pending.empty() && r.chance(40)) l = pending[r.below(uint32_t(pending.size()))]; else { l = cc.new_label(); pending.push_back(l); }
          E(cc.b(l)); E(cc.bind(l2)); placed.push_back(l2); }
      } else op();
    }
    for (auto& l : pending) E(cc.bind(l));
    uint32_t off = 2048; for (size_t i = 0; i < g.size(); i++) { E(cc.str(g[i], a64::ptr(p, int32_t(off)))); off += 8; }
    for (size_t i = 0; i < fd.size(); i++) { E(cc.str(fd[i], a64::ptr(p, int32_t(off)))); off += 8; }
    off = (off + 15u) & ~15u; for (size_t i = 0; i < v.size(); i++) { E(cc.str(v[i], a64::ptr(p, int32_t(off)))); off += 16; }
    int rv = wide(); a64::Gp ret = cc.new_gp64(); if (rv >= 0) E(cc.mov(ret, g[size_t(rv)].x())); else E(cc.mov(ret, Imm(0)));
    E(cc.ret(ret)); E(cc.end_func());
    return f;
  }
};

static bool g_a64_lists = true;
static void run_one_a64(uint64_t seed, uint64_t index, bool verbose) {
  Rng r(seed * 1000003ull + index + 0xA64A64ull);
  int cls = int(index % 5), ngp;
  switch (cls) { case 0: ngp = 1 + int(r.below(8)); break; case 1: ngp = 20 + int(r.below(10)); break; case 2: ngp = 27 + int(r.below(6)); break; case 3: ngp = 34 + int(r.below(40)); break; default: ngp = 80 + int(r.below(121)); break; }
  int nvec = r.chance(50) ? 0 : (r.chance(50) ? 1 + int(r.below(20)) : 30 + int(r.below(20)));
  printf("P %llu a64 ngp=%d nvec=%d\n", (unsigned long long)index, ngp, nvec);
  Environment env(Arch::kAArch64); CodeHolder code; code.init(env);
  ErrH eh; code.set_error_handler(&eh);
  a64::Compiler cc(&code);
  A64Gen gen(r, cc); gen.calls = r.chance(50); gen.lists = g_a64_lists;
  FuncNode* func = gen.build(ngp, nvec, 5 + int(r.below(cls >= 3 ? 120 : 60)), r.below(4) == 0 ? 0 : int(r.below(35)));
  if (gen.err != Error::kOk || eh.err != Error::kOk) { printf("G emit-error %u %s\nE\n", unsigned(eh.err != Error::kOk ? eh.err : gen.err), eh.msg.c_str()); return; }
  Dumper D(cc, func);
  std::vector<PreNode> pre; std::map<BaseNode*, size_t> idx; DumpResult dr;
  dump_source(D, pre, idx, dr);
  if (getenv("C05_PRE")) { String sb; FormatOptions fo; for (BaseNode* n = cc.first_node(); n; n = n->next()) { sb.clear(); Formatter::format_node(sb, fo, &cc, n); printf("#pre %s\n", sb.data()); } }
  Error e = cc.run_passes();
  if (e != Error::kOk) { printf("G ra-error %u %s\nE\n", unsigned(e), eh.msg.c_str()); return; }
  if (dr.ok) dump_target(D, pre, idx, dr);
  if (!dr.ok) printf("U %s\n", dr.why.c_str());
  else { for (auto& s : dr.S) printf("S %s\n", s.c_str()); if (D.sa_reg >= 0) printf("M %d %d\n", D.aw, D.sa_reg); if (D.fp_frame()) printf("F 0 %u\n", unsigned(x86::Gp::kIdBp)); for (auto& s : dr.T) { if (s[0] == '!') printf("%s\n", s.c_str() + 1); else printf("T %s\n", s.c_str()); } }
  if (verbose) { String sb; FormatOptions fo; for (BaseNode* n = cc.first_node(); n; n = n->next()) { sb.clear(); Formatter::format_node(sb, fo, &cc, n); printf("# %s\n", sb.data()); } }
  a64::Assembler as(&code);
  e = cc.serialize_to(&as);
  if (e != Error::kOk) printf("X serialize-error %u %s\n", unsigned(e), eh.msg.c_str()); else printf("X not-executed\n");
  printf("E\n");
}

// ------------------------------------------------------------------------------------------------ x86-32 (validator only)
// 32-bit code cannot be executed in this 64-bit process: the allocated code is validated, not run. 7 allocable GP registers
// (8-bit operands only in al/cl/dl/bl), 8 XMM registers, arguments on the stack (cdecl) or in ecx/edx (fastcall).
struct X32Gen {
  Rng& r; x86::Compiler& cc; std::vector<x86::Gp> g; std::vector<int> gsz; std::vector<x86::Vec> v; x86::Gp p; Error err = Error::kOk; bool calls = false;
  X32Gen(Rng& r_, x86::Compiler& c) : r(r_), cc(c) {}
  void E(Error e) { if (e != Error::kOk && err == Error::kOk) err = e; }
  int any() { return int(r.below(uint32_t(g.size()))); }
  int atleast(int sz) { for (int t = 0; t < 16; t++) { int x = any(); if (gsz[size_t(x)] >= sz) return x; } for (size_t x = 0; x < g.size(); x++) if (gsz[x] >= sz) return int(x); return -1; }
  x86::Gp R(int x, int w) { return view(g[size_t(x)], w); }
  int pw(int maxw) { static const int ws[3] = {1, 2, 4}; for (;;) { int w = ws[r.below(3)]; if (w <= maxw) return w; } }
  void cmp_any() { int a = any(); int w = pw(gsz[size_t(a)]); if (r.chance(40)) E(cc.emit(x86::Inst::kIdCmp, R(a, w), Imm(int8_t(r.next())))); else { int b = atleast(w); if (b < 0) b = a; E(cc.emit(r.chance(25) ? x86::Inst::kIdTest : x86::Inst::kIdCmp, R(a, w), R(b, w))); } }
  void op() {
    uint32_t k = r.below(v.empty() ? 20 : 26); if (calls && r.chance(7)) k = 30;
    switch (k) {
      case 0: case 1: { int d = any(), a = any(); int w = pw(std::min(gsz[size_t(d)], gsz[size_t(a)])); E(cc.emit(x86::Inst::kIdMov, R(d, w), R(a, w))); break; }
      case 2: { int d = any(); int w = pw(gsz[size_t(d)]); E(cc.emit(x86::Inst::kIdMov, R(d, w), Imm(w == 1 ? int64_t(int8_t(r.next())) : w == 2 ? int64_t(int16_t(r.next())) : int64_t(int32_t(r.next()))))); break; }
      case 3: case 4: case 5: { int d = any(), a = r.chance(8) ? d : any(); int w = pw(std::min(gsz[size_t(d)], gsz[size_t(a)])); E(cc.emit(kAlu[r.below(5)], R(d, w), R(a, w))); break; }
      case 6: { int d = any(); int w = pw(gsz[size_t(d)]); static const int64_t im[5] = {0, -1, 1, 100, -128}; E(cc.emit(kAlu[r.below(5)], R(d, w), Imm(im[r.below(5)]))); break; }
      case 7: { int d = atleast(2), a = atleast(2); if (d < 0 || a < 0) break; int w = std::min(gsz[size_t(d)], gsz[size_t(a)]) >= 4 && r.chance(60) ? 4 : 2; E(cc.emit(x86::Inst::kIdImul, R(d, w), R(a, w))); break; }
      case 8: case 9: { int d = any(), c = any(); int w = pw(gsz[size_t(d)]); E(cc.emit(kSh[r.below(5)], R(d, w), R(c, 1))); break; }
      case 10: { int d = any(); int w = pw(gsz[size_t(d)]); E(cc.emit(kSh[r.below(5)], R(d, w), Imm(r.below(uint32_t(8 * w))))); break; }
      case 11: { int d = any(); int w = pw(gsz[size_t(d)]); E(cc.emit(kUn[r.below(4)], R(d, w))); break; }
      case 12: { int hi = atleast(4), lo = atleast(4), sx = atleast(4); if (hi < 0 || hi == lo) break; E(cc.emit(x86::Inst::kIdMul, R(hi, 4), R(lo, 4), R(sx, 4))); break; }
      case 13: { int hi = atleast(4), lo = atleast(4), sx = atleast(4); if (hi < 0 || hi == lo || sx == hi) break; E(cc.emit(x86::Inst::kIdXor, R(hi, 4), R(hi, 4))); E(cc.emit(x86::Inst::kIdOr, R(sx, 4), Imm(1))); E(cc.emit(x86::Inst::kIdDiv, R(hi, 4), R(lo, 4), R(sx, 4))); break; }
      case 14: { cmp_any(); int d = atleast(2), a = atleast(2); if (d < 0) break; int w = std::min(gsz[size_t(d)], gsz[size_t(a)]) >= 4 && r.chance(60) ? 4 : 2; E(cc.emit(kCmov[r.below(16)], R(d, w), R(a, w))); break; }
      case 15: { cmp_any(); E(cc.emit(kSet[r.below(16)], R(any(), 1))); break; }
      case 16: { int d = atleast(4), a = atleast(4), b = atleast(4); if (d < 0) break; E(cc.emit(x86::Inst::kIdLea, R(d, 4), r.chance(70) ? x86::ptr(R(a, 4), R(b, 4), r.below(4), int32_t(r.below(4096)) - 2048) : x86::ptr(R(a, 4), int32_t(r.below(4096))))); break; }
      case 17: { int a = any(); int w1 = pw(std::min(gsz[size_t(a)], 2)); int d = atleast(w1 * 2); if (d < 0) break; E(cc.emit(r.chance(50) ? x86::Inst::kIdMovzx : x86::Inst::kIdMovsx, R(d, gsz[size_t(d)] >= 4 && r.chance(70) ? 4 : 2 > w1 ? 2 : 4), R(a, w1))); break; }
      case 18: { int d = any(); int w = pw(gsz[size_t(d)]); if (r.chance(70)) E(cc.emit(x86::Inst::kIdMov, R(d, w), x86::ptr(p, int32_t(r.below(64) * 8), uint32_t(w)))); else { int x = atleast(4); if (x < 0) break; E(cc.emit(x86::Inst::kIdMov, R(d, w), x86::ptr(p, R(x, 4), 0, int32_t(r.below(4) * 64), uint32_t(w)))); } break; }
      case 19: { int a = any(); int w = pw(gsz[size_t(a)]); E(cc.emit(x86::Inst::kIdMov, x86::ptr(p, int32_t(512 + r.below(200) * 8), uint32_t(w)), R(a, w))); break; }
      case 20: { E(cc.emit(x86::Inst::kIdMovdqu, v[r.below(uint32_t(v.size()))], x86::ptr(p, int32_t(r.below(60) * 8), 16))); break; }
      case 21: { E(cc.emit(x86::Inst::kIdMovdqu, x86::ptr(p, int32_t(1024 + r.below(60) * 16), 16), v[r.below(uint32_t(v.size()))])); break; }
      case 22: case 23: { static const InstId vb[5] = {x86::Inst::kIdPaddd, x86::Inst::kIdPsubd, x86::Inst::kIdPxor, x86::Inst::kIdPand, x86::Inst::kIdPmuludq}; auto& d = v[r.below(uint32_t(v.size()))]; auto& a = v[r.below(uint32_t(v.size()))]; E(cc.emit(vb[r.below(5)], d, a)); break; }
      case 24: { auto& d = v[r.below(uint32_t(v.size()))]; auto& a = v[r.below(uint32_t(v.size()))]; E(cc.emit(x86::Inst::kIdMovdqa, d, a)); break; }
      case 25: { int x = atleast(4); if (x < 0) break; if (r.chance(50)) E(cc.emit(x86::Inst::kIdMovd, v[r.below(uint32_t(v.size()))], R(x, 4))); else E(cc.emit(x86::Inst::kIdMovd, R(x, 4), v[r.below(uint32_t(v.size()))])); break; }
      default: { // cdecl call through a register: every argument on the stack
        int t = atleast(4), d = atleast(4); if (t < 0) break; uint32_t na = r.below(7);
        FuncSignature sig(CallConvId::kCDecl); sig.set_ret_t<uint32_t>(); for (uint32_t q = 0; q < na; q++) sig.add_arg_t<uint32_t>();
        InvokeNode* inv = nullptr; E(cc.invoke(Out<InvokeNode*>(inv), R(t, 4), sig));
        if (inv) { for (uint32_t q = 0; q < na; q++) inv->set_arg(q, R(atleast(4), 4)); inv->set_ret(0, R(d, 4)); } break; }
    }
  }
  FuncNode* build(int ngp, int nvec, int nitems, int flowpct, int nargs, bool fastcall) {
    FuncSignature sig(fastcall ? CallConvId::kFastCall : CallConvId::kCDecl); sig.set_ret_t<uint32_t>(); sig.add_arg_t<uint32_t*>(); for (int q = 0; q < nargs; q++) sig.add_arg_t<uint32_t>();
    FuncNode* f = cc.add_func(sig);
    p = cc.new_gp32(); f->set_arg(0, p);
    static const int sizes[6] = {4, 4, 4, 2, 1, 4};
    for (int i = 0; i < ngp; i++) { int sz = sizes[r.below(6)]; g.push_back(sz == 1 ? cc.new_gp8() : sz == 2 ? cc.new_gp16() : cc.new_gp32()); gsz.push_back(sz); }
    for (int i = 0; i < nvec; i++) v.push_back(cc.new_xmm());
    int bound = 0;
    for (size_t i = 0; i < g.size(); i++) { if (gsz[i] == 4 && bound < nargs) { f->set_arg(uint32_t(++bound), g[i]); continue; } E(cc.emit(x86::Inst::kIdMov, g[i], x86::ptr(p, int32_t(r.below(64) * 8), uint32_t(gsz[i])))); }
    for (size_t i = 0; i < v.size(); i++) E(cc.emit(x86::Inst::kIdMovdqu, v[i], x86::ptr(p, int32_t(r.below(60) * 8), 16)));
    std::vector<Label> placed, pending;
    for (int n = 0; n < nitems; n++) {
      if (int(r.below(100)) < flowpct) {
        uint32_t y = r.below(10);
        if (y < 4) { Label l; if (!pending.empty() && r.chance(40)) l = pending[r.below(uint32_t(pending.size()))]; else { l = cc.new_label(); pending.push_back(l); } cmp_any(); E(cc.emit(kJcc[r.below(16)], l)); }
        else if (y < 7) { Label l; if (!pending.empty() && r.chance(75)) { uint32_t q = r.below(uint32_t(pending.size())); l = pending[q]; pending.erase(pending.begin() + q); } else l = cc.new_label(); E(cc.bind(l)); placed.push_back(l); }
        else if (y < 9) { if (placed.empty()) continue; cmp_any(); E(cc.emit(kJcc[r.below(16)], placed[r.below(uint32_t(placed.size()))])); }
        else { if (pending.empty()) continue; uint32_t q = r.below(uint32_t(pending.size())); Label l2 = pending[q]; pending.erase(pending.begin() + q);
          Label l; if (!pending.empty() && r.chance(40)) l = pending[r.below(uint32_t(pending.size()))]; else { l = cc.new_label(); pending.push_back(l); }
          E(cc.jmp(l)); E(cc.bind(l2)); placed.push_back(l2); }
      } else op();
    }
    for (auto& l : pending) E(cc.bind(l));
    uint32_t off = 2048; for (size_t i = 0; i < g.size(); i++) { E(cc.emit(x86::Inst::kIdMov, x86::ptr(p, int32_t(off), uint32_t(gsz[i])), g[i])); off += 8; }
    for (size_t i = 0; i < v.size(); i++) { E(cc.emit(x86::Inst::kIdMovdqu, x86::ptr(p, int32_t(off), 16), v[i])); off += 16; }
    int rv = atleast(4); x86::Gp ret = cc.new_gp32(); if (rv >= 0) E(cc.mov(ret, g[size_t(rv)])); else E(cc.mov(ret, Imm(0)));
    E(cc.ret(ret)); E(cc.end_func());
    return f;
  }
};

static void run_one_x32(uint64_t seed, uint64_t index, bool verbose) {
  Rng r(seed * 1000003ull + index + 0x320032ull);
  int cls = int(index % 5), ngp;
  switch (cls) { case 0: ngp = 1 + int(r.below(5)); break; case 1: ngp = 5 + int(r.below(4)); break; case 2: ngp = 7 + int(r.below(3)); break; case 3: ngp = 10 + int(r.below(20)); break; default: ngp = 30 + int(r.below(120)); break; }
  int nvec = r.chance(50) ? 0 : (r.chance(50) ? 1 + int(r.below(7)) : 7 + int(r.below(10)));
  int nargs = int(r.below(r.chance(30) ? 12 : 6)); bool fastcall = r.chance(40);
  /* with XMM values the 16-byte slots re-align the stack: stack arguments come through the SA register */
  bool fp = r.chance(20);    /* the function keeps ebp as frame pointer: stack arguments are addressed through it */
  printf("P %llu x86-32 ngp=%d nvec=%d nargs=%d %s fp=%d\n", (unsigned long long)index, ngp, nvec, nargs, fastcall ? "fastcall" : "cdecl", int(fp));
  Environment env(Arch::kX86); CodeHolder code; code.init(env);
  ErrH eh; code.set_error_handler(&eh);
  x86::Compiler cc(&code);
  X32Gen gen(r, cc); gen.calls = r.chance(50);
  FuncNode* func = gen.build(ngp, nvec, 5 + int(r.below(cls >= 3 ? 120 : 60)), r.below(4) == 0 ? 0 : int(r.below(35)), nargs, fastcall);
  if (fp && func) func->frame().set_preserved_fp();
  if (gen.err != Error::kOk || eh.err != Error::kOk) { printf("G emit-error %u %s\nE\n", unsigned(eh.err != Error::kOk ? eh.err : gen.err), eh.msg.c_str()); return; }
  Dumper D(cc, func);
  std::vector<PreNode> pre; std::map<BaseNode*, size_t> idx; DumpResult dr;
  dump_source(D, pre, idx, dr);
  Error e = cc.run_passes();
  if (e != Error::kOk) { printf("G ra-error %u %s\nE\n", unsigned(e), eh.msg.c_str()); return; }
  if (dr.ok) dump_target(D, pre, idx, dr);
  if (!dr.ok) printf("U %s\n", dr.why.c_str());
  else { for (auto& s : dr.S) printf("S %s\n", s.c_str()); if (D.sa_reg >= 0) printf("M %d %d\n", D.aw, D.sa_reg); if (D.fp_frame()) printf("F 0 %u\n", unsigned(x86::Gp::kIdBp)); for (auto& s : dr.T) { if (s[0] == '!') printf("%s\n", s.c_str() + 1); else printf("T %s\n", s.c_str()); } }
  if (verbose) { String sb; FormatOptions fo; for (BaseNode* n = cc.first_node(); n; n = n->next()) { sb.clear(); Formatter::format_node(sb, fo, &cc, n); printf("# %s\n", sb.data()); } }
  x86::Assembler as(&code);
  e = cc.serialize_to(&as);
  if (e != Error::kOk) printf("X serialize-error %u %s\n", unsigned(e), eh.msg.c_str()); else printf("X not-executed\n");
  printf("E\n");
}


// ---- "alu <seed> <mnemonic>...": executes every tagged mnemonic on the host CPU (register/register, same register, immediate
// forms; operand sizes 1/2/4/8 bytes, xmm/ymm/zmm, k) on boundary and random values and prints
// "A <inst id> <w> <form> <a> <b> <result> <mnemonic>" (hex, low w bytes): the driver compares with the extracted alu_sem.
typedef void (*AluFn)(const uint8_t*, const uint8_t*, uint8_t*);
static std::string hexle(const uint8_t* p, int w) { std::string s = "0x"; char b[4]; for (int i = w - 1; i >= 0; i--) { snprintf(b, sizeof b, "%02x", p[i]); s += b; } return s; }
static int alu_mode(uint64_t seed, int n, char** names) {
  Rng r(seed * 7919ull + 17);
  JitRuntime rt;
  bool avx512 = rt.cpu_features().x86().has_avx512_f() && rt.cpu_features().x86().has_avx512_bw() && rt.cpu_features().x86().has_avx512_vl();
  bool avx2 = rt.cpu_features().x86().has_avx2();
  for (int mi = 0; mi < n; mi++) {
    const char* m = names[mi]; InstId id = InstAPI::string_to_inst_id(Arch::kX64, m, strlen(m));
    if (id == 0) { printf("AX %s no-id\n", m); continue; }
    std::string nm = m;
    bool shift = nm == "shl" || nm == "shr" || nm == "sar" || nm == "rol" || nm == "ror";
    bool kop = nm[0] == 'k', vex = nm[0] == 'v', evex = vex && nm[nm.size() - 1] == 'd' && (nm == "vpxord" || nm == "vpandd" || nm == "vpord");
    bool sse = nm[0] == 'p';
    std::vector<int> widths; if (kop) widths = {8}; else if (sse) widths = {16}; else if (vex) { widths = {16, 32}; if (evex) widths.push_back(64); } else widths = {1, 2, 4, 8};
    if ((kop || evex) && !avx512) { printf("AX %s host-has-no-avx512\n", m); continue; }
    if (vex && !avx2) { printf("AX %s host-has-no-avx2\n", m); continue; }
    for (int w : widths) {
      // forms: 0 = two registers, 1 = the same register twice, 2.. = immediates (GP only)
      std::vector<int64_t> imms; if (!kop && !vex && !sse) { imms = {0, 1, -1, 0x7f}; if (w < 8 && !shift) imms.push_back(w == 1 ? 0xff : w == 2 ? 0xffff : 0xffffffffll); if (w >= 2 && !shift) imms.push_back(0x1234); if (shift) imms = {0, 1, 7}; }
      for (int form = 0; form < 2 + int(imms.size()); form++) {
        CodeHolder code; code.init(rt.environment(), rt.cpu_features()); ErrH eh; code.set_error_handler(&eh);
        x86::Assembler a(&code); using namespace x86;
        int64_t imm = form >= 2 ? imms[size_t(form - 2)] : 0;
        if (kop) { a.kmovq(k1, qword_ptr(rdi)); a.kmovq(k2, qword_ptr(rsi)); if (form == 0) a.emit(id, k3, k1, k2); else a.emit(id, k3, k1, k1); a.kmovq(qword_ptr(rdx), k3); }
        else if (sse) { a.movdqu(xmm0, xmmword_ptr(rdi)); a.movdqu(xmm1, xmmword_ptr(rsi)); if (form == 0) a.emit(id, xmm0, xmm1); else a.emit(id, xmm0, xmm0); a.movdqu(xmmword_ptr(rdx), xmm0); }
        else if (vex) {
          Vec v0 = w == 16 ? Vec(xmm0) : w == 32 ? Vec(ymm0) : Vec(zmm0), v1 = w == 16 ? Vec(xmm1) : w == 32 ? Vec(ymm1) : Vec(zmm1), v2 = w == 16 ? Vec(xmm2) : w == 32 ? Vec(ymm2) : Vec(zmm2);
          Mem ma = ptr(rdi), mb = ptr(rsi), mo = ptr(rdx); ma.set_size(uint32_t(w)); mb.set_size(uint32_t(w)); mo.set_size(uint32_t(w));
          if (w == 64) { a.vmovdqu64(v0, ma); a.vmovdqu64(v1, mb); } else { a.vmovdqu(v0, ma); a.vmovdqu(v1, mb); }
          if (form == 0) a.emit(id, v2, v0, v1); else a.emit(id, v2, v0, v0);
          if (w == 64) a.vmovdqu64(mo, v2); else a.vmovdqu(mo, v2);
          a.vzeroupper(); }
        else {
          Gp ra = w == 1 ? Gp(al) : w == 2 ? Gp(ax) : w == 4 ? Gp(eax) : Gp(rax), rc = w == 1 ? Gp(cl) : w == 2 ? Gp(cx) : w == 4 ? Gp(ecx) : Gp(rcx);
          a.mov(rax, qword_ptr(rdi)); a.mov(rcx, qword_ptr(rsi));
          if (form >= 2) a.emit(id, ra, Imm(imm)); else if (shift) { if (form == 1) { a.mov(rcx, rax); } a.emit(id, ra, cl); } else if (form == 0) a.emit(id, ra, rc); else a.emit(id, ra, ra);
          a.mov(qword_ptr(rdx), rax); }
        a.ret();
        AluFn fn = nullptr; Error e = eh.err; if (e == Error::kOk) e = rt.add(&fn, &code);
        if (e != Error::kOk || !fn) { printf("AX %s w=%d form=%d assemble-error %u %s\n", m, w, form, unsigned(e), eh.msg.c_str()); continue; }
        int lanes = w >= 16 ? w / 4 : 1, lw = w >= 16 ? 4 : w;
        auto boundary = [&](int k) -> uint64_t { uint64_t ones = lw == 8 ? ~0ull : ((1ull << (8 * lw)) - 1), sign = 1ull << (8 * lw - 1);
          switch (k % 8) { case 0: return 0; case 1: return 1; case 2: return ones; case 3: return sign; case 4: return sign - 1; case 5: return ones - 1; default: return r.next() & ones; } };
        int trials = w >= 16 ? 48 : 64;
        for (int t = 0; t < trials; t++) {
          alignas(64) uint8_t A[64], B[64], O[64]; memset(A, 0, 64); memset(B, 0, 64); memset(O, 0, 64);
          for (int l = 0; l < lanes; l++) {
            uint64_t x = w >= 16 ? boundary(int(r.below(8))) : boundary(t / 8), y = w >= 16 ? (r.below(3) == 0 ? x : boundary(int(r.below(8)))) : boundary(t % 8);
            memcpy(A + l * lw, &x, size_t(lw)); memcpy(B + l * lw, &y, size_t(lw)); }
          if (w < 8) { uint64_t g = r.next(); memcpy(A + w, &g, size_t(8 - w)); g = r.next(); memcpy(B + w, &g, size_t(8 - w)); }   // the bytes above the operand size must not matter
          if (shift && form == 0) { B[0] = uint8_t(t % 4 == 0 ? 0 : (t % 4 == 1 ? (w * 8) : B[0])); }
          fn(A, B, O);
          const uint8_t* bb = form == 1 ? A : B; uint8_t I[64]; if (form >= 2) { memset(I, imm < 0 ? 0xff : 0, 64); int64_t v = imm; memcpy(I, &v, 8); }
          // second operand as the model sees it: register value truncated to the operand (count register: cl), immediate as a signed number
          std::string bs; if (form >= 2) { char tmp[32]; snprintf(tmp, sizeof tmp, "%lld", (long long)imm); bs = tmp; } else bs = hexle(bb, shift ? 1 : w);
          printf("A %u %d %s %s %s %s %s\n", unsigned(id), w, form == 0 ? "rr" : form == 1 ? "same" : "imm", hexle(A, w).c_str(), bs.c_str(), hexle(O, w).c_str(), m);
        }
        rt.release(fn);
      }
    }
  }
  return 0;
}


// ---- "moves <seed>": every instruction form the dumper accepts as an inserted move / load / save / swap (target_move) is
// (1) described by target_move - the T line with width, keep flag and extension width the validator will believe - and
// (2) executed on the host CPU on random register and stack contents. Output: "V <T line> | <dst reg before> <src reg
// before> <stack window before> <dst after> <src after> <window after>" (little-endian images as hex numbers; GP/k
// registers 8 bytes, vector registers 64 bytes, window = [rsp, rsp+128)). The driver runs the extracted tstep on the T line
// and compares the whole register and the whole window.
typedef void (*MoveFn)(uint8_t*);
static int moves_mode(uint64_t seed) {
  Rng r(seed * 104729ull + 5);
  JitRuntime rt;
  bool avx = rt.cpu_features().x86().has_avx2(), avx512 = rt.cpu_features().x86().has_avx512_f() && rt.cpu_features().x86().has_avx512_bw() && rt.cpu_features().x86().has_avx512_vl();
  struct Form { InstId id; Operand o0, o1; int cls; };   // cls 0 GP, 1 vector, 2 mask
  std::vector<Form> forms; using namespace x86;
  auto M = [](uint32_t size, int32_t off) { Mem m = ptr(rsp, off); m.set_size(size); return m; };
  const Gp A[4] = {al, ax, eax, rax}, B[4] = {cl, cx, ecx, rcx}; const uint32_t W[4] = {1, 2, 4, 8};
  for (int k = 0; k < 4; k++) { forms.push_back({Inst::kIdMov, A[k], B[k], 0}); forms.push_back({Inst::kIdMov, A[k], M(W[k], 40), 0}); forms.push_back({Inst::kIdMov, M(W[k], 40), B[k], 0}); }
  forms.push_back({Inst::kIdMovzx, eax, cl, 0}); forms.push_back({Inst::kIdMovzx, eax, cx, 0}); forms.push_back({Inst::kIdMovzx, rax, cl, 0}); forms.push_back({Inst::kIdMovzx, rax, cx, 0});
  forms.push_back({Inst::kIdMovzx, eax, M(1, 40), 0}); forms.push_back({Inst::kIdMovzx, rax, M(2, 40), 0});
  forms.push_back({Inst::kIdXchg, rax, rcx, 0}); forms.push_back({Inst::kIdXchg, eax, ecx, 0}); forms.push_back({Inst::kIdXchg, rax, rax, 0});
  for (InstId id : {Inst::kIdMovdqa, Inst::kIdMovdqu, Inst::kIdMovaps, Inst::kIdMovups, Inst::kIdMovapd, Inst::kIdMovupd}) { forms.push_back({id, xmm0, xmm1, 1}); forms.push_back({id, xmm0, M(16, 64), 1}); forms.push_back({id, M(16, 64), xmm1, 1}); }
  if (avx) for (InstId id : {Inst::kIdVmovdqa, Inst::kIdVmovdqu, Inst::kIdVmovaps, Inst::kIdVmovups, Inst::kIdVmovapd, Inst::kIdVmovupd}) {
    forms.push_back({id, xmm0, xmm1, 1}); forms.push_back({id, xmm0, M(16, 64), 1}); forms.push_back({id, M(16, 64), xmm1, 1});
    forms.push_back({id, ymm0, ymm1, 1}); forms.push_back({id, ymm0, M(32, 64), 1}); forms.push_back({id, M(32, 64), ymm1, 1}); }
  if (avx512) { for (InstId id : {Inst::kIdVmovdqa32, Inst::kIdVmovdqu32, Inst::kIdVmovdqa64, Inst::kIdVmovdqu64}) {
      forms.push_back({id, xmm0, xmm1, 1}); forms.push_back({id, ymm0, M(32, 64), 1}); forms.push_back({id, M(32, 64), ymm1, 1});
      forms.push_back({id, zmm0, zmm1, 1}); forms.push_back({id, zmm0, M(64, 64), 1}); forms.push_back({id, M(64, 64), zmm1, 1}); }
    forms.push_back({Inst::kIdKmovq, k1, k2, 2}); forms.push_back({Inst::kIdKmovq, k1, M(8, 40), 2}); forms.push_back({Inst::kIdKmovq, M(8, 40), k2, 2}); }
  // a function node to hang the Dumper on (no stack arguments, no frame pointer)
  CodeHolder dcode; dcode.init(rt.environment(), rt.cpu_features()); x86::Compiler dcc(&dcode); FuncNode* df = dcc.add_func(FuncSignature::build<void>());
  Dumper D(dcc, df);
  for (size_t fi = 0; fi < forms.size(); fi++) {
    const Form& f = forms[fi];
    InstNode* node = nullptr; if (dcc.new_inst_node(Out<InstNode*>(node), f.id, InstOptions::kNone, 2) != Error::kOk || !node) { printf("VX form %zu no-node\n", fi); continue; }
    node->set_op(0, f.o0); node->set_op(1, f.o1);
    std::string tline; String sb; Formatter::format_node(sb, FormatOptions(), &dcc, node); std::string txt = sb.data(); std::replace(txt.begin(), txt.end(), ' ', '_');
    if (!target_move(D, node, tline)) { printf("VX %s not-accepted-by-target_move\n", txt.c_str()); continue; }
    CodeHolder code; code.init(rt.environment(), rt.cpu_features()); ErrH eh; code.set_error_handler(&eh); x86::Assembler a(&code);
    a.mov(r9, rsp); a.and_(rsp, -64); a.sub(rsp, 128);
    for (int j = 0; j < 16; j++) { a.mov(r8, qword_ptr(rdi, 128 + 8 * j)); a.mov(qword_ptr(rsp, 8 * j), r8); }
    if (f.cls == 0) { a.mov(rax, qword_ptr(rdi)); a.mov(rcx, qword_ptr(rdi, 64)); }
    else if (f.cls == 1) { if (avx512) { a.vmovdqu64(zmm0, zmmword_ptr(rdi)); a.vmovdqu64(zmm1, zmmword_ptr(rdi, 64)); } else if (avx) { a.vmovdqu(ymm0, ymmword_ptr(rdi)); a.vmovdqu(ymm1, ymmword_ptr(rdi, 64)); } else { a.movdqu(xmm0, xmmword_ptr(rdi)); a.movdqu(xmm1, xmmword_ptr(rdi, 64)); } }
    else { a.kmovq(k1, qword_ptr(rdi)); a.kmovq(k2, qword_ptr(rdi, 64)); }
    a.emit(f.id, f.o0, f.o1);
    if (f.cls == 0) { a.mov(qword_ptr(rdi), rax); a.mov(qword_ptr(rdi, 64), rcx); }
    else if (f.cls == 1) { if (avx512) { a.vmovdqu64(zmmword_ptr(rdi), zmm0); a.vmovdqu64(zmmword_ptr(rdi, 64), zmm1); } else if (avx) { a.vmovdqu(ymmword_ptr(rdi), ymm0); a.vmovdqu(ymmword_ptr(rdi, 64), ymm1); } else { a.movdqu(xmmword_ptr(rdi), xmm0); a.movdqu(xmmword_ptr(rdi, 64), xmm1); } }
    else { a.kmovq(qword_ptr(rdi), k1); a.kmovq(qword_ptr(rdi, 64), k2); }
    for (int j = 0; j < 16; j++) { a.mov(r8, qword_ptr(rsp, 8 * j)); a.mov(qword_ptr(rdi, 128 + 8 * j), r8); }
    a.mov(rsp, r9); if (avx) a.vzeroupper(); a.ret();
    MoveFn fn = nullptr; Error e = eh.err; if (e == Error::kOk) e = rt.add(&fn, &code);
    if (e != Error::kOk || !fn) { printf("VX %s assemble-error %u %s\n", txt.c_str(), unsigned(e), eh.msg.c_str()); continue; }
    int regbytes = f.cls == 1 ? (avx512 ? 64 : avx ? 32 : 16) : 8;
    for (int t = 0; t < 6; t++) {
      alignas(64) uint8_t st[256]; for (int j = 0; j < 256; j++) st[j] = uint8_t(t == 0 ? 0xFF : r.next());
      memset(st + regbytes, 0, size_t(64 - regbytes)); memset(st + 64 + regbytes, 0, size_t(64 - regbytes));
      uint8_t before[256]; memcpy(before, st, 256);
      fn(st);
      printf("V %s | %s %s %s %s %s %s %s\n", tline.c_str(), hexle(before, 64).c_str(), hexle(before + 64, 64).c_str(), hexle(before + 128, 128).c_str(),
             hexle(st, 64).c_str(), hexle(st + 64, 64).c_str(), hexle(st + 128, 128).c_str(), txt.c_str());
    }
    rt.release(fn);
  }
  return 0;
}

int main(int argc, char** argv) {
  if (argc >= 4 && !strcmp(argv[1], "probe")) { g_features = 255; run_one(1, 0, atoi(argv[3]), argc > 4 && atoi(argv[4]) != 0, argv[2]); return 0; }
  if (argc >= 4 && !strcmp(argv[1], "jt7")) { g_jt_mode = 7; g_features = 127; for (uint64_t i = 0; i < strtoull(argv[2], nullptr, 10); i++) { run_one(424242, i, atoi(argv[3]), false); fflush(stdout); } return 0; }
  if (getenv("C05_JT_SHARE")) g_jt_mode = atoi(getenv("C05_JT_SHARE"));
  if (argc >= 2 && !strcmp(argv[1], "tags")) {       // "<mnemonic> <instruction id> <name of that id>" for every mnemonic given (x86)
    for (int i = 2; i < argc; i++) { InstId id = InstAPI::string_to_inst_id(Arch::kX64, argv[i], strlen(argv[i])); String nm; InstAPI::inst_id_to_string(Arch::kX64, id, InstStringifyOptions::kNone, nm);
      printf("%s %u %s\n", argv[i], unsigned(id), nm.data()); }
    return 0; }
  if (argc >= 3 && !strcmp(argv[1], "moves")) return moves_mode(strtoull(argv[2], nullptr, 10));
  if (argc >= 4 && !strcmp(argv[1], "alu")) return alu_mode(strtoull(argv[2], nullptr, 10), argc - 3, argv + 3);
  if (argc >= 6 && !strcmp(argv[1], "skel")) { g_skel = true; g_features = 1023; uint64_t sd = strtoull(argv[2], nullptr, 10), fi = strtoull(argv[3], nullptr, 10), cn = strtoull(argv[4], nullptr, 10);
    for (uint64_t i = fi; i < fi + cn; i++) { run_one(sd, i, atoi(argv[5]), argc > 6 && atoi(argv[6]) != 0); fflush(stdout); } return 0; }
  if (argc >= 5 && !strcmp(argv[1], "x32")) { uint64_t sd = strtoull(argv[2], nullptr, 10), fi = strtoull(argv[3], nullptr, 10), cn = strtoull(argv[4], nullptr, 10);
    for (uint64_t i = fi; i < fi + cn; i++) { run_one_x32(sd, i, argc > 5 && atoi(argv[5]) != 0); fflush(stdout); } return 0; }
  if (argc >= 5 && !strcmp(argv[1], "a64")) { uint64_t sd = strtoull(argv[2], nullptr, 10), fi = strtoull(argv[3], nullptr, 10), cn = strtoull(argv[4], nullptr, 10);
    if (argc > 6) g_a64_lists = atoi(argv[6]) != 0;     // register lists (ld1/st1 with 2..4 registers) on/off
    for (uint64_t i = fi; i < fi + cn; i++) { run_one_a64(sd, i, argc > 5 && atoi(argv[5]) != 0); fflush(stdout); } return 0; }
  if (argc < 6) { fprintf(stderr, "usage: %s seed first count inputs features [verbose] | probe <name> <inputs> [verbose]\n", argv[0]); return 2; }
  uint64_t seed = strtoull(argv[1], nullptr, 10), first = strtoull(argv[2], nullptr, 10), count = strtoull(argv[3], nullptr, 10);
  int inputs = atoi(argv[4]); g_features = unsigned(atoi(argv[5])); bool verbose = argc > 6 && atoi(argv[6]) != 0;
  for (uint64_t i = first; i < first + count; i++) { run_one(seed, i, inputs, verbose); fflush(stdout); }
  return 0;
}

// C03/C04 harness: line-protocol driver around the REAL x86/x64/AArch64 assemblers and CodeHolder of /repo's working tree.
// One output line per input line.  See tools/checks/c03.py for the generator and the meaning of every field.
#include <cstdio>
#include <cstdlib>
#include <cstring>
#include <cstdint>
#include <string>
#include <vector>
#include <sstream>
#include <iostream>
#include <memory>

#include <asmjit/core.h>
#include <asmjit/x86.h>
#include <asmjit/a64.h>

using namespace asmjit;

static const char* err_name(Error e, std::string& tmp) {
  switch (e) {
    case Error::kOk: return "ok";
    case Error::kInvalidLabel: return "invalid_label";
    case Error::kLabelAlreadyBound: return "already_bound";
    case Error::kInvalidDisplacement: return "invalid_disp";
    case Error::kInvalidSection: return "invalid_section";
    case Error::kInvalidOperandSize: return "invalid_size";
    case Error::kInvalidArgument: return "invalid_arg";
    case Error::kInvalidInstruction: return "invalid_inst";
    case Error::kInvalidAddress: return "invalid_addr";
    case Error::kInvalidAddress64Bit: return "invalid_addr64";
    case Error::kInvalidRelocEntry: return "invalid_reloc";
    case Error::kRelocOffsetOutOfRange: return "reloc_range";
    case Error::kExpressionLabelNotBound: return "expr_unbound";
    default: tmp = "other" + std::to_string(uint32_t(e)); return tmp.c_str();
  }
}

static void hex_append(std::string& out, const uint8_t* p, size_t n) {
  static const char d[] = "0123456789abcdef";
  size_t o = out.size();
  out.resize(o + 2 * n);
  for (size_t i = 0; i < n; i++) { out[o + 2 * i] = d[p[i] >> 4]; out[o + 2 * i + 1] = d[p[i] & 15]; }
}

struct Prog {
  CodeHolder code;
  std::unique_ptr<x86::Assembler> xa;
  std::unique_ptr<a64::Assembler> aa;
  BaseAssembler* a = nullptr;
  Arch arch = Arch::kUnknown;
  uint32_t n_labels = 0;
  std::vector<std::vector<std::pair<size_t, size_t>>> gaps;  // per section: (offset, length)
  std::vector<uint32_t> user_secs;   // S/V address sections by creation index: 0 = .text, k = k-th NS (ids differ once .addrtab exists)
};

static std::unique_ptr<Prog> P;

static Label mk_label(long id) { Label l; l.set_id(uint32_t(id)); return l; }

static x86::Gp xreg(const Prog& p, long r) {
  return p.arch == Arch::kX64 ? x86::Gp(x86::gpq(uint32_t(r & 15))) : x86::Gp(x86::gpd(uint32_t(r & 7)));
}

static const x86::CondCode x86_cc[16] = {
  x86::CondCode::kO, x86::CondCode::kNO, x86::CondCode::kB, x86::CondCode::kAE, x86::CondCode::kE, x86::CondCode::kNE,
  x86::CondCode::kBE, x86::CondCode::kA, x86::CondCode::kS, x86::CondCode::kNS, x86::CondCode::kP, x86::CondCode::kNP,
  x86::CondCode::kL, x86::CondCode::kGE, x86::CondCode::kLE, x86::CondCode::kG };

static const a64::CondCode a64_cc[14] = {
  a64::CondCode::kEQ, a64::CondCode::kNE, a64::CondCode::kCS, a64::CondCode::kCC, a64::CondCode::kMI, a64::CondCode::kPL,
  a64::CondCode::kVS, a64::CondCode::kVC, a64::CondCode::kHI, a64::CondCode::kLS, a64::CondCode::kGE, a64::CondCode::kLT,
  a64::CondCode::kGT, a64::CondCode::kLE };

static Error do_ref(Prog& p, const std::vector<std::string>& t, long& label_out) {
  const std::string& ins = t[1];
  auto num = [&](size_t i) -> long long { return i < t.size() ? std::stoll(t[i]) : 0; };
  if (p.xa) {
    x86::Assembler& a = *p.xa;
    auto opt = [&](long o) { if (o == 1) a.short_(); else if (o == 2) a.long_(); };
    if (ins == "jmp")    { label_out = num(2); opt(num(3)); return a.jmp(mk_label(num(2))); }
    if (ins == "jcc")    { label_out = num(3); opt(num(4)); return a.j(x86_cc[num(2) & 15], mk_label(num(3))); }
    if (ins == "call")   { label_out = num(2); return a.call(mk_label(num(2))); }
    if (ins == "jecxz")  { label_out = num(2); return a.jecxz(x86::ecx, mk_label(num(2))); }
    if (ins == "loop")   { label_out = num(2); return p.arch == Arch::kX64 ? a.loop(x86::rcx, mk_label(num(2))) : a.loop(x86::ecx, mk_label(num(2))); }
    if (ins == "lea")    { label_out = num(3); return a.lea(xreg(p, num(2)), x86::ptr(mk_label(num(3)), int32_t(num(4)))); }
    if (ins == "movload"){ label_out = num(3); return a.mov(xreg(p, num(2)), x86::ptr(mk_label(num(3)), int32_t(num(4)))); }
    if (ins == "movmi")  {
      label_out = num(2);
      x86::Mem m = x86::ptr(mk_label(num(2)), int32_t(num(3)), uint32_t(num(4)));
      return a.mov(m, Imm(int64_t(num(5))));
    }
    if (ins == "addmi8") { label_out = num(2); return a.add(x86::dword_ptr(mk_label(num(2)), int32_t(num(3))), Imm(int64_t(num(4)))); }
    // absolute memory operands (C04): R abs<op> ... <addr> <hint 0 default|1 rel|2 abs>
    if (ins.compare(0, 3, "abs") == 0) {
      auto M = [&](size_t addr_idx, uint32_t size) {
        x86::Mem m = x86::ptr(uint64_t(std::stoull(t.at(addr_idx))), size);
        long h = long(num(addr_idx + 1));
        if (h == 1) m.set_addr_rel(); else if (h == 2) m.set_addr_abs();
        return m;
      };
      auto R = [&](long r, long size) -> x86::Gp {
        uint32_t id = uint32_t(r) & (p.arch == Arch::kX64 ? 15u : 7u);
        if (size == 8 && p.arch == Arch::kX64) return x86::Gp(x86::gpq(id));
        if (size == 2) return x86::Gp(x86::gpw(id));
        if (size == 1) return x86::Gp(x86::gpb_lo(p.arch == Arch::kX64 ? id : (id & 3u)));
        return x86::Gp(x86::gpd(id));
      };
      if (ins == "absload")  return a.mov(R(num(2), num(3)), M(4, uint32_t(num(3))));          // R absload <reg> <size> <addr> <hint>
      if (ins == "absstore") return a.mov(M(4, uint32_t(num(3))), R(num(2), num(3)));          // R absstore <reg> <size> <addr> <hint>
      if (ins == "abslea")   return a.lea(R(num(2), num(3)), M(4, 0));                         // R abslea <reg> <size 4|8> <addr> <hint>
      if (ins == "absmi")    return a.mov(M(4, uint32_t(num(2))), Imm(int64_t(num(3))));       // R absmi <size> <imm> <addr> <hint>
      if (ins == "absaddi8") return a.add(M(4, uint32_t(num(2))), Imm(int64_t(num(3))));       // R absaddi8 <size 2|4|8> <imm8> <addr> <hint>
      if (ins == "abstesti") return a.test(M(4, uint32_t(num(2))), Imm(int64_t(num(3))));      // R abstesti <size> <imm> <addr> <hint>
      if (ins == "absimuli") return a.imul(R(num(2), 4), M(4, 4), Imm(int64_t(num(3))));       // R absimuli <reg> <imm> <addr> <hint>
      return Error::kInvalidArgument;
    }
    // absolute targets (C04)
    if (ins == "calli")  return a.call(Imm(int64_t(std::stoull(t.at(2)))));
    if (ins == "jmpi")   return a.jmp(Imm(int64_t(std::stoull(t.at(2)))));
    if (ins == "jcci")   return a.j(x86_cc[num(2) & 15], Imm(int64_t(std::stoull(t.at(3)))));
    return Error::kInvalidArgument;
  }
  else {
    a64::Assembler& a = *p.aa;
    if (ins == "b")     { label_out = num(2); return a.b(mk_label(num(2))); }
    if (ins == "bl")    { label_out = num(2); return a.bl(mk_label(num(2))); }
    if (ins == "bcond") { label_out = num(3); return a.b(a64_cc[num(2) % 14], mk_label(num(3))); }
    if (ins == "cbz" || ins == "cbnz") {
      label_out = num(4);
      a64::Gp r = num(2) ? a64::Gp(a64::x(uint32_t(num(3) % 31))) : a64::Gp(a64::w(uint32_t(num(3) % 31)));
      return ins == "cbz" ? a.cbz(r, mk_label(num(4))) : a.cbnz(r, mk_label(num(4)));
    }
    if (ins == "tbz" || ins == "tbnz") {
      label_out = num(4);
      long bit = long(num(3)) & 63;
      a64::Gp r = bit >= 32 ? a64::Gp(a64::x(uint32_t(num(2) % 31))) : a64::Gp(a64::w(uint32_t(num(2) % 31)));
      return ins == "tbz" ? a.tbz(r, Imm(bit), mk_label(num(4))) : a.tbnz(r, Imm(bit), mk_label(num(4)));
    }
    if (ins == "adr")   { label_out = num(3); return a.adr(a64::x(uint32_t(num(2) % 31)), mk_label(num(3))); }
    if (ins == "adrp")  { label_out = num(3); return a.adrp(a64::x(uint32_t(num(2) % 31)), mk_label(num(3))); }
    if (ins == "ldr")   {
      label_out = num(4);
      a64::Gp r = num(2) ? a64::Gp(a64::x(uint32_t(num(3) % 31))) : a64::Gp(a64::w(uint32_t(num(3) % 31)));
      return a.ldr(r, a64::ptr(mk_label(num(4)), int32_t(num(5))));
    }
    if (ins == "ldrsw") { label_out = num(3); return a.ldrsw(a64::x(uint32_t(num(2) % 31)), a64::ptr(mk_label(num(3)), int32_t(num(4)))); }
    if (ins == "prfm")  { label_out = num(3); return a.prfm(Imm(int64_t(num(2) & 31)), a64::ptr(mk_label(num(3)), int32_t(num(4)))); }
    if (ins == "bi")    return a.b(Imm(int64_t(std::stoull(t.at(2)))));
    if (ins == "bli")   return a.bl(Imm(int64_t(std::stoull(t.at(2)))));
    if (ins == "bcondi") return a.b(a64_cc[num(2) % 14], Imm(int64_t(std::stoull(t.at(3)))));
    if (ins == "adri")  return a.adr(a64::x(uint32_t(num(2) % 31)), Imm(int64_t(std::stoull(t.at(3)))));
    if (ins == "adrpi") return a.adrp(a64::x(uint32_t(num(2) % 31)), Imm(int64_t(std::stoull(t.at(3)))));
    if (ins == "ldrv")  {
      label_out = num(4);
      uint32_t id = uint32_t(num(3) & 31);
      a64::Vec v = num(2) == 4 ? a64::Vec(a64::s(id)) : num(2) == 8 ? a64::Vec(a64::d(id)) : a64::Vec(a64::q(id));
      return a.ldr(v, a64::ptr(mk_label(num(4)), int32_t(num(5))));
    }
    return Error::kInvalidArgument;
  }
}

static std::string fx_desc(Prog& p, long label_id) {
  Fixup* f = nullptr;
  if (label_id >= 0 && uint32_t(label_id) < p.code.label_count()) {
    LabelEntry& le = p.code.label_entry_of(uint32_t(label_id));
    f = le.is_bound() ? p.code._fixups : le._get_fixups();
  }
  if (!f) return "?";
  char buf[256];
  snprintf(buf, sizeof buf, "%u,%u,%u,%u,%u,%u,%u,%llu,%lld,%d", unsigned(f->format.type()), f->format.value_size(),
           f->format.imm_bit_count(), f->format.imm_bit_shift(), f->format.imm_discard_lsb(), f->format.value_offset(),
           f->format.region_size(), (unsigned long long)f->offset, (long long)f->rel, int(f->label_or_reloc_id));
  return buf;
}

static void dump(Prog& p, std::string& out, bool ext) {
  std::string tmp;
  out += "E " + std::to_string(p.code.unresolved_fixup_count());
  uint32_t ns = uint32_t(p.code.section_count());
  for (uint32_t i = 0; i < ns; i++) {
    Section* s = p.code.section_by_id(i);
    size_t size = s->buffer_size();
    out += " | SEC " + std::to_string(i) + " " + std::to_string((unsigned long long)s->offset()) + " " + std::to_string(size) + " ";
    if (!size) { out += "-"; continue; }
    const uint8_t* d = s->data();
    size_t pos = 0; bool first = true;
    const auto& g = i < p.gaps.size() ? p.gaps[i] : std::vector<std::pair<size_t, size_t>>();
    for (size_t k = 0; k <= g.size(); k++) {
      size_t end = k < g.size() ? g[k].first : size;
      if (end > size) end = size;
      if (end > pos) { if (!first) out += ","; first = false; hex_append(out, d + pos, end - pos); pos = end; }
      if (k < g.size() && g[k].first + g[k].second <= size && g[k].second) {
        if (!first) out += ","; first = false; out += "Z" + std::to_string(g[k].second); pos = g[k].first + g[k].second;
      }
    }
  }
  for (uint32_t i = 0; i < p.code.label_count(); i++) {
    LabelEntry& le = p.code.label_entry_of(i);
    out += " | LAB " + std::to_string(i) + " ";
    if (le.is_bound()) out += std::to_string(le.section_id()) + ":" + std::to_string((unsigned long long)le.offset());
    else out += "u";
  }
  for (RelocEntry* re : p.code.reloc_entries()) {
    out += " | REL " + std::to_string(re->id()) + " " + std::to_string(uint32_t(re->reloc_type())) + " " +
           std::to_string(int(re->source_section_id())) + " " + std::to_string((unsigned long long)re->source_offset()) + " " +
           std::to_string(re->format().value_offset()) + " " + std::to_string(re->format().value_size()) + " " +
           std::to_string(re->format().region_size()) + " ";
    if (re->reloc_type() == RelocType::kExpression) {
      Expression* e = (Expression*)(uintptr_t(re->payload()));
      long l0 = e->value_type[0] == ExpressionValueType::kLabel ? long(e->value[0].label_id) : -1;
      long l1 = e->value_type[1] == ExpressionValueType::kLabel ? long(e->value[1].label_id) : -1;
      out += "expr:" + std::to_string(uint32_t(e->op_type)) + ":" + std::to_string(l0) + ":" + std::to_string(l1);
    }
    else out += std::to_string((unsigned long long)re->payload());
    out += " ";
    out += re->target_section_id() == Globals::kInvalidId ? std::string("-") : std::to_string(re->target_section_id());
    if (ext) {
      out += " " + std::to_string(uint32_t(re->format().type())) + " " + std::to_string(re->format().imm_bit_count()) + " " +
             std::to_string(re->format().imm_bit_shift()) + " " + std::to_string(re->format().imm_discard_lsb());
    }
  }
  if (ext) {
    Section* at = p.code._address_table_section;
    out += " | AT ";
    if (!at) out += "- 0 0";
    else out += std::to_string(at->section_id()) + " " + std::to_string((unsigned long long)at->virtual_size()) + " " +
                std::to_string(int(p.code._sections_by_order.last() == at));
    out += " | ORDER";
    for (Section* s : p.code._sections_by_order) out += " " + std::to_string(s->section_id());
    out += " | VS";
    for (uint32_t i = 0; i < ns; i++) out += " " + std::to_string((unsigned long long)p.code.section_by_id(i)->virtual_size());
  }
}

int main() {
  std::ios::sync_with_stdio(false);
  std::string line, out, tmp;
  out.reserve(1 << 20);
  while (std::getline(std::cin, line)) {
    std::vector<std::string> t;
    { std::istringstream is(line); std::string w; while (is >> w) t.push_back(w); }
    if (t.empty()) { out += "BAD\n"; continue; }
    const std::string& tag = t[0];
    try {
      if (tag == "P") {
        if (t.size() < 2) { out += "BAD\n"; continue; }
        P.reset(new Prog());
        Prog& p = *P;
        p.arch = t[1] == "x64" ? Arch::kX64 : t[1] == "x86" ? Arch::kX86 : t[1] == "a64" ? Arch::kAArch64 : Arch::kUnknown;
        if (p.arch == Arch::kUnknown) { P.reset(); out += "BAD\n"; continue; }
        Environment env(p.arch);
        uint64_t base = t.size() > 2 ? std::stoull(t[2]) : Globals::kNoBaseAddress;
        Error e = p.code.init(env, base);
        if (p.arch == Arch::kAArch64) { p.aa.reset(new a64::Assembler()); p.a = p.aa.get(); }
        else { p.xa.reset(new x86::Assembler()); p.a = p.xa.get(); }
        Error e2 = p.code.attach(p.a);
        p.gaps.assign(1, {});
        p.user_secs.assign(1, 0u);
        out += (e == Error::kOk && e2 == Error::kOk) ? "P ok\n" : "P fail\n";
        continue;
      }
      if (!P) { out += "BAD\n"; continue; }
      Prog& p = *P;
      BaseAssembler& a = *p.a;
      auto num = [&](size_t i) -> long long { return std::stoll(t.at(i)); };
      if (tag == "F") {
        Error e1 = p.code.flatten();
        Error e2 = p.code.resolve_cross_section_fixups();
        out += "F "; out += err_name(e1, tmp); out += " "; out += err_name(e2, tmp);
        out += " " + std::to_string(p.code.unresolved_fixup_count()) + " ";
        for (uint32_t i = 0; i < p.code.section_count(); i++) {
          if (i) out += ",";
          out += std::to_string((unsigned long long)p.code.section_by_id(i)->offset());
        }
        out += "\n";
        continue;
      }
      if (tag == "E") { dump(p, out, false); out += "\n"; continue; }
      if (tag == "EX") { dump(p, out, true); out += "\n"; continue; }
      if (tag == "RB") {
        CodeHolder::RelocationSummary sum; sum.code_size_reduction = 0;
        Error e = p.code.relocate_to_base(uint64_t(std::stoull(t.at(1))), &sum);
        out += "RB "; out += err_name(e, tmp); out += " " + std::to_string(sum.code_size_reduction) + " " + std::to_string(p.code.code_size()) + "\n";
        continue;
      }
      if (tag == "CF") {
        // copy_flattened_data into a buffer of code_size() bytes (padding flags), print it
        size_t n = p.code.code_size();
        if (n > (size_t(1) << 24)) { out += "CF toolarge\n"; continue; }
        std::vector<uint8_t> buf(n, 0xCC);
        Error e = p.code.copy_flattened_data(buf.data(), n, CopySectionFlags::kPadSectionBuffer | CopySectionFlags::kPadTargetBuffer);
        out += "CF "; out += err_name(e, tmp); out += " " + std::to_string(n) + " ";
        if (n) hex_append(out, buf.data(), n); else out += "-";
        out += "\n";
        continue;
      }
      if (tag == "JIT") {
        JitRuntime rt;
        void* ptr = nullptr;
        Error e = rt._add(&ptr, &p.code);
        out += "JIT "; out += err_name(e, tmp);
        if (e == Error::kOk && ptr) {
          size_t n = p.code.code_size();
          out += " " + std::to_string((unsigned long long)(uintptr_t)ptr) + " " + std::to_string(n) + " ";
          if (n && n < (size_t(1) << 24)) hex_append(out, (const uint8_t*)ptr, n); else out += "-";
          rt.release(ptr);
        }
        else out += " 0 0 -";
        out += "\n";
        continue;
      }

      uint32_t sec_before = a._section->section_id();
      size_t size_before = a.offset();
      size_t unres_before = p.code.unresolved_fixup_count();
      long ref_label = -1;
      bool is_gap = false;
      long new_sec = -1;
      Error e = Error::kOk;

      if (tag == "NS") {
        Section* s = nullptr;
        std::string name = ".s" + std::to_string(p.code.section_count());
        e = p.code.new_section(Out<Section*>(s), name.c_str(), SIZE_MAX, SectionFlags::kNone, uint32_t(num(1)), t.size() > 2 ? int32_t(num(2)) : 0);
        p.gaps.resize(p.code.section_count());
        if (e == Error::kOk && s) { p.user_secs.push_back(s->section_id()); new_sec = long(s->section_id()); }
      }
      else if (tag == "S") {
        long k = long(num(1));
        if (k < 0 || size_t(k) >= p.user_secs.size()) e = Error::kInvalidSection;
        else e = a.section(p.code.section_by_id(p.user_secs[size_t(k)]));
      }
      else if (tag == "L") { Label l = a.new_label(); e = l.is_valid() ? Error::kOk : Error::kOutOfMemory; p.n_labels++; }
      else if (tag == "B") e = a.bind(mk_label(num(1)));
      else if (tag == "D") {
        size_t n = size_t(num(1)); uint32_t seed = uint32_t(num(2));
        std::vector<uint8_t> b(n);
        for (size_t i = 0; i < n; i++) b[i] = uint8_t(((seed * 2654435761u + uint32_t(i) * 40503u) >> 7) & 0xFF);
        e = a.embed(b.data(), n);
      }
      else if (tag == "G") {
        uint8_t zero = 0; size_t n = size_t(num(1));
        e = a.embed_data_array(TypeId::kUInt8, &zero, 1, n);
        if (p.gaps.size() < p.code.section_count()) p.gaps.resize(p.code.section_count());
        if (e == Error::kOk && n) { p.gaps[sec_before].push_back({size_before, n}); is_gap = true; }
      }
      else if (tag == "A") e = a.align(AlignMode(uint32_t(num(1))), uint32_t(num(2)));
      else if (tag == "V") {
        long k = long(num(1));
        if (k < 0 || size_t(k) >= p.user_secs.size()) e = Error::kInvalidSection;
        else p.code.section_by_id(p.user_secs[size_t(k)])->_virtual_size = uint64_t(std::stoull(t.at(2)));
      }
      else if (tag == "EL") { ref_label = long(num(1)); e = a.embed_label(mk_label(num(1)), size_t(num(2))); }
      else if (tag == "ED") e = a.embed_label_delta(mk_label(num(1)), mk_label(num(2)), size_t(num(3)));
      else if (tag == "R") { if (t.size() < 3) { out += "BAD\n"; continue; } e = do_ref(p, t, ref_label); }
      else { out += "BAD\n"; continue; }

      uint32_t sec_after = a._section->section_id();
      size_t size_after = a.offset();
      out += tag; out += " "; out += err_name(e, tmp);
      out += " " + std::to_string(sec_after) + " " + std::to_string(size_after) + " " + std::to_string(p.code.unresolved_fixup_count()) + " ";
      if (new_sec >= 0) out += "#" + std::to_string(new_sec);
      else if (is_gap) out += "Z" + std::to_string(size_after - size_before);
      else if (sec_after == sec_before && size_after > size_before) hex_append(out, a._section->data() + size_before, size_after - size_before);
      else out += "-";
      out += " ";
      if (p.code.unresolved_fixup_count() > unres_before) out += fx_desc(p, ref_label); else out += "-";
      out += "\n";
    }
    catch (...) { out += "BAD\n"; }
    if (out.size() > (1 << 19)) { fwrite(out.data(), 1, out.size(), stdout); out.clear(); }
  }
  fwrite(out.data(), 1, out.size(), stdout);
  return 0;
}

// C13 translator (C++ half): prints the generated tables of /repo's working tree that drive the name <-> id lookup and
// the x86 validator. The instdb .cpp files are #included so that sizeof() of the file-scope arrays is known and the
// arrays printed are the ones of the working tree (the archive members are then not pulled in).
// Output: one record per line, `<key> <values...>`, consumed by tools/c13_gen.py (-> coq/gen/*.v) and by the python oracle.
#include <cstdio>
#include <cstdint>
#include <cstring>
#include <asmjit/core.h>
#include <asmjit/x86.h>
#include <asmjit/a64.h>
#include <asmjit/x86/x86instdb.cpp>
#include <asmjit/x86/x86instapi.cpp>
#include <asmjit/arm/a64instdb.cpp>

using namespace asmjit;

template<typename T, size_t N> static constexpr size_t countof(const T (&)[N]) { return N; }

static void dump_bytes(const char* key, const char* p, size_t n) {
  printf("%s %zu", key, n);
  for (size_t i = 0; i < n; i++) printf(" %u", unsigned(uint8_t(p[i])));
  printf("\n");
}
static void dump_u32(const char* key, const uint32_t* p, size_t n) {
  printf("%s %zu", key, n);
  for (size_t i = 0; i < n; i++) printf(" %u", p[i]);
  printf("\n");
}
static void dump_index(const char* key, const InstNameIndex& ix) {
  printf("%s 26", key);
  for (int i = 0; i < 26; i++) printf(" %u %u", unsigned(ix.data[i].start), unsigned(ix.data[i].end));
  printf("\n");
}

int main() {
  // ---------------------------------------------------------------- x86 names
  {
    using namespace x86;
    printf("x86.count 1 %u\n", unsigned(Inst::_kIdCount));
    printf("x86.maxlen 1 %u\n", unsigned(InstDB::_inst_name_index.max_name_length));
    dump_index("x86.index", InstDB::_inst_name_index);
    dump_bytes("x86.strtab", InstDB::_inst_name_string_table, sizeof(InstDB::_inst_name_string_table));
    dump_u32("x86.names", InstDB::_inst_name_index_table, countof(InstDB::_inst_name_index_table));
    printf("x86.alias_count 1 %u\n", unsigned(InstDB::kAliasTableSize));
    dump_bytes("x86.alias_strtab", InstDB::alias_name_string_table, sizeof(InstDB::alias_name_string_table));
    dump_u32("x86.alias_names", InstDB::alias_name_index_table, countof(InstDB::alias_name_index_table));
    dump_u32("x86.alias_ids", InstDB::alias_index_to_inst_id_table, countof(InstDB::alias_index_to_inst_id_table));
  }
  // ---------------------------------------------------------------- a64 names
  {
    using namespace a64;
    printf("a64.count 1 %u\n", unsigned(Inst::_kIdCount));
    printf("a64.maxlen 1 %u\n", unsigned(InstDB::_inst_name_index.max_name_length));
    dump_index("a64.index", InstDB::_inst_name_index);
    dump_bytes("a64.strtab", InstDB::_inst_name_string_table, sizeof(InstDB::_inst_name_string_table));
    dump_u32("a64.names", InstDB::_inst_name_index_table, countof(InstDB::_inst_name_index_table));
    // first id of the SIMD block (ids are: none, GP block (sorted), SIMD block (sorted))
    printf("a64.simd_first 1 %u\n", unsigned(Inst::kIdAbs_v));
  }
  // ---------------------------------------------------------------- x86 validator tables
  {
    using namespace x86;
    // per instruction: inst flags, avx512 flags, signature index, signature count
    printf("x86.inst %u", unsigned(Inst::_kIdCount) * 4);
    for (uint32_t id = 0; id < Inst::_kIdCount; id++) {
      const InstDB::InstInfo& ii = InstDB::inst_info_by_id(id);
      const InstDB::CommonInfo& ci = ii.common_info();
      printf(" %u %u %u %u", unsigned(ci._flags), unsigned(ci._avx512_flags), unsigned(ci._inst_signature_index), unsigned(ci._inst_signature_count));
    }
    printf("\n");
    // instruction signatures: op_count mode implicit idx[6]
    size_t nsig = countof(InstDB::_inst_signature_table);
    printf("x86.isig %zu", nsig * 9);
    for (size_t i = 0; i < nsig; i++) {
      const InstDB::InstSignature& s = InstDB::_inst_signature_table[i];
      printf(" %u %u %u", unsigned(s._op_count), unsigned(s._mode), unsigned(s._implicit_op_count));
      for (int k = 0; k < 6; k++) printf(" %u", unsigned(s._op_signature_indexes[k]));
    }
    printf("\n");
    size_t nop = countof(InstDB::_op_signature_table);
    printf("x86.osig %zu", nop * 2);
    for (size_t i = 0; i < nop; i++) {
      const InstDB::OpSignature& s = InstDB::_op_signature_table[i];
      printf(" %llu %u", (unsigned long long)(uint64_t(s._flags)), unsigned(s._reg_mask));
    }
    printf("\n");
    // constants the model refers to by name, in the order of ValidateModel.model_consts (a renumbered enum is then caught by
    // the reflection lemma x86_consts_ok and by the correspondence)
    {
      using F = InstDB::InstFlags; using A = InstDB::Avx512Flags; using O = InstOptions; using P = InstDB::OpFlags; using E = Error;
      const uint64_t c[] = {
        uint64_t(F::kLock), uint64_t(F::kXAcquire), uint64_t(F::kXRelease), uint64_t(F::kRep), uint64_t(F::kRepIgnored), uint64_t(F::kEvex),
        uint64_t(A::kK), uint64_t(A::kZ), uint64_t(A::kER), uint64_t(A::kSAE), uint64_t(A::kB16), uint64_t(A::kB32), uint64_t(A::kB64),
        uint64_t(O::kX86_Lock), uint64_t(O::kX86_XAcquire), uint64_t(O::kX86_XRelease), uint64_t(O::kX86_Rep), uint64_t(O::kX86_Repne),
        uint64_t(O::kX86_ZMask), uint64_t(O::kX86_ER), uint64_t(O::kX86_SAE), uint64_t(O::kX86_Rex),
        uint64_t(RegType::kNone), uint64_t(RegType::kLabelTag), uint64_t(RegType::kPC), uint64_t(RegType::kGp32), uint64_t(RegType::kVec128),
        uint64_t(RegType::kVec256), uint64_t(RegType::kVec512), uint64_t(RegType::kMask),
        uint64_t(Operand::kVirtIdMin), uint64_t(Reg::kIdBad), uint64_t(Gp::kIdCx),
        uint64_t(P::kRegGpbHi), uint64_t(P::kRegGpq), uint64_t(P::kRegMask), uint64_t(P::kMemUnspecified), uint64_t(P::kMem8), uint64_t(P::kMem16),
        uint64_t(P::kMem32), uint64_t(P::kMem48), uint64_t(P::kMem64), uint64_t(P::kMem80), uint64_t(P::kMem128), uint64_t(P::kMem256), uint64_t(P::kMem512),
        uint64_t(P::kMemMask), uint64_t(P::kVm32x), uint64_t(P::kVm32y), uint64_t(P::kVm32z), uint64_t(P::kVm64x), uint64_t(P::kVm64y), uint64_t(P::kVm64z), uint64_t(P::kVmMask),
        uint64_t(P::kImmI4), uint64_t(P::kImmU4), uint64_t(P::kImmI8), uint64_t(P::kImmU8), uint64_t(P::kImmI16), uint64_t(P::kImmU16), uint64_t(P::kImmI32),
        uint64_t(P::kImmU32), uint64_t(P::kImmI64), uint64_t(P::kImmU64), uint64_t(P::kImmMask),
        uint64_t(P::kRel8), uint64_t(P::kRel32), uint64_t(P::kRelMask), uint64_t(P::kFlagMemBase), uint64_t(P::kFlagMib), uint64_t(P::kFlagImplicit), uint64_t(P::kOpMask),
        uint64_t(E::kOk), uint64_t(E::kInvalidState), uint64_t(E::kInvalidInstruction), uint64_t(E::kInvalidRegType), uint64_t(E::kInvalidPhysId),
        uint64_t(E::kIllegalVirtReg), uint64_t(E::kInvalidPrefixCombination), uint64_t(E::kInvalidLockPrefix), uint64_t(E::kInvalidXAcquirePrefix),
        uint64_t(E::kInvalidXReleasePrefix), uint64_t(E::kInvalidRepPrefix), uint64_t(E::kInvalidExtraReg), uint64_t(E::kInvalidKMaskUse),
        uint64_t(E::kInvalidKZeroUse), uint64_t(E::kInvalidBroadcast), uint64_t(E::kInvalidEROrSAE), uint64_t(E::kInvalidAddress),
        uint64_t(E::kInvalidAddress64Bit), uint64_t(E::kInvalidAddress64BitZeroExtension), uint64_t(E::kInvalidSegment), uint64_t(E::kInvalidImmediate),
        uint64_t(E::kInvalidOperandSize), uint64_t(E::kInvalidUseOfGpbHi), uint64_t(E::kInvalidUseOfGpq),
        uint64_t(InstDB::Mode::kX86), uint64_t(InstDB::Mode::kX64), uint64_t(RegType::kGp64), uint64_t(O::kX86_Evex)
      };
      printf("x86.consts %zu", countof(c));
      for (size_t i = 0; i < countof(c); i++) printf(" %llu", (unsigned long long)c[i]);
      printf("\n");
    }
    // file-static tables of x86instapi.cpp
    {
      using namespace InstInternal;
      printf("x86.regtype_opflags 32");
      for (int i = 0; i < 32; i++) printf(" %llu", (unsigned long long)uint64_t(op_flag_from_reg_type_table[i]));
      printf("\n");
      const X86ValidationData* vds[2] = { &x86_validation_data, &x64_validation_data };
      for (int m = 0; m < 2; m++) {
        printf("x86.vd%d 34", m);
        for (int i = 0; i < 32; i++) printf(" %u", unsigned(vds[m]->allowed_reg_mask[i]));
        printf(" %u %u\n", unsigned(vds[m]->allowed_mem_base_regs), unsigned(vds[m]->allowed_mem_index_regs));
      }
    }
  }
  return 0;
}

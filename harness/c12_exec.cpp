// C12 exploration harness: executes x86-64 instruction forms on the HOST CPU from random machine states and compares what the
// processor does with what InstAPI::query_rw_info reports (never an obligation of the check; results go to the evidence).
//
// stdin:  X <seed> <nstates> <id> <options> <extra> <uflags> <nops> op...   (operand syntax of c12_harness Q; x64 only; uflags = CpuRWFlags the
//         database marks undefined: excluded from check B)
// stdout: X <status> runs=<n> faults=<n> A=<first unreported change or -> B=<first dependence on an unreported read or -> E=<first byte reported
//         as zero-extended that is not zero afterwards or ->
//   status: ok | skip:<reason>
//   check A: every GP/vector/mask register byte, status flag and scratch-memory byte that changes is reported as written
//            (write or extend mask of an operand naming that register; extend-only bytes must become zero)
//   check B: two runs whose states agree on everything reported as read (and differ elsewhere) agree on every byte reported in a write mask
//            (bytes only in an extend mask are judged by E)
#include <asmjit/core.h>
#include <asmjit/x86.h>
#include <csetjmp>
#include <csignal>
#include <cstdio>
#include <cstring>
#include <cstdlib>
#include <cinttypes>
#include <string>
#include <sstream>
#include <iostream>

using namespace asmjit;

struct State {
  uint64_t gp[16];
  uint64_t flags;
  uint64_t k[8];
  uint8_t vec[32][64];
  uint8_t mem[256];
};

alignas(64) static uint8_t g_scratch[512];
static sigjmp_buf g_jmp;
static volatile sig_atomic_t g_armed = 0;
static const uint64_t kStatus = 0x8D5;       // OF SF ZF AF PF CF
static const int kMemDisp = 128;             // operand = [r14 + 128], r14 = g_scratch

static void on_fault(int) {
  if (g_armed) siglongjmp(g_jmp, 1);
  _exit(99);
}

static uint64_t rng_state = 88172645463325252ull;
static uint64_t rnd() { rng_state ^= rng_state << 13; rng_state ^= rng_state >> 7; rng_state ^= rng_state << 17; return rng_state; }

static bool g_avx512 = false, g_avx = false;
// registers that must hold a pointer into the scratch buffer: offset into g_scratch or -1 (implicit [zsi] / [zdi] operands)
static int g_ptr_off[16];

typedef void (*TestFn)(const State* in, State* out);

static Error build(JitRuntime& rt, InstId id, InstOptions opt, bool extra, const Operand_* ops, size_t nops, TestFn* fn) {
  using namespace x86;
  CodeHolder code;
  code.init(rt.environment(), rt.cpu_features());
  Assembler a(&code);
  const Gp in = rdi, out = r15;
  a.push(rbx); a.push(rbp); a.push(r12); a.push(r13); a.push(r14); a.push(r15);
  a.mov(out, rsi);
  if (g_avx512) {
    for (uint32_t i = 0; i < 32; i++) a.vmovdqu64(zmm(i), ptr(in, int32_t(offsetof(State, vec) + 64 * i)));
    for (uint32_t i = 0; i < 8; i++) a.kmovq(KReg(i), ptr(in, int32_t(offsetof(State, k) + 8 * i)));
  } else if (g_avx) {
    for (uint32_t i = 0; i < 16; i++) a.vmovdqu(ymm(i), ptr(in, int32_t(offsetof(State, vec) + 64 * i)));
  } else {
    for (uint32_t i = 0; i < 16; i++) a.movdqu(xmm(i), ptr(in, int32_t(offsetof(State, vec) + 64 * i)));
  }
  a.push(qword_ptr(in, int32_t(offsetof(State, flags))));
  a.popfq();
  for (uint32_t i = 0; i < 16; i++) {
    if (i == 4 || i == 15 || i == 7) continue;
    a.mov(gpq(i), ptr(in, int32_t(offsetof(State, gp) + 8 * i)));
  }
  a.mov(rdi, ptr(in, int32_t(offsetof(State, gp) + 8 * 7)));
  // the instruction under test
  if (extra) a.k(k1);
  a.add_inst_options(opt);
  Error err = a.emit_op_array(id, ops, nops);
  if (err != Error::kOk) return err;
  for (uint32_t i = 0; i < 16; i++) {
    if (i == 4 || i == 15) continue;
    a.mov(ptr(out, int32_t(offsetof(State, gp) + 8 * i)), gpq(i));
  }
  a.pushfq();
  a.pop(qword_ptr(out, int32_t(offsetof(State, flags))));
  a.cld();
  if (g_avx512) {
    for (uint32_t i = 0; i < 32; i++) a.vmovdqu64(ptr(out, int32_t(offsetof(State, vec) + 64 * i)), zmm(i));
    for (uint32_t i = 0; i < 8; i++) a.kmovq(ptr(out, int32_t(offsetof(State, k) + 8 * i)), KReg(i));
    a.vzeroupper();
  } else if (g_avx) {
    for (uint32_t i = 0; i < 16; i++) a.vmovdqu(ptr(out, int32_t(offsetof(State, vec) + 64 * i)), ymm(i));
    a.vzeroupper();
  } else {
    for (uint32_t i = 0; i < 16; i++) a.movdqu(ptr(out, int32_t(offsetof(State, vec) + 64 * i)), xmm(i));
  }
  a.pop(r15); a.pop(r14); a.pop(r13); a.pop(r12); a.pop(rbp); a.pop(rbx);
  a.ret();
  return rt.add(fn, &code);
}

// what the RW information says, projected on the machine state
struct Report {
  uint8_t gp_w[16], gp_e[16], gp_r[16];
  uint64_t vec_w[32], vec_e[32], vec_r[32];
  uint8_t k_w[8], k_e[8], k_r[8];
  uint64_t flags_w, flags_r;   // RFLAGS bits
  struct Win { int off; uint32_t size; uint64_t w, r; } win[2];   // memory operands as windows of the scratch buffer (byte masks <= 64 bytes)
  int nwin;
};

static uint64_t rflags_of(uint32_t f) {
  uint64_t r = 0;
  if (f & 0x1) r |= 0x800; if (f & 0x2) r |= 0x1; if (f & 0x4) r |= 0x40; if (f & 0x8) r |= 0x80;
  if (f & 0x100) r |= 0x10; if (f & 0x200) r |= 0x4; if (f & 0x400) r |= 0x400;
  return r;
}

static bool project(const InstRWInfo& rw, const Operand_* ops, size_t nops, bool extra, Report& R, std::string& why) {
  memset(&R, 0, sizeof(R));
  R.flags_w = rflags_of(uint32_t(rw._write_flags));
  R.flags_r = rflags_of(uint32_t(rw._read_flags));
  R.gp_r[14] = 0xFF;                       // scratch pointer (memory base)
  if (extra) R.k_r[1] = 0xFF;
  for (size_t i = 0; i < nops; i++) {
    const OpRWInfo& o = rw._operands[i];
    if (ops[i].is_reg()) {
      const Reg& r = ops[i].as<Reg>();
      uint32_t id = r.id();
      uint64_t wm = o._write_byte_mask, em = o._extend_byte_mask, rm = o._read_byte_mask;
      if (!Support::test(o._op_flags, OpRWFlags::kWrite)) { wm = 0; em = 0; }
      if (!Support::test(o._op_flags, OpRWFlags::kRead)) rm = 0;
      switch (r.reg_type()) {
        case RegType::kGp8Hi:
          if (id >= 4) { why = "gp8hi id"; return false; }
          R.gp_w[id] |= uint8_t(wm << 1); R.gp_e[id] |= uint8_t(em << 1); R.gp_r[id] |= uint8_t(rm << 1); break;
        case RegType::kGp8Lo: case RegType::kGp16: case RegType::kGp32: case RegType::kGp64:
          if (id >= 16 || id == 4 || id == 14 || id == 15) { why = "reserved gp"; return false; }
          R.gp_w[id] |= uint8_t(wm); R.gp_e[id] |= uint8_t(em); R.gp_r[id] |= uint8_t(rm); break;
        case RegType::kVec128: case RegType::kVec256: case RegType::kVec512:
          if (id >= 32) { why = "vec id"; return false; }
          R.vec_w[id] |= wm; R.vec_e[id] |= em; R.vec_r[id] |= rm; break;
        case RegType::kMask:
          if (id >= 8) { why = "k id"; return false; }
          R.k_w[id] |= uint8_t(wm); R.k_e[id] |= uint8_t(em); R.k_r[id] |= uint8_t(rm); break;
        default:
          why = "register class not executed"; return false;
      }
    }
    else if (ops[i].is_mem()) {
      if (R.nwin >= 2) { why = "three memory operands"; return false; }
      const x86::Mem& m = ops[i].as<x86::Mem>();
      Report::Win& W = R.win[R.nwin++];
      W.size = ops[i].x86_rm_size();
      if (W.size == 0 || W.size > 64) { why = "memory size"; return false; }
      uint32_t base = m.base_id();
      W.off = base == 14 ? kMemDisp : g_ptr_off[base & 15];
      if (W.off < 0) { why = "memory base"; return false; }
      uint64_t full = W.size >= 64 ? ~uint64_t(0) : ((uint64_t(1) << W.size) - 1);
      W.w = Support::test(o._op_flags, OpRWFlags::kWrite) ? ((o._write_byte_mask | o._extend_byte_mask) & full) : 0;
      W.r = Support::test(o._op_flags, OpRWFlags::kRead) ? (o._read_byte_mask & full) : 0;
      if (base != 14) {      // implicit base register: read when reported kMemBaseRead, written (whole register) when reported kMemBaseWrite
        if (Support::test(o._op_flags, OpRWFlags::kMemBaseRead)) R.gp_r[base] = 0xFF;
        if (Support::test(o._op_flags, OpRWFlags::kMemBaseWrite)) R.gp_w[base] = 0xFF;
      }
    }
  }
  return true;
}

static bool win_bit(const Report& R, int j, bool write) {
  for (int k = 0; k < R.nwin; k++) {
    const Report::Win& W = R.win[k];
    if (j >= W.off && j < W.off + int(W.size) && (((write ? W.w : W.r) >> (j - W.off)) & 1)) return true;
  }
  return false;
}

static void random_state(State& s) {
  for (int i = 0; i < 16; i++) { uint64_t sel = rnd() & 7; s.gp[i] = sel == 0 ? 0 : (sel <= 2 ? (rnd() & 0xFF) : rnd()); }   // zero and small values are frequent (shift counts, bsf/bsr sources)
  s.gp[14] = uint64_t(uintptr_t(g_scratch));
  for (int i = 0; i < 16; i++) if (g_ptr_off[i] >= 0) s.gp[i] = uint64_t(uintptr_t(g_scratch)) + uint64_t(g_ptr_off[i]);
  s.flags = 0x202 | (rnd() & kStatus);
  for (int i = 0; i < 8; i++) s.k[i] = rnd();
  for (int i = 0; i < 32; i++) for (int j = 0; j < 64; j += 8) { uint64_t v = rnd(); memcpy(&s.vec[i][j], &v, 8); }
  for (int j = 0; j < 256; j += 8) { uint64_t v = rnd(); memcpy(&s.mem[j], &v, 8); }
}

// keep what is reported as read, re-randomise the rest
static void vary_unread(const State& a, const Report& R, State& b) {
  State r; random_state(r);
  b = a;
  for (int i = 0; i < 16; i++) {
    if (i == 4 || i == 14 || i == 15 || g_ptr_off[i] >= 0) continue;
    for (int j = 0; j < 8; j++) if (!((R.gp_r[i] >> j) & 1)) ((uint8_t*)&b.gp[i])[j] = ((uint8_t*)&r.gp[i])[j];
  }
  for (int i = 0; i < 8; i++) for (int j = 0; j < 8; j++) if (!((R.k_r[i] >> j) & 1)) ((uint8_t*)&b.k[i])[j] = ((uint8_t*)&r.k[i])[j];
  int nv = g_avx512 ? 32 : 16;
  for (int i = 0; i < nv; i++) for (int j = 0; j < 64; j++) if (!((R.vec_r[i] >> j) & 1)) b.vec[i][j] = r.vec[i][j];
  b.flags = (a.flags & ~kStatus) | (a.flags & R.flags_r & kStatus) | (r.flags & kStatus & ~R.flags_r);
  for (int j = 0; j < 256; j++) {
    if (!win_bit(R, j, false)) b.mem[j] = r.mem[j];
  }
}

static bool run(TestFn fn, const State& in, State& out) {
  memcpy(g_scratch, in.mem, 256);
  memset(&out, 0, sizeof(out));
  g_armed = 1;
  if (sigsetjmp(g_jmp, 1) != 0) { g_armed = 0; return false; }
  fn(&in, &out);
  g_armed = 0;
  memcpy(out.mem, g_scratch, 256);
  return true;
}

static void check_a(const State& s, const State& t, const Report& R, std::string& msg, std::string& emsg) {
  char buf[160];
  int nv = g_avx512 ? 32 : 16, vb = g_avx512 ? 64 : (g_avx ? 32 : 16);
  for (int i = 0; i < 16 && msg.empty(); i++) {
    if (i == 4 || i == 14 || i == 15) continue;
    for (int j = 0; j < 8; j++) {
      uint8_t o = ((const uint8_t*)&s.gp[i])[j], n = ((const uint8_t*)&t.gp[i])[j];
      bool w = (R.gp_w[i] >> j) & 1, e = (R.gp_e[i] >> j) & 1;
      if (o != n && !w && !e) { snprintf(buf, sizeof buf, "gp%d.byte%d:%02x->%02x-not-reported(w=%02x,e=%02x)", i, j, o, n, R.gp_w[i], R.gp_e[i]); msg = buf; break; }
      if (e && !w && n != 0 && emsg.empty()) { snprintf(buf, sizeof buf, "gp%d.byte%d:extend-reported-but-%02x", i, j, n); emsg = buf; }
    }
  }
  for (int i = 0; i < nv && msg.empty(); i++)
    for (int j = 0; j < vb; j++) {
      uint8_t o = s.vec[i][j], n = t.vec[i][j];
      bool w = (R.vec_w[i] >> j) & 1, e = (R.vec_e[i] >> j) & 1;
      if (o != n && !w && !e) { snprintf(buf, sizeof buf, "vec%d.byte%d:%02x->%02x-not-reported", i, j, o, n); msg = buf; break; }
      if (e && !w && n != 0 && emsg.empty()) { snprintf(buf, sizeof buf, "vec%d.byte%d:extend-reported-but-%02x", i, j, n); emsg = buf; }
    }
  if (g_avx512)
    for (int i = 0; i < 8 && msg.empty(); i++)
      for (int j = 0; j < 8; j++) {
        uint8_t o = ((const uint8_t*)&s.k[i])[j], n = ((const uint8_t*)&t.k[i])[j];
        bool w = (R.k_w[i] >> j) & 1, e = (R.k_e[i] >> j) & 1;
        if (o != n && !w && !e) { snprintf(buf, sizeof buf, "k%d.byte%d:%02x->%02x-not-reported", i, j, o, n); msg = buf; break; }
        if (e && !w && n != 0 && emsg.empty()) { snprintf(buf, sizeof buf, "k%d.byte%d:extend-reported-but-%02x", i, j, n); emsg = buf; }
      }
  if (msg.empty()) {
    uint64_t ch = (s.flags ^ t.flags) & (kStatus | 0x400) & ~R.flags_w;
    if (ch) { snprintf(buf, sizeof buf, "rflags:%#" PRIx64 "-changed-not-reported(reported=%#" PRIx64 ")", ch, R.flags_w); msg = buf; }
  }
  for (int j = 0; j < 256 && msg.empty(); j++) {
    bool w = win_bit(R, j, true);
    if (s.mem[j] != t.mem[j] && !w) { snprintf(buf, sizeof buf, "mem[%d]:%02x->%02x-not-reported", j - kMemDisp, s.mem[j], t.mem[j]); msg = buf; }
  }
}

static void check_b(const State& t1, const State& t2, const Report& R, uint64_t undefined_flags, std::string& msg) {
  char buf[160];
  int nv = g_avx512 ? 32 : 16, vb = g_avx512 ? 64 : (g_avx ? 32 : 16);
  for (int i = 0; i < 16 && msg.empty(); i++) {
    if (i == 4 || i == 14 || i == 15) continue;
    for (int j = 0; j < 8; j++)
      if ((R.gp_w[i] >> j) & 1)
        if (((const uint8_t*)&t1.gp[i])[j] != ((const uint8_t*)&t2.gp[i])[j]) { snprintf(buf, sizeof buf, "gp%d.byte%d-depends-on-unreported-read", i, j); msg = buf; break; }
  }
  for (int i = 0; i < nv && msg.empty(); i++)
    for (int j = 0; j < vb; j++)
      if ((R.vec_w[i] >> j) & 1)
        if (t1.vec[i][j] != t2.vec[i][j]) { snprintf(buf, sizeof buf, "vec%d.byte%d-depends-on-unreported-read", i, j); msg = buf; break; }
  if (g_avx512)
    for (int i = 0; i < 8 && msg.empty(); i++)
      for (int j = 0; j < 8; j++)
        if ((R.k_w[i] >> j) & 1)
          if (((const uint8_t*)&t1.k[i])[j] != ((const uint8_t*)&t2.k[i])[j]) { snprintf(buf, sizeof buf, "k%d.byte%d-depends-on-unreported-read", i, j); msg = buf; break; }
  if (msg.empty()) {
    uint64_t d = (t1.flags ^ t2.flags) & R.flags_w & kStatus & ~undefined_flags;
    if (d) { snprintf(buf, sizeof buf, "rflags:%#" PRIx64 "-depend-on-unreported-read", d); msg = buf; }
  }
  for (int j = 0; j < 256 && msg.empty(); j++)
    if (win_bit(R, j, true) && t1.mem[j] != t2.mem[j]) { snprintf(buf, sizeof buf, "mem[%d]-depends-on-unreported-read", j - kMemDisp); msg = buf; }
}

int main() {
  const CpuFeatures& f = CpuInfo::host().features();
  g_avx512 = f.x86().has_avx512_f() && f.x86().has_avx512_bw() && f.x86().has_avx512_dq() && f.x86().has_avx512_vl();
  g_avx = f.x86().has_avx();
  struct sigaction sa;
  memset(&sa, 0, sizeof(sa));
  sa.sa_handler = on_fault;
  sa.sa_flags = SA_NODEFER;
  static uint8_t altstack[65536];
  stack_t ss; ss.ss_sp = altstack; ss.ss_size = sizeof(altstack); ss.ss_flags = 0;
  sigaltstack(&ss, nullptr);
  sa.sa_flags |= SA_ONSTACK;
  int sigs[] = { SIGSEGV, SIGBUS, SIGFPE, SIGILL, SIGTRAP };
  for (int s : sigs) sigaction(s, &sa, nullptr);

  JitRuntime rt;
  std::string line;
  while (std::getline(std::cin, line)) {
    std::istringstream ss2(line);
    std::string k; uint64_t seed; unsigned nstates, id, options, uflags; int extra; unsigned nops;
    if (!(ss2 >> k >> seed >> nstates >> id >> options >> extra >> uflags >> nops) || k != "X" || nops > 6) { printf("X skip:parse\n"); continue; }
    rng_state = seed * 0x9E3779B97F4A7C15ull + 0x1234567;
    if (!rng_state) rng_state = 1;
    Operand_ ops[6];
    for (int i = 0; i < 16; i++) g_ptr_off[i] = -1;
    int nptr = 0;
    bool ok = true;
    std::string why;
    for (unsigned i = 0; i < nops && ok; i++) {
      std::string t; ss2 >> t;
      if (t.empty()) { ok = false; break; }
      if (t[0] == 'r') {
        unsigned rt_, rid;
        if (sscanf(t.c_str(), "r%u:%u", &rt_, &rid) != 2 || rt_ > 31) { ok = false; break; }
        ops[i] = Reg(RegUtils::signature_of(RegType(rt_)), rid);
      } else if (t[0] == 'm') {
        unsigned sz; int b, x;
        if (sscanf(t.c_str(), "m%u:%d:%d", &sz, &b, &x) != 3 || x != 0 || (b != 2 && b < 100)) { ok = false; why = "addressing form"; break; }
        x86::Mem m = x86::ptr(x86::r14, kMemDisp);
        if (b >= 100) {      // implicit [zsi] / [zdi] / ... operand: the register itself points into the scratch buffer
          int rid = (b - 100) % 100;
          if (rid == 4 || rid >= 14) { ok = false; why = "addressing form"; break; }
          if (g_ptr_off[rid] < 0) g_ptr_off[rid] = 64 + 64 * nptr++;
          if (nptr > 2) { ok = false; why = "addressing form"; break; }
          m = x86::ptr(x86::gpq(uint32_t(rid)));
          if ((b - 100) / 100) m.set_segment(x86::SReg(uint32_t((b - 100) / 100)));
        }
        m.set_size(sz);
        ops[i] = m;
      } else if (t[0] == 'i') {
        ops[i] = Imm(int64_t(strtoll(t.c_str() + 1, nullptr, 10)));
      } else { ok = false; why = "operand kind"; }
    }
    if (!ok) { printf("X skip:%s\n", why.empty() ? "operands" : why.c_str()); continue; }
    BaseInst inst = extra ? BaseInst(id, InstOptions(options), x86::k1) : BaseInst(id, InstOptions(options));
    CpuFeatures need;
    if (InstAPI::query_features(Arch::kX64, inst, ops, nops, &need) != Error::kOk) { printf("X skip:features-query\n"); continue; }
    bool have = true;
    for (uint32_t i = 1; i < 256; i++) if (need.has(i) && !f.has(i)) have = false;
    if (!have) { printf("X skip:host-lacks-reported-feature\n"); continue; }
    InstRWInfo rw; memset(&rw, 0, sizeof(rw));
    if (InstAPI::query_rw_info(Arch::kX64, inst, ops, nops, &rw) != Error::kOk) { printf("X skip:rw-query\n"); continue; }
    Report R;
    if (!project(rw, ops, nops, extra != 0, R, why)) { printf("X skip:%s\n", why.c_str()); continue; }
    TestFn fn = nullptr;
    if (build(rt, id, InstOptions(options), extra != 0, ops, nops, &fn) != Error::kOk) { printf("X skip:assembler-refuses\n"); continue; }
    unsigned runs = 0, faults = 0;
    std::string ma, mb, me;
    static State s1, s2, t1, t2;
    for (unsigned n = 0; n < nstates; n++) {
      random_state(s1);
      if (!run(fn, s1, t1)) { faults++; continue; }
      runs++;
      if (ma.empty()) check_a(s1, t1, R, ma, me);
      vary_unread(s1, R, s2);
      if (!run(fn, s2, t2)) { faults++; continue; }
      if (ma.empty()) check_a(s2, t2, R, ma, me);
      if (mb.empty()) check_b(t1, t2, R, rflags_of(uflags), mb);
    }
    rt.release(fn);
    printf("X ok runs=%u faults=%u A=%s B=%s E=%s\n", runs, faults, ma.empty() ? "-" : ma.c_str(), mb.empty() ? "-" : mb.c_str(), me.empty() ? "-" : me.c_str());
    fflush(stdout);
  }
  return 0;
}

// C15 harness: allocation-failure enumeration on REAL asmjit objects (H1 arena fault point + wrapped malloc/realloc/mmap),
// and the per-operation correspondence stream for the oracle-threaded Coq models (see c15_script.h).
//
// Line protocol (stdin -> stdout, one answer line per command, flushed):
//   D <wid> <policy>                      dry run: request counts per kind + clean result hash
//   F <wid> <policy> <mode> <pattern> <rec>   fault run + recovery + retry, raw facts only (python judges)
//   S ...                                 model-correspondence scripts (c15_script.h)
//   T                                     table dump (hash primes, constants) for the translator tie
#include <stdio.h>
#include <string>
#include <vector>
#include <map>
#include <algorithm>

#include <asmjit/core.h>
#include <asmjit/x86.h>
#include <asmjit/a64.h>
#include <asmjit/core/constpool.h>
#include <asmjit/support/arena.h>
#include <asmjit/support/arenavector.h>
#include <asmjit/support/arenahash.h>
#include <asmjit/support/arenapool.h>

#include <asmjit/x86/x86rapass_p.h>

#include "c15_fault.h"

// file-static prime table of ArenaHash (the archive member arenahash.o is then not pulled in)
#include <asmjit/support/arenahash.cpp>
// file-static JitAllocator_new_block / JitAllocatorImpl_deleteBlock (driven directly by the "S vm" scripts)
#include <asmjit/core/jitallocator.cpp>

using namespace asmjit;

enum Policy { P_STOP = 0, P_CONT = 1 };

struct Res {
  Error err = Error::kOk;          // first error returned by any API call of the workload
  std::string stage;               // which call
  int n_err = 0;                   // number of failing calls
  Error late = Error::kOk;         // first error of a finalisation call (flatten/resolve/relocate/copy/add) under P_CONT
  std::string late_stage;
  long fired_before_final = -1;    // F.fired when the finalisation stage began
  bool have_bytes = false;
  std::vector<uint8_t> bytes;      // result image
  bool have_exec = false;
  std::vector<uint8_t> exec;       // outputs of executing the generated code on the host (semantic oracle), when run
  std::string mon;                 // harness-side invariant monitor message ("" = fine)
  std::string ra;                  // register-allocator state dumps (one per function, taken in X86RAPass::on_done of a REAL pass run)
  void fail(Error e, const char* st) {
    n_err++;
    if (err == Error::kOk) { err = e; stage = st; }
  }
};

#define CK(expr) do { Error _e = (expr); if (_e != Error::kOk) { r.fail(_e, #expr); if (policy == P_STOP) return; } } while (0)
#define CKF(expr) do { Error _e = (expr); if (_e != Error::kOk) { r.fail(_e, #expr); return; } } while (0)
#define CKL(expr) do { Error _e = (expr); if (_e != Error::kOk) { r.fail(_e, #expr); if (r.late == Error::kOk) { r.late = _e; r.late_stage = #expr; } return; } } while (0)

static std::string sanitize(const std::string& s) {
  std::string o;
  for (char c : s) o += (c == ' ' || c == '\n' || c == '\t') ? '_' : c;
  if (o.empty()) o = "-";
  if (o.size() > 90) o.resize(90);
  return o;
}

// ---------------------------------------------------------------------------------------------------------------------
// Workloads. Objects are members so that the retry re-uses the very objects that saw the failure.
// ---------------------------------------------------------------------------------------------------------------------
struct Workload {
  virtual ~Workload() {}
  virtual void run(Res& r, int policy) = 0;
  // rec 0: CodeHolder::reinit (emitters stay attached); rec 1: hard reset (everything detached)
  virtual void recover(int rec) = 0;
};

static void finalize_image(CodeHolder& code, Res& r, int policy) {
  r.fired_before_final = F.fired;
  CKL(code.flatten());
  CKL(code.resolve_cross_section_fixups());
  if (code.has_unresolved_fixups()) { r.fail(Error::kInvalidState, "unresolved_fixups"); r.late = Error::kInvalidState; r.late_stage = "unresolved_fixups"; return; }
  CKL(code.relocate_to_base(0x100000));
  // when earlier calls failed (continue policy) a section may be empty; copy_flattened_data() then calls memcpy(dst, nullptr, 0)
  // (a UBSan nonnull report that has nothing to do with allocation failure): the image is not compared in that case anyway
  if (policy == P_CONT && r.n_err > 0) return;
  size_t n = code.code_size();
  std::vector<uint8_t> buf(n + 16, 0xCC);
  CKL(code.copy_flattened_data(buf.data(), n, CopySectionFlags::kPadSectionBuffer | CopySectionFlags::kPadTargetBuffer));
  buf.resize(n);
  r.bytes = buf;
  r.have_bytes = true;
}

static void recover_code(CodeHolder& code, int rec) {
  if (rec == 0) {
    if (code.is_initialized()) (void)code.reinit();
  }
  else {
    code.reset(ResetPolicy::kHard);
  }
}

// ---- x86-64 assembler: labels (anonymous + named), sections, fixups, relocations, address table ----------------------
template<typename Emitter>
static void x86_program(Emitter& a, CodeHolder& code, Res& r, int policy, int scale) {
  using namespace x86;
  Section* text = code.text_section();
  Section* data = nullptr;
  CK(code.new_section(Out(data), ".data", SIZE_MAX, SectionFlags::kNone, 8));

  Label entry = a.new_named_label("entry");
  if (!entry.is_valid()) { r.fail(Error::kOutOfMemory, "new_named_label(entry)"); if (policy == P_STOP) return; }
  Label l_end = a.new_label();
  Label l_data = a.new_label();
  Label l_tab = a.new_label();
  if (!l_end.is_valid() || !l_data.is_valid() || !l_tab.is_valid()) { r.fail(Error::kOutOfMemory, "new_label"); if (policy == P_STOP) return; }

  CK(a.bind(entry));
  CK(a.push(rbp));
  CK(a.mov(rbp, rsp));
  CK(a.lea(rsi, ptr(l_data)));
  CK(a.xor_(eax, eax));

  std::vector<Label> fwd;
  for (int i = 0; i < scale; i++) {
    char name[32];
    snprintf(name, sizeof(name), "blk_%d", i);
    Label named = (i % 2 == 0) ? a.new_named_label(name) : a.new_label();
    Label skip = a.new_label();
    if (!named.is_valid() || !skip.is_valid()) { r.fail(Error::kOutOfMemory, "new_label(loop)"); if (policy == P_STOP) return; }
    fwd.push_back(skip);
    CK(a.bind(named));
    CK(a.add(eax, dword_ptr(rsi, i * 4 % 64)));
    CK(a.cmp(eax, i * 3 + 1));
    CK(a.jz(skip));                       // forward short/long jump -> fixup
    CK(a.add(rax, qword_ptr(l_data, 8)));  // [rip + label] -> fixup into another section
    if (i % 5 == 0) {
      CK(a.jmp(l_end));                   // far forward
    }
    if (i % 7 == 0) {
      CK(a.call(imm(uint64_t(0x123456789ABCull) + uint64_t(i) * 16))); // absolute target -> reloc + address table
    }
    if (i % 4 == 3) {
      CK(a.jmp(named));                   // backward, bound
    }
    for (int j = 0; j < (i % 3) * 20; j++) CK(a.nop());
    CK(a.bind(skip));
  }

  CK(a.jmp(l_end));
  CK(a.align(AlignMode::kCode, 16));
  CK(a.bind(l_tab));
  CK(a.embed_label(l_data));               // unbound label -> reloc + fixup
  CK(a.embed_label(entry));                // bound label -> reloc
  CK(a.embed_label_delta(l_end, entry, 4)); // unbound -> expression reloc
  CK(a.embed_label_delta(l_tab, entry, 8)); // both bound -> immediate value
  for (size_t i = 0; i < fwd.size(); i += 3) CK(a.embed_label(fwd[i]));

  if (data) {
    CK(a.section(data));
  }
  CK(a.bind(l_data));
  uint8_t blob[96];
  for (size_t i = 0; i < sizeof(blob); i++) blob[i] = uint8_t(i * 7 + 3);
  CK(a.embed(blob, sizeof(blob)));
  CK(a.embed_label(l_end, 8));
  CK(a.embed_label_delta(l_end, l_tab, 8));
  CK(a.section(text));
  CK(a.bind(l_end));
  CK(a.pop(rbp));
  CK(a.ret());
}

struct WAsmX86 : Workload {
  CodeHolder code;
  x86::Assembler a;
  int scale;
  StringLogger* lg;      // optional: a logger attached to the holder - formatting allocations (String, heap) can fail too
  explicit WAsmX86(int s, bool logged = false) : scale(s), lg(logged ? new StringLogger() : nullptr) {}
  ~WAsmX86() override { delete lg; }
  void run(Res& r, int policy) override {
    if (!code.is_initialized()) CKF(code.init(Environment(Arch::kX64)));
    if (lg) { lg->content().clear(); code.set_logger(lg); }
    if (!a.is_initialized()) CKF(code.attach(&a));
    x86_program(a, code, r, policy, scale);
    if (policy == P_STOP && r.err != Error::kOk) return;
    finalize_image(code, r, policy);
  }
  void recover(int rec) override { recover_code(code, rec); }
};

// ---- x86-64 assembler used twice with CodeHolder::reinit() in between, everything under the fault -------------------------
struct WAsmReinit : Workload {
  CodeHolder code;
  x86::Assembler a;
  void run(Res& r, int policy) override {
    policy = P_STOP;
    if (!code.is_initialized()) CKF(code.init(Environment(Arch::kX64)));
    if (!a.is_initialized()) CKF(code.attach(&a));
    x86_program(a, code, r, policy, 5);
    if (r.err != Error::kOk) return;
    Res tmp;
    finalize_image(code, tmp, policy);
    if (tmp.err != Error::kOk) { r = tmp; return; }
    CKF(code.reinit());
    if (!a.is_initialized()) { r.fail(Error::kInvalidState, "assembler detached by reinit"); return; }
    x86_program(a, code, r, policy, 9);
    if (r.err != Error::kOk) return;
    finalize_image(code, r, policy);
    if (r.have_bytes) r.bytes.insert(r.bytes.end(), tmp.bytes.begin(), tmp.bytes.end());
  }
  void recover(int rec) override { recover_code(code, rec); }
};

// ---- x86-32 assembler: the [label] -> relocation + fixup path ----------------------------------------------------------
struct WAsmX86_32 : Workload {
  CodeHolder code;
  x86::Assembler a;
  void run(Res& r, int policy) override {
    using namespace x86;
    if (!code.is_initialized()) CKF(code.init(Environment(Arch::kX86)));
    if (!a.is_initialized()) CKF(code.attach(&a));
    Label l_data = a.new_label();
    Label l_end = a.new_label();
    // an invalid label must not be used in a 32-bit [label] operand (DESIGN 7.3, property C14): always stop here
    if (!l_data.is_valid() || !l_end.is_valid()) { r.fail(Error::kOutOfMemory, "new_label"); return; }
    for (int i = 0; i < 12; i++) {
      CK(a.mov(eax, dword_ptr(l_data, i * 4)));   // [label] abs -> reloc + fixup (unbound)
      CK(a.add(eax, 1));
      CK(a.jnz(l_end));
      CK(a.mov(dword_ptr(l_data, 4), eax));
    }
    CK(a.call(imm(0x12345678)));
    CK(a.bind(l_end));
    CK(a.ret());
    CK(a.align(AlignMode::kData, 8));
    CK(a.bind(l_data));
    for (int i = 0; i < 8; i++) CK(a.embed_label(l_end));
    CK(a.mov(eax, dword_ptr(l_data)));             // [label] abs, bound
    finalize_image(code, r, policy);
  }
  void recover(int rec) override { recover_code(code, rec); }
};

// ---- AArch64 assembler ---------------------------------------------------------------------------------------------------
struct WAsmA64 : Workload {
  CodeHolder code;
  a64::Assembler a;
  void run(Res& r, int policy) override {
    using namespace a64;
    if (!code.is_initialized()) CKF(code.init(Environment(Arch::kAArch64)));
    if (!a.is_initialized()) CKF(code.attach(&a));
    Section* data = nullptr;
    CK(code.new_section(Out(data), ".rodata", SIZE_MAX, SectionFlags::kNone, 16));
    Label l_end = a.new_label();
    Label l_lit = a.new_label();
    Label l_data = a.new_named_label("table");
    if (!l_end.is_valid() || !l_lit.is_valid() || !l_data.is_valid()) { r.fail(Error::kOutOfMemory, "new_label"); if (policy == P_STOP) return; }
    for (int i = 0; i < 16; i++) {
      Label skip = a.new_label();
      if (!skip.is_valid()) { r.fail(Error::kOutOfMemory, "new_label(loop)"); if (policy == P_STOP) return; }
      CK(a.adr(x1, l_lit));
      CK(a.ldr(x2, ptr(l_lit)));
      CK(a.add(x0, x0, x2));
      CK(a.cbz(x0, skip));
      CK(a.tbnz(x0, 3, l_end));
      CK(a.b_ne(l_end));
      if (i % 4 == 0) CK(a.bl(imm(0x40000 + i * 64)));
      CK(a.adr(x3, l_data));
      CK(a.bind(skip));
    }
    CK(a.b(l_end));
    CK(a.align(AlignMode::kData, 8));
    CK(a.bind(l_lit));
    CK(a.embed_uint64(0x1122334455667788ull));
    CK(a.embed_label(l_data));
    CK(a.embed_label_delta(l_end, l_lit, 4));
    CK(a.bind(l_end));
    CK(a.ret(x30));
    if (data) CK(a.section(data));
    CK(a.bind(l_data));
    CK(a.embed_label(l_end));
    CK(a.embed_uint32(7, 5));
    finalize_image(code, r, policy);
  }
  void recover(int rec) override { recover_code(code, rec); }
};

// ---- x86 Builder: record + serialize ------------------------------------------------------------------------------------
struct WBuilder : Workload {
  CodeHolder code;
  x86::Builder b;
  int scale;
  StringLogger* lg;
  explicit WBuilder(int s, bool logged = false) : scale(s), lg(logged ? new StringLogger() : nullptr) {}
  ~WBuilder() override { delete lg; }
  void run(Res& r, int policy) override {
    if (!code.is_initialized()) CKF(code.init(Environment(Arch::kX64)));
    if (lg) { lg->content().clear(); code.set_logger(lg); }
    if (!b.is_initialized()) CKF(code.attach(&b));
    policy = P_STOP;
    x86_program(b, code, r, policy, scale);
    if (r.err != Error::kOk) return;
    CK(b.comment("tail"));
    CK(b.finalize());
    finalize_image(code, r, policy);
  }
  void recover(int rec) override { recover_code(code, rec); }
};

// ---- x86 Builder, continue after a failed emit with a DIFFERENT instruction: one-shot state (options, {k}{z}, lock, comment)
//      of an instruction that could not be recorded must not leak into the next one. Independent monitor: the final code must be
//      the concatenation of the stand-alone Assembler encodings of exactly the instructions whose emit reported success.
template<typename E>
static Error oneshot_inst(E& e, int i) {
  using namespace x86;
  switch (i % 10) {
    case 0: return e.k(k1).z().vaddps(zmm3, zmm4, zmm5);
    case 1: return e.vmulps(zmm3, zmm4, zmm5);
    case 2: return e.lock().add(dword_ptr(rax), ecx);
    case 3: return e.mov(eax, ebx);
    case 4: return e.k(k2).vpaddd(zmm1, zmm2, zmm6);
    case 5: return e.vpxord(zmm1, zmm2, zmm6);
    case 6: e.set_inline_comment("one-shot comment"); return e.lock().xadd(qword_ptr(rdx, 8), rsi);
    case 7: return e.add(qword_ptr(rdx, 8), rsi);
    case 8: return e.rep().movs(byte_ptr(rdi), byte_ptr(rsi));
    default: return e.vaddpd(ymm1, ymm2, ymm3);
  }
}

struct WBuilderOneShot : Workload {
  CodeHolder code;
  x86::Builder b;
  int n;
  std::vector<std::vector<uint8_t>> enc;
  explicit WBuilderOneShot(int n_) : n(n_) {
    for (int i = 0; i < 10; i++) {
      CodeHolder c;
      x86::Assembler a;
      std::vector<uint8_t> bytes;
      if (c.init(Environment(Arch::kX64)) == Error::kOk && c.attach(&a) == Error::kOk && oneshot_inst(a, i) == Error::kOk)
        bytes.assign(c.text_section()->data(), c.text_section()->data() + c.text_section()->buffer_size());
      enc.push_back(bytes);
    }
  }
  void run(Res& r, int policy) override {
    if (!code.is_initialized()) CKF(code.init(Environment(Arch::kX64)));
    if (!b.is_initialized()) CKF(code.attach(&b));
    std::vector<uint8_t> want;
    for (int i = 0; i < n; i++) {
      Error e = oneshot_inst(b, i);
      if (e != Error::kOk) r.fail(e, "oneshot_inst");
      else want.insert(want.end(), enc[i % 10].begin(), enc[i % 10].end());
    }
    r.fired_before_final = F.fired;
    Error e = b.finalize();
    if (e != Error::kOk) { r.fail(e, "b.finalize()"); r.late = e; r.late_stage = "b.finalize()"; return; }
    std::vector<uint8_t> got(code.text_section()->data(), code.text_section()->data() + code.text_section()->buffer_size());
    if (got != want) {
      size_t at = 0;
      while (at < got.size() && at < want.size() && got[at] == want[at]) at++;
      char msg[160];
      snprintf(msg, sizeof(msg), "serialized code differs at byte %zu (got %02x, expected %02x) from the encodings of exactly the instructions whose emit succeeded",
               at, at < got.size() ? got[at] : 0, at < want.size() ? want[at] : 0);
      r.mon = msg;
      return;
    }
    if (r.err == Error::kOk) { r.bytes = got; r.have_bytes = true; }
  }
  void recover(int rec) override { recover_code(code, rec); }
};

// ---- x86 Compiler: functions with spills, calls, stack, constants -------------------------------------------------------
struct RecHandler : ErrorHandler {
  Error first = Error::kOk;
  int count = 0;
  void handle_error(Error err, const char*, BaseEmitter*) override { if (first == Error::kOk) first = err; count++; }
};

// The register allocator's home-slot state at the end of a REAL pass run: a subclass of X86RAPass whose on_done() (called by
// BaseRAPass::run_on_function after all steps, successful or not, before everything is torn down) dumps for every work register
// whether it has a home slot and whether it was marked "stack used", and the owner of every register-home slot in creation
// order. The proven checker (Coq: ra_check / ra_rewrite, extracted) validates each dump.
static std::string g_ra_dump;
struct DumpRAPass : x86::X86RAPass {
  explicit DumpRAPass(BaseCompiler& cc) noexcept : x86::X86RAPass(cc) {}
  void on_done() noexcept override {
    std::string d;
    size_t n = _work_regs.size();
    for (RAStackSlot* slot : _stack_allocator._slots) {
      if (!slot || !slot->is_reg_home()) continue;
      long owner = -1;
      for (size_t w = 0; w < n; w++) if (_work_regs[w]->stack_slot() == slot) owner = long(w);
      d += (d.empty() ? "" : ",") + std::to_string(owner);
    }
    if (d.empty()) d = "-";
    d += "/";
    for (size_t w = 0; w < n; w++) d += _work_regs[w]->stack_slot() ? "1" : "0";
    if (n == 0) d += "-";
    d += "/";
    for (size_t w = 0; w < n; w++) d += _work_regs[w]->is_stack_used() ? "1" : "0";
    if (n == 0) d += "-";
    g_ra_dump += (g_ra_dump.empty() ? "" : ";") + d;
  }
};
static const char kDumpPassName[] = "C15DumpRAPass";

static Error install_dump_pass(x86::Compiler& cc) {
  // replace the pass called "RAPass" (x86::Compiler::on_attach / on_reinit add it behind GlobalConstPoolPass)
  for (size_t i = 0; i < cc._passes.size(); i++) {
    if (cc._passes[i]->_name == kDumpPassName) return Error::kOk;
    if (strcmp(cc._passes[i]->_name, "RAPass") == 0) {
      DumpRAPass* p = cc.new_pass<DumpRAPass>();
      if (!p) return Error::kOutOfMemory;
      p->_name = kDumpPassName;
      cc._passes[i]->~Pass();
      cc._passes[i] = p;
      return Error::kOk;
    }
  }
  return Error::kInvalidState;
}

// a JitAllocator whose own construction failed stays uninitialised by design (every call answers kNotInitialized)
static bool jit_dead(JitRuntime* rt) {
  JitAllocator::Span probe;
  Error e = rt->_allocator.alloc(Out(probe), 64);
  if (e == Error::kOk) (void)rt->_allocator.release(probe.rx());
  return e == Error::kNotInitialized;
}

extern "C" uint32_t c15_callee(uint32_t a, uint32_t b, uint32_t c) { return a * 3u + b * 5u + c; }

// position-independent canonical form of the generated code: flattened, unrelocated section data + the relocation table
static void canonical_image(CodeHolder& code, Res& r, int policy) {
  r.fired_before_final = F.fired;
  CKL(code.flatten());
  CKL(code.resolve_cross_section_fixups());
  if (code.has_unresolved_fixups()) { r.fail(Error::kInvalidState, "unresolved_fixups"); r.late = Error::kInvalidState; r.late_stage = "unresolved_fixups"; return; }
  std::vector<uint8_t> buf;
  for (Section* sec : code.sections()) {
    uint64_t hdr[3] = { sec->offset(), sec->buffer_size(), sec->virtual_size() };
    const uint8_t* hp = reinterpret_cast<const uint8_t*>(hdr);
    buf.insert(buf.end(), hp, hp + sizeof(hdr));
    if (sec->buffer_size()) buf.insert(buf.end(), sec->data(), sec->data() + sec->buffer_size());
  }
  for (const RelocEntry* re : code.reloc_entries()) {
    uint64_t payload = re->payload();
    if (re->reloc_type() == RelocType::kExpression) payload = 0;                // a pointer
    if (payload == uint64_t(uintptr_t(&c15_callee))) payload = 0x1111;          // ASLR
    uint64_t f[6] = { uint64_t(re->reloc_type()), re->source_section_id(), re->target_section_id(), re->source_offset(), payload, re->format().value_size() };
    const uint8_t* p = reinterpret_cast<const uint8_t*>(f);
    buf.insert(buf.end(), p, p + sizeof(f));
  }
  r.bytes = buf;
  r.have_bytes = true;
}

struct WCompiler : Workload {
  CodeHolder code;
  x86::Compiler cc;
  RecHandler eh;
  JitRuntime* rt = nullptr;
  int nregs;
  StringLogger* lg;
  explicit WCompiler(int n, bool logged = false) : nregs(n), lg(logged ? new StringLogger() : nullptr) {}
  ~WCompiler() override { delete rt; delete lg; }

#define CKH() do { if (eh.first != Error::kOk) { r.fail(eh.first, "error_handler"); return; } } while (0)

  // C++ mirror of the two generated functions (independent statement of what they must compute)
  uint32_t mirror_f1(uint32_t* out, const uint32_t* in) const {
    std::vector<uint32_t> v(nregs);
    for (int i = 0; i < nregs; i++) v[i] = in[i % 8];
    uint32_t x0 = 0, stk = 0;
    for (int it = 0; it < 5; it++) {
      for (int i = 0; i < nregs; i++) v[i] += uint32_t(i + 1);
      v[0] += 77u;
      x0 += v[1];
      stk = v[2];
    }
    uint32_t acc = 0;
    for (int i = 0; i < nregs; i++) { acc += v[i]; out[i % 8] = v[i]; }
    acc += 0x55667788u;
    acc += stk;
    v[0] = x0;
    acc += v[0];
    return acc;
  }
  uint32_t mirror_f2(uint32_t* out, const uint32_t* in) const {
    uint32_t keep[6];
    for (int i = 0; i < 6; i++) keep[i] = in[i];
    uint32_t res = mirror_f1(out, in);
    uint32_t res2 = c15_callee(keep[0], res, keep[5]);
    for (int i = 0; i < 6; i++) res += keep[i];
    return res + res2;
  }

  void run(Res& r, int policy) override {
    using namespace x86;
    eh.first = Error::kOk; eh.count = 0;
    policy = P_STOP;
    if (!rt) rt = new JitRuntime();
    if (!code.is_initialized()) CKF(code.init(rt->environment(), rt->cpu_features()));
    code.set_error_handler(&eh);
    if (lg) { lg->content().clear(); code.set_logger(lg); }
    if (!cc.is_initialized()) CKF(code.attach(&cc));
    CKF(install_dump_pass(cc));
    if (lg) cc.add_diagnostic_options(DiagnosticOptions::kRAAnnotate | DiagnosticOptions::kRADebugAll);

    // f1(uint32_t* out, const uint32_t* in): many live values in a loop -> spills
    FuncNode* f1 = nullptr;
    CK(cc.add_func_node(Out(f1), FuncSignature::build<uint32_t, uint32_t*, const uint32_t*>()));
    if (!f1) { r.fail(Error::kOutOfMemory, "add_func_node(f1)=null"); return; }
    {
      Gp out = cc.new_gp_ptr("out"); Gp in = cc.new_gp_ptr("in"); CKH();
      f1->set_arg(0, out); f1->set_arg(1, in);
      std::vector<Gp> v(nregs);
      for (int i = 0; i < nregs; i++) { v[i] = cc.new_gp32("v%d", i); CKH(); }
      for (int i = 0; i < nregs; i++) CK(cc.mov(v[i], dword_ptr(in, (i % 8) * 4)));
      Gp cnt = cc.new_gp32("cnt"); CKH();
      Label loop = cc.new_label(); Label done = cc.new_label(); CKH();
      Mem c0 = cc.new_int32_const(ConstPoolScope::kLocal, 77); CKH();
      Mem c1 = cc.new_int64_const(ConstPoolScope::kGlobal, 0x1122334455667788ll); CKH();
      Mem stk = cc.new_stack(64, 16); CKH();
      stk.set_size(4);
      Vec x0 = cc.new_xmm("x0"); Vec x1 = cc.new_xmm("x1"); CKH();
      CK(cc.mov(cnt, 5));
      CK(cc.pxor(x0, x0));
      CK(cc.bind(loop));
      for (int i = 0; i < nregs; i++) CK(cc.add(v[i], i + 1));
      CK(cc.add(v[0], c0));
      CK(cc.movd(x1, v[1]));
      CK(cc.paddd(x0, x1));
      CK(cc.mov(stk, v[2]));
      CK(cc.dec(cnt));
      CK(cc.jz(done));
      CK(cc.jmp(loop));
      CK(cc.bind(done));
      Gp acc = cc.new_gp32("acc"); CKH();
      Gp wide = cc.new_gp64("wide"); CKH();
      CK(cc.xor_(acc, acc));
      for (int i = 0; i < nregs; i++) { CK(cc.add(acc, v[i])); CK(cc.mov(dword_ptr(out, (i % 8) * 4), v[i])); }
      CK(cc.mov(wide, c1));
      CK(cc.add(acc, wide.r32()));
      CK(cc.add(acc, stk));
      CK(cc.movd(v[0], x0));
      CK(cc.add(acc, v[0]));
      CK(cc.ret(acc));
      CK(cc.end_func());
    }
    // f2(uint32_t* out, const uint32_t* in): calls f1 (label) and an absolute target, values live across calls
    FuncNode* f2 = nullptr;
    CK(cc.add_func_node(Out(f2), FuncSignature::build<uint32_t, uint32_t*, const uint32_t*>()));
    if (!f2) { r.fail(Error::kOutOfMemory, "add_func_node(f2)=null"); return; }
    {
      Gp out = cc.new_gp_ptr("out2"); Gp in = cc.new_gp_ptr("in2"); CKH();
      f2->set_arg(0, out); f2->set_arg(1, in);
      Gp keep[6];
      for (int i = 0; i < 6; i++) { keep[i] = cc.new_gp32("k%d", i); CKH(); CK(cc.mov(keep[i], dword_ptr(in, i * 4))); }
      Gp res = cc.new_gp32("res"); Gp res2 = cc.new_gp32("res2"); CKH();
      InvokeNode* inv = nullptr;
      CK(cc.invoke(Out(inv), f1->label(), FuncSignature::build<uint32_t, uint32_t*, const uint32_t*>()));
      if (!inv) { r.fail(Error::kOutOfMemory, "invoke=null"); return; }
      inv->set_arg(0, out); inv->set_arg(1, in); inv->set_ret(0, res);
      InvokeNode* inv2 = nullptr;
      CK(cc.invoke(Out(inv2), imm(uint64_t(uintptr_t(&c15_callee))), FuncSignature::build<uint32_t, uint32_t, uint32_t, uint32_t>()));
      if (!inv2) { r.fail(Error::kOutOfMemory, "invoke2=null"); return; }
      inv2->set_arg(0, keep[0]); inv2->set_arg(1, res); inv2->set_arg(2, keep[5]); inv2->set_ret(0, res2);
      for (int i = 0; i < 6; i++) CK(cc.add(res, keep[i]));
      CK(cc.add(res, res2));
      CK(cc.ret(res));
      CK(cc.end_func());
    }
    CKH();
    CK(cc.finalize());
    CKH();
    Label l2 = f2->label();
    canonical_image(code, r, policy);
    if (r.err != Error::kOk) { r.have_bytes = false; return; }
    // install and execute (host CPU = semantic oracle for "succeeds correctly")
    typedef uint32_t (*Fn)(uint32_t*, const uint32_t*);
    void* base = nullptr;
    Error e = rt->add(&base, &code);
    if (e != Error::kOk) { r.fail(e, "rt.add"); r.late = e; r.late_stage = "rt.add"; r.have_bytes = false; return; }
    if (!base) { r.mon = "rt.add returned kOk with a null pointer"; return; }
    Fn fn2 = (Fn)((uint8_t*)base + code.label_offset_from_base(l2));
    uint32_t in[8] = {3, 1, 4, 1, 5, 9, 2, 6}, out[8] = {0}, mout[8] = {0};
    uint32_t got = fn2(out, in);
    uint32_t want = mirror_f2(mout, in);
    r.exec.assign((uint8_t*)&got, (uint8_t*)&got + 4);
    r.exec.insert(r.exec.end(), (uint8_t*)out, (uint8_t*)out + sizeof(out));
    r.have_exec = true;
    if (got != want || memcmp(out, mout, sizeof(out)) != 0) r.mon = "compiled function computed " + std::to_string(got) + ", the C++ mirror " + std::to_string(want);
    CK(rt->release(base));
  }
  void recover(int rec) override {
    recover_code(code, rec);
    if (rt && (rec != 0 || jit_dead(rt))) { delete rt; rt = nullptr; }
  }
};

// ---- x86 Builder used twice with CodeHolder::reinit() in between (on_reinit allocates the section node again) ----------
struct WBuilderReinit : Workload {
  CodeHolder code;
  x86::Builder b;
  void run(Res& r, int policy) override {
    policy = P_STOP;
    if (!code.is_initialized()) CKF(code.init(Environment(Arch::kX64)));
    if (!b.is_initialized()) CKF(code.attach(&b));
    x86_program(b, code, r, policy, 4);
    if (r.err != Error::kOk) return;
    CK(b.finalize());
    Res tmp;
    finalize_image(code, tmp, policy);
    if (tmp.err != Error::kOk) { r = tmp; return; }
    CKF(code.reinit());
    if (!b.is_initialized()) { r.fail(Error::kInvalidState, "builder detached by reinit"); return; }
    x86_program(b, code, r, policy, 7);
    if (r.err != Error::kOk) return;
    CK(b.finalize());
    finalize_image(code, r, policy);
    if (r.have_bytes) r.bytes.insert(r.bytes.end(), tmp.bytes.begin(), tmp.bytes.end());
  }
  void recover(int rec) override { recover_code(code, rec); }
};

// ---- x86 Compiler: a function with stack arguments, every argument used exactly once (register homes used as memory) ---
struct WCompilerArgs : Workload {
  CodeHolder code;
  x86::Compiler cc;
  RecHandler eh;
  JitRuntime* rt = nullptr;
  ~WCompilerArgs() override { delete rt; }
  void run(Res& r, int policy) override {
    using namespace x86;
    eh.first = Error::kOk; eh.count = 0;
    policy = P_STOP;
    if (!rt) rt = new JitRuntime();
    if (!code.is_initialized()) CKF(code.init(rt->environment(), rt->cpu_features()));
    code.set_error_handler(&eh);
    if (!cc.is_initialized()) CKF(code.attach(&cc));
    CKF(install_dump_pass(cc));
    FuncNode* f = nullptr;
    CK(cc.add_func_node(Out(f), FuncSignature::build<uint32_t, uint32_t, uint32_t, uint32_t, uint32_t, uint32_t, uint32_t, uint32_t, uint32_t, uint32_t, uint32_t, uint32_t, uint32_t>()));
    if (!f) { r.fail(Error::kOutOfMemory, "add_func_node=null"); return; }
    Gp a[12];
    for (int i = 0; i < 12; i++) { a[i] = cc.new_gp32("a%d", i); CKH(); f->set_arg(i, a[i]); }
    Gp t[14];
    for (int i = 0; i < 14; i++) { t[i] = cc.new_gp32("t%d", i); CKH(); CK(cc.mov(t[i], i * 3 + 1)); }
    Gp acc = cc.new_gp32("acc"); CKH();
    CK(cc.xor_(acc, acc));
    for (int i = 0; i < 14; i++) CK(cc.add(acc, t[i]));
    for (int i = 11; i >= 0; i--) CK(cc.add(acc, a[i]));      // every argument used exactly once, late
    for (int i = 0; i < 14; i++) CK(cc.imul(acc, t[i]));
    CK(cc.ret(acc));
    CK(cc.end_func());
    CKH();
    CK(cc.finalize());
    CKH();
    canonical_image(code, r, policy);
    if (r.err != Error::kOk) { r.have_bytes = false; return; }
    typedef uint32_t (*Fn)(uint32_t, uint32_t, uint32_t, uint32_t, uint32_t, uint32_t, uint32_t, uint32_t, uint32_t, uint32_t, uint32_t, uint32_t);
    Fn fn = nullptr;
    Error e = rt->add(&fn, &code);
    if (e != Error::kOk) { r.fail(e, "rt.add"); r.late = e; r.late_stage = "rt.add"; r.have_bytes = false; return; }
    uint32_t got = fn(1, 2, 3, 4, 5, 6, 7, 8, 9, 10, 11, 12);
    uint32_t want = 0;
    for (int i = 0; i < 14; i++) want += uint32_t(i * 3 + 1);
    want += 78;
    for (int i = 0; i < 14; i++) want *= uint32_t(i * 3 + 1);
    r.exec.assign((uint8_t*)&got, (uint8_t*)&got + 4);
    r.have_exec = true;
    if (got != want) r.mon = "compiled function computed " + std::to_string(got) + ", expected " + std::to_string(want);
    CK(rt->release(fn));
  }
  void recover(int rec) override {
    recover_code(code, rec);
    if (rt && (rec != 0 || jit_dead(rt))) { delete rt; rt = nullptr; }
  }
};

// ---- x86 Compiler used twice with CodeHolder::reinit() in between (on_reinit re-adds the RA pass), second result executed ----
struct WCompilerReinit : Workload {
  CodeHolder code;
  x86::Compiler cc;
  RecHandler eh;
  JitRuntime* rt = nullptr;
  ~WCompilerReinit() override { delete rt; }

  // uint32_t f(uint32_t x): n live values, returns sum_i (x + i) * (i + 1)
  void emit_func(Res& r, int n, int policy) {
    using namespace x86;
    FuncNode* f = nullptr;
    CK(cc.add_func_node(Out(f), FuncSignature::build<uint32_t, uint32_t>()));
    if (!f) { r.fail(Error::kOutOfMemory, "add_func_node=null"); return; }
    Gp x = cc.new_gp32("x"); CKH();
    f->set_arg(0, x);
    std::vector<Gp> v(n);
    for (int i = 0; i < n; i++) { v[i] = cc.new_gp32("v%d", i); CKH(); CK(cc.lea(v[i], ptr(x, i))); }
    Gp acc = cc.new_gp32("acc"); CKH();
    CK(cc.xor_(acc, acc));
    for (int i = 0; i < n; i++) { CK(cc.imul(v[i], v[i], i + 1)); }
    for (int i = 0; i < n; i++) { CK(cc.add(acc, v[i])); }
    CK(cc.ret(acc));
    CK(cc.end_func());
    CKH();
    CK(cc.finalize());
    CKH();
  }

  void run(Res& r, int policy) override {
    eh.first = Error::kOk; eh.count = 0;
    policy = P_STOP;
    if (!rt) rt = new JitRuntime();
    if (!code.is_initialized()) CKF(code.init(rt->environment(), rt->cpu_features()));
    code.set_error_handler(&eh);
    if (!cc.is_initialized()) CKF(code.attach(&cc));
    CKF(install_dump_pass(cc));
    emit_func(r, 6, policy);
    if (r.err != Error::kOk) return;
    Res tmp;
    canonical_image(code, tmp, policy);
    if (tmp.err != Error::kOk) { r = tmp; r.have_bytes = false; return; }
    CKF(code.reinit());
    if (!cc.is_initialized()) { r.fail(Error::kInvalidState, "compiler detached by reinit"); return; }
    CKF(install_dump_pass(cc));
    emit_func(r, 20, policy);
    if (r.err != Error::kOk) return;
    canonical_image(code, r, policy);
    if (r.err != Error::kOk) { r.have_bytes = false; return; }
    r.bytes.insert(r.bytes.end(), tmp.bytes.begin(), tmp.bytes.end());
    typedef uint32_t (*Fn)(uint32_t);
    Fn fn = nullptr;
    Error e = rt->add(&fn, &code);
    if (e != Error::kOk) { r.fail(e, "rt.add"); r.late = e; r.late_stage = "rt.add"; r.have_bytes = false; return; }
    uint32_t got = fn(1000), want = 0;
    for (int i = 0; i < 20; i++) want += (1000u + uint32_t(i)) * uint32_t(i + 1);
    r.exec.assign((uint8_t*)&got, (uint8_t*)&got + 4);
    r.have_exec = true;
    if (got != want) r.mon = "compiled function computed " + std::to_string(got) + ", expected " + std::to_string(want);
    CK(rt->release(fn));
  }
  void recover(int rec) override {
    recover_code(code, rec);
    if (rt && (rec != 0 || jit_dead(rt))) { delete rt; rt = nullptr; }
  }
};

// ---- JitRuntime / JitAllocator --------------------------------------------------------------------------------------------
struct WJit : Workload {
  JitAllocator::CreateParams params;
  JitRuntime* rt = nullptr;
  uint32_t opts;
  explicit WJit(uint32_t o) : opts(o) {}
  ~WJit() override { delete rt; }

  void run(Res& r, int policy) override {
    using namespace x86;
    policy = P_STOP;
    if (!rt) {
      params.reset();
      params.options = JitAllocatorOptions(opts);
      params.block_size = 65536;
      rt = new JitRuntime(&params);
    }
    typedef int (*Fn)(int);
    std::vector<Fn> fns;
    std::vector<uint8_t> obs;
    r.fired_before_final = 0;
    for (int i = 0; i < 9; i++) {
      CodeHolder code;
      CK(code.init(rt->environment(), rt->cpu_features()));
      Assembler a;
      CK(code.attach(&a));
      Label l = a.new_label();
      if (!l.is_valid()) { r.fail(Error::kOutOfMemory, "new_label"); return; }
      CK(a.mov(eax, edi));
      CK(a.add(eax, i * 7 + 1));
      CK(a.jmp(l));
      int pad = (i % 3 == 2) ? 40000 : (i * 37);       // some functions larger than half a block
      for (int j = 0; j < pad; j++) CK(a.int3());
      CK(a.bind(l));
      CK(a.ret());
      Fn fn = nullptr;
      Error e = rt->add(&fn, &code);
      if (e != Error::kOk) { r.fail(e, "rt.add"); r.late = e; r.late_stage = "rt.add"; return; }
      if (!fn) { r.mon = "rt.add returned kOk with a null function"; return; }
      int got = fn(100 + i);
      if (got != 100 + i + i * 7 + 1) { r.mon = "JIT function " + std::to_string(i) + " returned a wrong value"; return; }
      obs.push_back(uint8_t(got));
      fns.push_back(fn);
      if (i % 4 == 1) {
        CK(rt->release(fns[i - 1]));
        fns[i - 1] = nullptr;
      }
    }
    // direct allocator use: alloc / shrink / query / write / release
    JitAllocator* al = &rt->_allocator;
    JitAllocator::Span sp[6];
    int nsp = 0;
    for (int i = 0; i < 6; i++) {
      Error e = al->alloc(Out(sp[i]), size_t(200 + i * 3000));
      if (e != Error::kOk) { r.fail(e, "allocator.alloc"); break; }
      nsp++;
      CK(al->write(sp[i], 0, "\xC3\xC3\xC3\xC3", 4));
      if (i % 2 == 0) CK(al->shrink(sp[i], 64));
    }
    for (int i = 0; i < nsp; i++) CK(al->release(sp[i].rx()));
    if (r.err != Error::kOk) return;
    for (Fn fn : fns) if (fn) CK(rt->release(fn));
    r.bytes = obs;
    r.have_bytes = true;
  }
  void recover(int rec) override {
    if (!rt) return;
    // a JitAllocator whose own construction failed stays uninitialised by design (every call says kNotInitialized): a new
    // runtime is needed then. rec 0 = soft reset (keeps one block per pool; repaired by 122faea / 062060b), rec 1 = hard reset,
    // rec 2 = fresh runtime (handled by the caller).
    bool dead = jit_dead(rt);
    if (dead) { delete rt; rt = nullptr; }
    else rt->reset(rec == 0 ? ResetPolicy::kSoft : ResetPolicy::kHard);
  }
};

// ---- containers: ArenaVector / ArenaHash / ConstPool / String with a shadow model as independent monitor -------------------
struct HNode : ArenaHashNode {
  uint32_t key;
  explicit HNode(uint32_t k) : ArenaHashNode(k * 2654435761u), key(k) {}
};
struct HKey {
  uint32_t key;
  uint32_t hash_code() const { return key * 2654435761u; }
  bool matches(const HNode* n) const { return n->key == key; }
};

struct WContainers : Workload {
  int nvec, nhash, npool, nstr;
  WContainers(int v, int h, int p, int st) : nvec(v), nhash(h), npool(p), nstr(st) {}
  void run(Res& r, int policy) override {
    policy = P_CONT;
    Arena arena(4096);
    std::vector<uint8_t> obs;
    // vector
    {
      ArenaVector<uint32_t> v;
      std::vector<uint32_t> shadow;
      for (int i = 0; i < nvec; i++) {
        Error e;
        switch (i % 11) {
          case 3: e = v.prepend(arena, uint32_t(i)); if (e == Error::kOk) shadow.insert(shadow.begin(), uint32_t(i)); break;
          case 5: { size_t at = shadow.size() / 2; e = v.insert(arena, at, uint32_t(i)); if (e == Error::kOk) shadow.insert(shadow.begin() + at, uint32_t(i)); break; }
          case 7: { size_t n = shadow.size() + 9; e = v.resize_grow(arena, n); if (e == Error::kOk) shadow.resize(n, 0); break; }
          case 9: { e = v.reserve_additional(arena, 33); break; }
          default: e = v.append(arena, uint32_t(i)); if (e == Error::kOk) shadow.push_back(uint32_t(i)); break;
        }
        if (e != Error::kOk) r.fail(e, "ArenaVector op");
        if (v.size() != shadow.size() || v.capacity() < v.size()) { r.mon = "ArenaVector size/capacity broken after op " + std::to_string(i); return; }
      }
      for (size_t i = 0; i < shadow.size(); i++) if (v[i] != shadow[i]) { r.mon = "ArenaVector content differs from shadow at " + std::to_string(i); return; }
      ArenaVector<uint32_t> w;
      Error e = w.concat(arena, v);
      if (e != Error::kOk) r.fail(e, "ArenaVector::concat");
      else if (w.size() != v.size()) { r.mon = "concat size"; return; }
      v.release(arena);
      w.release(arena);
      obs.push_back(uint8_t(shadow.size() & 0xFF));
    }
    // hash
    {
      ArenaHash<HNode> h;
      std::vector<uint32_t> keys;
      for (int i = 0; i < nhash; i++) {
        uint32_t key = uint32_t(i * 7919u + 13u);
        HNode* n = arena.new_oneshot<HNode>(key);
        if (!n) { r.fail(Error::kOutOfMemory, "new_oneshot<HNode>"); continue; }
        h.insert(arena, n);
        keys.push_back(key);
        if (i % 6 == 5) {
          uint32_t victim = keys[keys.size() / 2];
          HNode* vn = h.get(HKey{victim});
          if (!vn) { r.mon = "ArenaHash lost key before remove"; return; }
          h.remove(arena, vn);
          keys.erase(keys.begin() + keys.size() / 2);
        }
        if (h.size() != keys.size()) { r.mon = "ArenaHash size differs from shadow"; return; }
      }
      for (uint32_t k : keys) if (!h.get(HKey{k})) { r.mon = "ArenaHash lost key " + std::to_string(k); return; }
      if (h.get(HKey{12345678u})) { r.mon = "ArenaHash finds a key never inserted"; return; }
      h.release(arena);
      obs.push_back(uint8_t(keys.size() & 0xFF));
    }
    // constant pool
    {
      ConstPool pool(arena);
      struct Ent { std::vector<uint8_t> d; size_t off; };
      std::vector<Ent> ents;
      static const size_t sizes[] = {1, 8, 2, 16, 4, 32, 8, 64, 4, 2, 16, 1};
      for (int i = 0; i < npool; i++) {
        size_t sz = sizes[i % 12];
        std::vector<uint8_t> d(sz);
        for (size_t j = 0; j < sz; j++) d[j] = uint8_t((i / 3) * 31 + j * (1 + i % 3));
        size_t off = ~size_t(0);
        Error e = pool.add(d.data(), sz, Out(off));
        if (e != Error::kOk) { r.fail(e, "ConstPool::add"); continue; }
        if (off % sz != 0 || off + sz > pool.size()) { r.mon = "ConstPool::add returned misaligned/out-of-range offset"; return; }
        ents.push_back({d, off});
      }
      std::vector<uint8_t> img(pool.size() + 1, 0xEE);
      pool.fill(img.data());
      for (auto& en : ents) if (memcmp(img.data() + en.off, en.d.data(), en.d.size()) != 0) { r.mon = "ConstPool image does not hold a constant at its offset"; return; }
      if (img[pool.size()] != 0xEE) { r.mon = "ConstPool::fill wrote past size()"; return; }
      obs.push_back(uint8_t(ents.size() & 0xFF));
    }
    // String (heap)
    {
      String s;
      std::string shadow;
      for (int i = 0; i < nstr; i++) {
        Error e;
        if (i % 3 == 0) { e = s.append("abcdefghijklmnopqrstuvwxyz0123456789"); if (e == Error::kOk) shadow += "abcdefghijklmnopqrstuvwxyz0123456789"; }
        else if (i % 3 == 1) { e = s.append_format("%d|%s", i, "xy"); if (e == Error::kOk) shadow += std::to_string(i) + "|xy"; }
        else { e = s.append_chars('z', size_t(i) * 5); if (e == Error::kOk) shadow += std::string(size_t(i) * 5, 'z'); }
        if (e != Error::kOk) r.fail(e, "String op");
        if (s.size() != shadow.size() || memcmp(s.data(), shadow.data(), shadow.size()) != 0 || s.data()[s.size()] != 0) { r.mon = "String differs from shadow after op " + std::to_string(i); return; }
      }
      obs.push_back(uint8_t(shadow.size() & 0xFF));
    }
    r.fired_before_final = F.fired;
    // under faults the observable depends on which ops failed: only report bytes when nothing failed
    if (r.err == Error::kOk) { r.bytes = obs; r.have_bytes = true; }
  }
  void recover(int) override {}
};

static Workload* make_workload(const std::string& wid) {
  if (wid == "asm") return new WAsmX86(12);
  if (wid == "asm_big") return new WAsmX86(60);
  if (wid == "asm_log") return new WAsmX86(12, true);
  if (wid == "builder_log") return new WBuilder(12, true);
  if (wid == "compiler_log") return new WCompiler(12, true);
  if (wid == "asm32") return new WAsmX86_32();
  if (wid == "asm_reinit") return new WAsmReinit();
  if (wid == "a64") return new WAsmA64();
  if (wid == "builder") return new WBuilder(12);
  if (wid == "builder_big") return new WBuilder(60);
  if (wid == "builder_reinit") return new WBuilderReinit();
  if (wid == "builder_oneshot") return new WBuilderOneShot(40);
  if (wid == "compiler") return new WCompiler(12);
  if (wid == "compiler_big") return new WCompiler(40);
  if (wid == "compiler_args") return new WCompilerArgs();
  if (wid == "compiler_reinit") return new WCompilerReinit();
  if (wid == "jit") return new WJit(0);
  if (wid == "jit_dual") return new WJit(uint32_t(JitAllocatorOptions::kUseDualMapping));
  if (wid == "jit_pools") return new WJit(uint32_t(JitAllocatorOptions::kUseMultiplePools) | uint32_t(JitAllocatorOptions::kFillUnusedMemory));
  if (wid == "containers") return new WContainers(700, 270, 40, 18);   // vector and bucket array outgrow the reusable slots (dynamic blocks)
  if (wid == "containers_big") return new WContainers(3000, 1300, 200, 40);
  return nullptr;
}

static void print_res(const char* tag, const Res& r) {
  printf(" %s_err=%u %s_nerr=%d %s_stage=%s %s_late=%u %s_latestage=%s %s_ffin=%ld %s_hash=", tag, unsigned(r.err), tag, r.n_err, tag,
         sanitize(r.stage).c_str(), tag, unsigned(r.late), tag, sanitize(r.late_stage).c_str(), tag, r.fired_before_final, tag);
  if (r.have_bytes) printf("%016llx:%zu", (unsigned long long)fnv1a(r.bytes.data(), r.bytes.size()), r.bytes.size());
  else printf("-");
  printf(" %s_exec=", tag);
  if (r.have_exec) printf("%016llx:%zu", (unsigned long long)fnv1a(r.exec.data(), r.exec.size()), r.exec.size());
  else printf("-");
  printf(" %s_ra=%s", tag, r.ra.empty() ? "-" : r.ra.c_str());
  printf(" %s_mon=%s", tag, sanitize(r.mon).c_str());
}

#include "c15_script.h"

int main(int argc, char** argv) {
  setvbuf(stdout, nullptr, _IOLBF, 0);
  // warm-up: function-local statics (CpuInfo::host, VirtMem info) are initialised outside every measurement
  { JitRuntime rt; (void)rt.environment(); VirtMem::Info vi = VirtMem::info(); (void)vi; (void)VirtMem::hardened_runtime_info(); }
  { WJit w(0); Res r; w.run(r, P_STOP); }
  { WJit w(uint32_t(JitAllocatorOptions::kUseDualMapping)); Res r; w.run(r, P_STOP); }

  char line[1 << 16];
  while (fgets(line, sizeof(line), stdin)) {
    std::vector<std::string> t;
    { char* save = nullptr; for (char* p = strtok_r(line, " \n", &save); p; p = strtok_r(nullptr, " \n", &save)) t.push_back(p); }
    if (t.empty()) continue;
    if (t[0] == "D" && t.size() >= 3) {
      Workload* w = make_workload(t[1]);
      if (!w) { printf("BAD workload\n"); continue; }
      int policy = atoi(t[2].c_str());
      Res r;
      F.reset_counters(); F.mode = FM_NONE; F.armed = true;
      w->run(r, policy);
      F.armed = false;
      printf("D %s %d arena=%ld slow=%ld heap=%ld vm=%ld kinds=%ld,%ld,%ld,%ld,%ld", t[1].c_str(), policy, F.n_arena, F.n_slow, F.n_heap, F.n_vm,
             F.kinds[0], F.kinds[1], F.kinds[2], F.kinds[3], F.kinds[4]);
      print_res("run", r);
      printf("\n");
      delete w;
    }
    else if (t[0] == "F" && t.size() >= 6) {
      int policy = atoi(t[2].c_str());
      int mode = parse_mode(t[3].c_str());
      int rec = atoi(t[5].c_str());
      if (mode < 0 || !parse_pattern(t[4].c_str())) { printf("BAD mode/pattern\n"); continue; }
      long h0 = F.live_heap, m0 = F.live_maps, fd0 = count_open_fds();
      Res r1, r2;
      long fired = 0, na = 0, nh = 0, nv = 0, ns = 0;
      {
        Workload* w = make_workload(t[1]);
        if (!w) { printf("BAD workload\n"); continue; }
        F.reset_counters(); F.mode = mode; F.armed = true;
        g_ra_dump.clear();
        w->run(r1, policy);
        F.armed = false;
        r1.ra = g_ra_dump;
        fired = F.fired; na = F.n_arena; nh = F.n_heap; nv = F.n_vm; ns = F.n_slow;
        F.mode = FM_NONE;
        if (rec == 2) { delete w; w = make_workload(t[1]); }
        else w->recover(rec);
        g_ra_dump.clear();
        w->run(r2, P_STOP);
        r2.ra = g_ra_dump;
        delete w;
      }
      long h1 = F.live_heap, m1 = F.live_maps, fd1 = count_open_fds();
      printf("F %s %d %s %s %d fired=%ld arena=%ld slow=%ld heap=%ld vm=%ld", t[1].c_str(), policy, t[3].c_str(), t[4].c_str(), rec, fired, na, ns, nh, nv);
      print_res("run", r1);
      print_res("retry", r2);
      printf(" live_heap=%ld live_maps=%ld fds=%ld\n", h1 - h0, m1 - m0, fd1 - fd0);
    }
    else if (t[0] == "S") {
      run_script(t);
    }
    else if (t[0] == "M" && t.size() >= 3) {
      calc_mod_cmd(t);
    }
    else if (t[0] == "K") {
      dump_consts();
    }
    else if (t[0] == "T") {
      dump_tables(t.size() > 1 ? size_t(atoi(t[1].c_str())) : 8);
    }
    else {
      printf("BAD command\n");
    }
  }
  return 0;
}

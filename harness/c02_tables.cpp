// C02 table dumper: prints, for every instruction id whose encoding class keeps ONE opcode constant in its EncodingData row,
//   <inst id> <mnemonic> <encoding class> <opcode word (the 32-bit value the assembler starts from)>
// straight from the InstDB::EncodingData arrays of /repo's working tree (private header a64instdb_p.h, arrays linked from libasmjit.a).
#include <cstdio>
#include <cstdint>
#include <type_traits>
#include <asmjit/core.h>
#include <asmjit/a64.h>
#include <asmjit/arm/a64instdb_p.h>
using namespace asmjit;
namespace ED = a64::InstDB::EncodingData;

template<typename T> static auto word_of(const T& t, int) -> decltype(uint32_t(t.opcode())) { return uint32_t(t.opcode()); }
template<typename T> static auto word_of(const T& t, long) -> decltype(uint32_t(t.opcode)) { return uint32_t(t.opcode); }

#define C02_CLASSES(X) \
  X(BaseOp, baseOp) X(BaseOpX16, baseOpX16) X(BaseOpImm, baseOpImm) X(BaseR, baseR) X(BaseRR, baseRR) X(BaseRRR, baseRRR) X(BaseRRRR, baseRRRR) \
  X(BaseRRII, baseRRII) X(BaseAdr, baseAdr) X(BaseBfm, baseBfm) X(BaseExtend, baseExtend) X(BaseMvnNeg, baseMvnNeg) X(BaseRM_NoImm, baseRM_NoImm) \
  X(BaseRM_SImm10, baseRM_SImm10) X(BaseStx, baseStx) X(BaseLdxp, baseLdxp) X(BaseStxp, baseStxp) X(BaseAtomicOp, baseAtomicOp) \
  X(BaseAtomicSt, baseAtomicSt) X(BaseAtomicCasp, baseAtomicCasp) X(BaseBranchReg, baseBranchReg) X(BaseBranchRel, baseBranchRel) \
  X(BaseBranchCmp, baseBranchCmp) X(BaseBranchTst, baseBranchTst) X(BaseCCmp, baseCCmp) X(BaseCInc, baseCInc) X(BaseCSel, baseCSel) X(BaseCSet, baseCSet) \
  X(BaseExtract, baseExtract) X(BaseBfc, baseBfc) X(BaseBfi, baseBfi) X(BaseBfx, baseBfx) X(BaseMovKNZ, baseMovKNZ) \
  X(ISimdVV, iSimdVV) X(ISimdVVx, iSimdVVx) X(ISimdSV, iSimdSV) X(ISimdVVV, iSimdVVV) X(ISimdVVVx, iSimdVVVx) X(ISimdWWV, iSimdWWV) \
  X(ISimdVVVI, iSimdVVVI) X(ISimdVVVV, iSimdVVVV) X(ISimdVVVVx, iSimdVVVVx) X(FSimdSV, fSimdSV) X(SimdFcadd, simdFcadd) \
  X(SimdFccmpFccmpe, simdFccmpFccmpe) X(SimdFcmpFcmpe, simdFcmpFcmpe) X(SimdSm3tt, simdSm3tt)

int main() {
  for (uint32_t id = 1; id < a64::Inst::_kIdCount; id++) {
    const a64::InstDB::InstInfo& ii = a64::InstDB::_inst_info_table[id];
    String s;
    InstAPI::inst_id_to_string(Arch::kAArch64, id, InstStringifyOptions::kNone, s);
    uint32_t idx = ii._encoding_data_index;
    switch (ii._encoding) {
#define X(CLS, TBL) case a64::InstDB::kEncoding##CLS: printf("%u %s %s %u\n", id, s.data(), #CLS, word_of(ED::TBL[idx], 0)); break;
      C02_CLASSES(X)
#undef X
      default: break;
    }
  }
  return 0;
}

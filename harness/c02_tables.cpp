// C02 table dumper: prints, for every instruction id whose encoding class keeps ONE opcode constant in its EncodingData row,
//   <inst id> <mnemonic> <encoding class> <opcode word (the 32-bit value the assembler starts from)>
// straight from the InstDB::EncodingData arrays of /repo's working tree (private header a64instdb_p.h, arrays linked from libasmjit.a).
#include <cstdio>
#include <cstdint>
#include <type_traits>
#include <asmjit/core.h>
#include <asmjit/a64.h>
#include <asmjit/arm/a64instdb_p.h>
using namespace asmjit;
namespace ED = a64::InstDB::EncodingData;

template<typename T> static auto word_of(const T& t, int) -> decltype(uint32_t(t.opcode())) { return uint32_t(t.opcode()); }
template<typename T> static auto word_of(const T& t, long) -> decltype(uint32_t(t.opcode)) { return uint32_t(t.opcode); }

#define C02_CLASSES(X) \
  X(BaseOp, baseOp) X(BaseOpX16, baseOpX16) X(BaseOpImm, baseOpImm) X(BaseR, baseR) X(BaseRR, baseRR) X(BaseRRR, baseRRR) X(BaseRRRR, baseRRRR) \
  X(BaseRRII, baseRRII) X(BaseAdr, baseAdr) X(BaseBfm, baseBfm) X(BaseExtend, baseExtend) X(BaseMvnNeg, baseMvnNeg) X(BaseRM_NoImm, baseRM_NoImm) \
  X(BaseStx, baseStx) X(BaseLdxp, baseLdxp) X(BaseStxp, baseStxp) X(BaseAtomicOp, baseAtomicOp) \
  X(BaseAtomicSt, baseAtomicSt) X(BaseAtomicCasp, baseAtomicCasp) X(BaseBranchReg, baseBranchReg) X(BaseBranchRel, baseBranchRel) \
  X(BaseBranchCmp, baseBranchCmp) X(BaseBranchTst, baseBranchTst) X(BaseCCmp, baseCCmp) X(BaseCInc, baseCInc) X(BaseCSel, baseCSel) X(BaseCSet, baseCSet) \
  X(BaseExtract, baseExtract) X(BaseBfc, baseBfc) X(BaseBfi, baseBfi) X(BaseBfx, baseBfx) X(BaseMovKNZ, baseMovKNZ) \
  X(ISimdVV, iSimdVV) X(ISimdVVx, iSimdVVx) X(ISimdSV, iSimdSV) X(ISimdVVV, iSimdVVV) X(ISimdVVVx, iSimdVVVx) X(ISimdWWV, iSimdWWV) \
  X(ISimdVVVI, iSimdVVVI) \
  X(SimdFccmpFccmpe, simdFccmpFccmpe) X(SimdFcmpFcmpe, simdFcmpFcmpe)

int main() {
  for (uint32_t id = 1; id < a64::Inst::_kIdCount; id++) {
    const a64::InstDB::InstInfo& ii = a64::InstDB::_inst_info_table[id];
    String s;
    InstAPI::inst_id_to_string(Arch::kAArch64, id, InstStringifyOptions::kNone, s);
    uint32_t idx = ii._encoding_data_index;
    switch (ii._encoding) {
#define X(CLS, TBL) case a64::InstDB::kEncoding##CLS: printf("%u %s %s %u\n", id, s.data(), #CLS, word_of(ED::TBL[idx], 0)); break;
      C02_CLASSES(X)
#undef X
      // classes with several opcode constants per row: one line per variant "<class>.<variant>", shifted the way the encoder does
#define V(CLS, VAR, WORD) printf("%u %s %s.%s %u\n", id, s.data(), #CLS, VAR, uint32_t(WORD))
      case a64::InstDB::kEncodingBaseAddSub: { const auto& d = ED::baseAddSub[idx];
        V(BaseAddSub, "shifted", uint32_t(d.shifted_op) << 21); V(BaseAddSub, "extended", uint32_t(d.extended_op) << 21); V(BaseAddSub, "immediate", uint32_t(d.immediate_op) << 24); break; }
      case a64::InstDB::kEncodingBaseCmpCmn: { const auto& d = ED::baseCmpCmn[idx];
        V(BaseCmpCmn, "shifted", uint32_t(d.shifted_op) << 21); V(BaseCmpCmn, "extended", uint32_t(d.extended_op) << 21); V(BaseCmpCmn, "immediate", uint32_t(d.immediate_op) << 24); break; }
      case a64::InstDB::kEncodingBaseLogical: { const auto& d = ED::baseLogical[idx];
        V(BaseLogical, "shifted", uint32_t(d.shifted_op) << 21); if (d.immediate_op) V(BaseLogical, "immediate", uint32_t(d.immediate_op) << 23); break; }
      case a64::InstDB::kEncodingBaseTst: { const auto& d = ED::baseTst[idx];
        V(BaseTst, "shifted", uint32_t(d.shifted_op) << 21); if (d.immediate_op) V(BaseTst, "immediate", uint32_t(d.immediate_op) << 22); break; }
      case a64::InstDB::kEncodingBaseShift: { const auto& d = ED::baseShift[idx];
        V(BaseShift, "register", d.register_op()); if (d.immediate_op()) V(BaseShift, "immediate", d.immediate_op()); break; }
      case a64::InstDB::kEncodingBaseMinMax: { const auto& d = ED::baseMinMax[idx];
        V(BaseMinMax, "register", d.register_op); V(BaseMinMax, "immediate", d.immediate_op); break; }
      case a64::InstDB::kEncodingBaseLdSt: { const auto& d = ED::baseLdSt[idx];
        V(BaseLdSt, "uoffset", uint32_t(d.u_offset_op) << 22); V(BaseLdSt, "prepost", (uint32_t(d.pre_post_op) << 21) | (1u << 10));
        V(BaseLdSt, "register", (uint32_t(d.register_op) << 21) | (1u << 11)); if (d.literal_op) V(BaseLdSt, "literal", uint32_t(d.literal_op) << 24); break; }
      case a64::InstDB::kEncodingBaseLdpStp: { const auto& d = ED::baseLdpStp[idx];
        V(BaseLdpStp, "offset", uint32_t(d.offset_op) << 22); if (d.pre_post_op) V(BaseLdpStp, "prepost", uint32_t(d.pre_post_op) << 22); break; }
      case a64::InstDB::kEncodingBaseRM_SImm9: { const auto& d = ED::baseRM_SImm9[idx];
        V(BaseRM_SImm9, "offset", d.offset_op()); if (d.pre_post_op()) V(BaseRM_SImm9, "prepost", d.pre_post_op()); break; }
      case a64::InstDB::kEncodingBaseRM_SImm10: { const auto& d = ED::baseRM_SImm10[idx]; V(BaseRM_SImm10, "opcode", d.opcode()); break; }
      case a64::InstDB::kEncodingBasePrfm: { const auto& d = ED::basePrfm[idx];
        V(BasePrfm, "register", (uint32_t(d.register_op) << 21) | (1u << 11)); V(BasePrfm, "soffset", uint32_t(d.s_offset_op) << 22);
        V(BasePrfm, "uoffset", uint32_t(d.u_offset_op) << 21); V(BasePrfm, "literal", uint32_t(d.literal_op) << 24); break; }
      case a64::InstDB::kEncodingSimdLdSt: { const auto& d = ED::simdLdSt[idx];
        V(SimdLdSt, "uoffset", uint32_t(d.u_offset_op) << 22); V(SimdLdSt, "prepost", (uint32_t(d.pre_post_op) << 21) | (1u << 10));
        V(SimdLdSt, "register", (uint32_t(d.register_op) << 21) | (1u << 11)); if (d.literal_op) V(SimdLdSt, "literal", uint32_t(d.literal_op) << 24); break; }
      case a64::InstDB::kEncodingSimdLdpStp: { const auto& d = ED::simdLdpStp[idx];
        V(SimdLdpStp, "offset", uint32_t(d.offset_op) << 22); if (d.pre_post_op) V(SimdLdpStp, "prepost", uint32_t(d.pre_post_op) << 22); break; }
      case a64::InstDB::kEncodingSimdLdurStur: { const auto& d = ED::simdLdurStur[idx]; V(SimdLdurStur, "opcode", uint32_t(d.opcode) << 10); break; }
      case a64::InstDB::kEncodingISimdVVVV: { const auto& d = ED::iSimdVVVV[idx]; V(ISimdVVVV, "opcode", uint32_t(d.opcode) << 10); break; }
      case a64::InstDB::kEncodingISimdVVVVx: { const auto& d = ED::iSimdVVVVx[idx]; V(ISimdVVVVx, "opcode", uint32_t(d.opcode) << 10); break; }
#define LIT(CLS) case a64::InstDB::kEncoding##CLS: V(CLS, "lit", 0); break;
      LIT(BaseRev) LIT(BaseMov) LIT(BaseAtDcIcTlbi) LIT(BaseSys) LIT(BaseMrs) LIT(BaseMsr) LIT(SimdFcsel) LIT(SimdFcvt) LIT(SimdFmov) LIT(SimdDup) LIT(SimdIns)
#undef LIT
      case a64::InstDB::kEncodingSimdFcvtSV: { const auto& d = ED::simdFcvtSV[idx];
        V(SimdFcvtSV, "general", d.general_op()); if (d.is_fixed_point()) V(SimdFcvtSV, "general_fixed", d.general_op() ^ (1u << 21));
        V(SimdFcvtSV, "int_scalar", d.scalar_int_op()); V(SimdFcvtSV, "int_vector", d.vector_int_op());
        if (d.is_fixed_point()) { V(SimdFcvtSV, "scalar_fixed", d.scalar_fp_op()); V(SimdFcvtSV, "vector_fixed", d.vector_fp_op()); } break; }
      case a64::InstDB::kEncodingSimdLdNStN: { const auto& d = ED::simdLdNStN[idx];
        if (d.replicate) V(SimdLdNStN, "replicate", uint32_t(d.single_op) << 10);
        else { V(SimdLdNStN, "single", uint32_t(d.single_op) << 10); V(SimdLdNStN, "multiple", uint32_t(d.multiple_op) << 10); } break; }
      case a64::InstDB::kEncodingSimdCmp: { const auto& d = ED::simdCmp[idx];
        if (d.register_op) V(SimdCmp, "reg3", uint32_t(d.register_op) << 10); if (d.zero_op) V(SimdCmp, "zero", uint32_t(d.zero_op) << 10); break; }
      case a64::InstDB::kEncodingSimdFmlal: { const auto& d = ED::simdFmlal[idx];
        if (d._vector_op) V(SimdFmlal, "regular", d.vector_op()); if (d._elementOp) V(SimdFmlal, "element", d.element_op()); break; }
      case a64::InstDB::kEncodingSimdFcvtLN: { const auto& d = ED::simdFcvtLN[idx];
        V(SimdFcvtLN, "ln_vector", d.vector_op()); if (d.has_scalar()) V(SimdFcvtLN, "ln_scalar", d.scalar_op()); break; }
      case a64::InstDB::kEncodingSimdDot: { const auto& d = ED::simdDot[idx];
        if (d.vector_op) V(SimdDot, "regular", uint32_t(d.vector_op) << 10); if (d.element_op) V(SimdDot, "element", uint32_t(d.element_op) << 10); break; }
      case a64::InstDB::kEncodingSimdFcm: { const auto& d = ED::simdFcm[idx];
        if (d.has_register_op()) { V(SimdFcm, "register_scalar", d.register_scalar_op()); V(SimdFcm, "register_vector", d.register_vector_op()); }
        if (d.has_zero_op()) { V(SimdFcm, "zero_scalar", d.zero_scalar_op()); V(SimdFcm, "zero_vector", d.zero_vector_op()); } break; }
      case a64::InstDB::kEncodingSimdSxtlUxtl: { const auto& d = ED::simdSxtlUxtl[idx]; V(SimdSxtlUxtl, "opcode", uint32_t(d.opcode) << 10); break; }
      case a64::InstDB::kEncodingSimdSmovUmov: { const auto& d = ED::simdSmovUmov[idx]; V(SimdSmovUmov, "opcode", uint32_t(d.opcode) << 10); break; }
      case a64::InstDB::kEncodingSimdTblTbx: { const auto& d = ED::simdTblTbx[idx]; V(SimdTblTbx, "opcode", uint32_t(d.opcode) << 10); break; }
      case a64::InstDB::kEncodingISimdPair: { const auto& d = ED::iSimdPair[idx];
        if (d.opcode2) V(ISimdPair, "scalar", (uint32_t(d.opcode2) << 10) | (3u << 22)); V(ISimdPair, "vector", uint32_t(d.opcode3) << 10); break; }
      case a64::InstDB::kEncodingSimdBicOrr: { const auto& d = ED::simdBicOrr[idx]; V(SimdBicOrr, "reg3", uint32_t(d.register_op) << 10); break; }
      case a64::InstDB::kEncodingFSimdSV: { const auto& d = ED::fSimdSV[idx]; V(FSimdSV, "opcode", uint32_t(d.opcode) << 10); break; }
      case a64::InstDB::kEncodingSimdFcadd: { const auto& d = ED::simdFcadd[idx]; V(SimdFcadd, "opcode", d.opcode()); break; }
      case a64::InstDB::kEncodingSimdSm3tt: { const auto& d = ED::simdSm3tt[idx]; V(SimdSm3tt, "opcode", uint32_t(d.opcode) << 10); break; }
      case a64::InstDB::kEncodingFSimdVV: { const auto& d = ED::fSimdVV[idx]; if (d.scalar_op()) V(FSimdVV, "scalar", d.scalar_op()); if (d.vector_op()) V(FSimdVV, "vector", d.vector_op()); break; }
      case a64::InstDB::kEncodingFSimdVVV: { const auto& d = ED::fSimdVVV[idx]; if (d.scalar_op()) V(FSimdVVV, "scalar", d.scalar_op()); if (d.vector_op()) V(FSimdVVV, "vector", d.vector_op()); break; }
      case a64::InstDB::kEncodingFSimdVVVV: { const auto& d = ED::fSimdVVVV[idx]; if (d.scalar_op()) V(FSimdVVVV, "scalar", d.scalar_op()); if (d.vector_op()) V(FSimdVVVV, "vector", d.vector_op()); break; }
      case a64::InstDB::kEncodingFSimdVVVe: { const auto& d = ED::fSimdVVVe[idx];
        if (d.scalar_op()) V(FSimdVVVe, "scalar", d.scalar_op()); if (d.vector_op()) V(FSimdVVVe, "vector", d.vector_op());
        V(FSimdVVVe, "element_scalar", d.element_scalar_op()); V(FSimdVVVe, "element_vector", d.element_vector_op()); break; }
      case a64::InstDB::kEncodingFSimdPair: { const auto& d = ED::fSimdPair[idx]; V(FSimdPair, "scalar", d.scalar_op()); V(FSimdPair, "vector", d.vector_op()); break; }
      case a64::InstDB::kEncodingISimdVVVe: { const auto& d = ED::iSimdVVVe[idx];
        V(ISimdVVVe, "regular", uint32_t(d.regular_op) << 10); V(ISimdVVVe, "element", uint32_t(d.element_op) << 10); break; }
      case a64::InstDB::kEncodingSimdShift: { const auto& d = ED::simdShift[idx];
        if (d.register_op) V(SimdShift, "register", uint32_t(d.register_op) << 10); if (d.immediate_op) V(SimdShift, "immediate", uint32_t(d.immediate_op) << 10); break; }
      case a64::InstDB::kEncodingSimdShiftES: { const auto& d = ED::simdShiftES[idx]; V(SimdShiftES, "opcode", uint32_t(d.opcode) << 10); break; }
#undef V
      default: break;
    }
  }
  return 0;
}

// C15 correspondence scripts: the SAME line is answered by the extracted Coq model (ml/c15_driver.ml).
//   S vec <isz> <mask> <ops...>     a<x> p<x> i<idx>:<x> g<n> t<n> r<n> f<n> w<n> c o
//   S hash <mask> <ops...>          i<key> d<key>
//   S pool <mask> <ops...>          c<hex bytes>
//   S holder <mask> <ops...>        L R F<li> E<li> D B<li> S<order> A<addr> C<addr>
// mask: none | one:k | from:k | set:a,b,...   (indices of the arena requests (H1 kinds 0 and 3) made by the script)
// Answer: "S <kind>" + one token per op (result/state digest) + " | final state dump" + " req=<number of arena requests>".
#ifndef C15_SCRIPT_H
#define C15_SCRIPT_H

static int err_code(Error e) { return e == Error::kOk ? 0 : e == Error::kOutOfMemory ? 1 : 2; }

static bool arm_mask(const std::string& m) {
  F.reset_counters();
  if (m == "none") { F.mode = FM_NONE; F.armed = true; return true; }
  if (!parse_pattern(m.c_str())) return false;
  F.mode = FM_ARENA;
  F.armed = true;
  return true;
}
static void disarm() { F.armed = false; F.mode = FM_NONE; }

struct Item12 { uint32_t a, b, c; };

template<typename T> static T mk_item(uint32_t x);
template<> uint32_t mk_item<uint32_t>(uint32_t x) { return x; }
template<> uint64_t mk_item<uint64_t>(uint32_t x) { return x; }
template<> Item12 mk_item<Item12>(uint32_t x) { return Item12{x, 0, 0}; }
static uint32_t item_val(uint32_t v) { return v; }
static uint32_t item_val(uint64_t v) { return uint32_t(v); }
static uint32_t item_val(const Item12& v) { return v.a | v.b | v.c; }

template<typename T>
static void script_vec(const std::vector<std::string>& t, size_t first) {
  Arena arena(4096);
  ArenaVector<T> v;
  std::string out = "S vec";
  if (!arm_mask(t[3])) { printf("BAD mask\n"); return; }
  for (size_t i = first; i < t.size(); i++) {
    const char* s = t[i].c_str();
    Error e = Error::kOk;
    F.armed = true;
    switch (s[0]) {
      case 'a': e = v.append(arena, mk_item<T>(uint32_t(strtoul(s + 1, nullptr, 10)))); break;
      case 'p': e = v.prepend(arena, mk_item<T>(uint32_t(strtoul(s + 1, nullptr, 10)))); break;
      case 'i': {
        char* end = nullptr;
        unsigned long idx = strtoul(s + 1, &end, 10);
        uint32_t x = uint32_t(strtoul(end + 1, nullptr, 10));
        e = v.insert(arena, idx % (v.size() + 1), mk_item<T>(x));
        break;
      }
      case 'g': e = v.resize_grow(arena, strtoul(s + 1, nullptr, 10)); break;
      case 't': e = v.resize_fit(arena, strtoul(s + 1, nullptr, 10)); break;
      case 'r': e = v.reserve_additional(arena, strtoul(s + 1, nullptr, 10)); break;
      case 'f': e = v.reserve_fit(arena, strtoul(s + 1, nullptr, 10)); break;
      case 'w': e = v.reserve_grow(arena, strtoul(s + 1, nullptr, 10)); break;
      case 'c': v.clear(); break;
      case 'o': if (!v.is_empty()) (void)v.pop(); break;
      default: e = Error::kInvalidArgument; break;
    }
    F.armed = false;
    char buf[64];
    snprintf(buf, sizeof(buf), " %d/%zu/%zu", err_code(e), size_t(v.size()), size_t(v.capacity()));
    out += buf;
  }
  long req = F.n_arena;
  disarm();
  out += " |";
  if (v.is_empty()) out += " -";
  else { out += " "; for (size_t i = 0; i < v.size(); i++) { if (i) out += ","; out += std::to_string(item_val(v[i])); } }
  out += " req=" + std::to_string(req);
  printf("%s\n", out.c_str());
  v.release(arena);
}

struct SNode : ArenaHashNode {
  uint32_t key;
  explicit SNode(uint32_t k) : ArenaHashNode(k), key(k) {}
};
struct SKey {
  uint32_t key;
  uint32_t hash_code() const { return key; }
  bool matches(const SNode* n) const { return n->key == key; }
};

static void script_hash(const std::vector<std::string>& t) {
  Arena arena(4096);
  ArenaHash<SNode> h;
  std::vector<uint32_t> mentioned;
  std::vector<uint32_t> live;
  std::string out = "S hash";
  if (!arm_mask(t[2])) { printf("BAD mask\n"); return; }
  for (size_t i = 3; i < t.size(); i++) {
    const char* s = t[i].c_str();
    uint32_t key = uint32_t(strtoul(s + 1, nullptr, 10));
    int r = 0;
    if (std::find(mentioned.begin(), mentioned.end(), key) == mentioned.end()) mentioned.push_back(key);
    F.armed = true;
    if (s[0] == 'i') {
      SNode* n = arena.new_oneshot<SNode>(key);
      if (!n) r = 1;
      else { h.insert(arena, n); live.push_back(key); }
    }
    else if (s[0] == 'd') {
      SNode* n = h.get(SKey{key});
      if (!n) r = 2;
      else { h.remove(arena, n); live.erase(std::find(live.begin(), live.end(), key)); }
    }
    else r = 2;
    F.armed = false;
    char buf[64];
    snprintf(buf, sizeof(buf), " %d/%zu/%u", r, h.size(), unsigned(h._buckets_count));
    out += buf;
  }
  long req = F.n_arena;
  disarm();
  // final dump: every node reachable through the bucket array, sorted
  std::vector<uint32_t> keys;
  for (uint32_t b = 0; b < h._buckets_count; b++)
    for (ArenaHashNode* n = h._data[b]; n; n = n->_hash_next) keys.push_back(static_cast<SNode*>(n)->key);
  std::sort(keys.begin(), keys.end());
  out += " |";
  if (keys.empty()) out += " -";
  else { out += " "; for (size_t i = 0; i < keys.size(); i++) { if (i) out += ","; out += std::to_string(keys[i]); } }
  out += " get=";
  mentioned.push_back(999983u);
  for (uint32_t k : mentioned) out += h.get(SKey{k}) ? "1" : "0";
  out += " req=" + std::to_string(req);
  printf("%s\n", out.c_str());
  h.release(arena);
}

struct PoolDump {
  std::vector<std::string>* out;
  size_t size;
  void operator()(const ConstPool::Node* n) noexcept {
    char b[32];
    snprintf(b, sizeof(b), "%zu:%d:", size_t(n->_offset), int(n->_shared));
    std::string s = b;
    const uint8_t* d = static_cast<const uint8_t*>(n->data());
    for (size_t i = 0; i < size; i++) { snprintf(b, sizeof(b), "%02x", d[i]); s += b; }
    out->push_back(s);
  }
};

static void script_pool(const std::vector<std::string>& t) {
  Arena arena(4096);
  ConstPool pool(arena);
  std::string out = "S pool";
  if (!arm_mask(t[2])) { printf("BAD mask\n"); return; }
  for (size_t i = 3; i < t.size(); i++) {
    const char* s = t[i].c_str() + 1;
    std::vector<uint8_t> d;
    for (size_t j = 0; s[j] && s[j + 1]; j += 2) { char hx[3] = {s[j], s[j + 1], 0}; d.push_back(uint8_t(strtoul(hx, nullptr, 16))); }
    size_t off = ~size_t(0);
    F.armed = true;
    Error e = pool.add(d.data(), d.size(), Out(off));
    F.armed = false;
    size_t ngp = 0;
    for (ConstPool::Gap* g = pool._gap_pool; g; g = g->_next) ngp++;
    char buf[128];
    if (e == Error::kOk) snprintf(buf, sizeof(buf), " 0/%zu/%zu/%zu/%zu/%zu", off, pool.size(), pool.alignment(), pool.min_item_size(), ngp);
    else snprintf(buf, sizeof(buf), " %d/-/%zu/%zu/%zu/%zu", err_code(e), pool.size(), pool.alignment(), pool.min_item_size(), ngp);
    out += buf;
  }
  long req = F.n_arena;
  disarm();
  out += " | ";
  size_t sz = 1;
  for (size_t ti = 0; ti < ConstPool::kIndexCount; ti++, sz <<= 1) {
    std::vector<std::string> nodes;
    PoolDump pd{&nodes, sz};
    pool._tree[ti].for_each(pd);
    std::sort(nodes.begin(), nodes.end());
    if (ti) out += ";";
    for (size_t i = 0; i < nodes.size(); i++) { if (i) out += ","; out += nodes[i]; }
  }
  out += " | ";
  for (size_t ti = 0; ti < ConstPool::kIndexCount; ti++) {
    if (ti) out += ";";
    bool firstg = true;
    for (ConstPool::Gap* g = pool._gaps[ti]; g; g = g->_next) {
      if (!firstg) out += ",";
      firstg = false;
      out += std::to_string(g->_offset) + ":" + std::to_string(g->_size);
    }
  }
  out += " req=" + std::to_string(req);
  printf("%s\n", out.c_str());
}

static void script_holder(const std::vector<std::string>& t) {
  CodeHolder code;
  x86::Assembler a;
  if (code.init(Environment(Arch::kX64)) != Error::kOk || code.attach(&a) != Error::kOk) { printf("BAD holder setup\n"); return; }
  uint8_t zero[16] = {0};
  (void)a.embed(zero, sizeof(zero));
  std::vector<Label> labels;
  std::string out = "S holder";
  if (!arm_mask(t[2])) { printf("BAD mask\n"); return; }
  for (size_t i = 3; i < t.size(); i++) {
    const char* s = t[i].c_str();
    size_t li = size_t(strtoul(s + 1, nullptr, 10));
    int r = 0;
    F.armed = true;
    switch (s[0]) {
      case 'L': {
        uint32_t id = Globals::kInvalidId;
        r = err_code(code.new_label_id(Out(id)));
        if (r == 0) labels.push_back(Label(id));
        break;
      }
      case 'R': { RelocEntry* re = nullptr; r = err_code(code.new_reloc_entry(Out(re), RelocType::kAbsToAbs)); break; }
      case 'F': {
        if (li < labels.size() && !code.is_label_bound(labels[li])) {
          OffsetFormat of;
          of.reset_to_simple_value(OffsetType::kSignedOffset, 4);
          Fixup* fx = code.new_fixup(code.label_entry_of(labels[li]), 0, 0, 0, of);
          r = fx ? 0 : 1;
        }
        else r = 2;
        break;
      }
      case 'E': r = (li < labels.size()) ? err_code(a.embed_label(labels[li])) : 2; break;
      case 'D': r = labels.empty() ? 2 : err_code(a.embed_label_delta(labels[0], labels[0], 4)); break;
      case 'B': r = (li < labels.size()) ? err_code(a.bind(labels[li])) : 2; break;
      case 'S': {
        Section* sec = nullptr;
        char nm[24];
        snprintf(nm, sizeof(nm), ".s%zu", i);
        r = err_code(code.new_section(Out(sec), nm, SIZE_MAX, SectionFlags::kNone, 1, int32_t(strtol(s + 1, nullptr, 10))));
        break;
      }
      case 'A': r = err_code(code.add_address_to_address_table(strtoull(s + 1, nullptr, 10))); break;
      case 'C': r = err_code(a.call(imm(uint64_t(strtoull(s + 1, nullptr, 10))))); break;
      default: r = 2; break;
    }
    F.armed = false;
    char buf[128];
    Section* at = code.address_table_section();
    snprintf(buf, sizeof(buf), " %d/%zu/%zu/%zu/%zu/%zu/%zu", r, size_t(code.label_count()), code.reloc_entries().size(), code.unresolved_fixup_count(),
             code._fixup_data_pool.pooled_item_count(), size_t(code.section_count()), at ? size_t(at->virtual_size() / 8) : size_t(0));
    out += buf;
  }
  long req = F.n_arena;
  disarm();
  out += " |";
  if (labels.empty()) out += " -";
  for (size_t i = 0; i < labels.size(); i++) {
    LabelEntry& le = code.label_entry_of(labels[i]);
    size_t nf = 0;
    if (!le.is_bound()) for (Fixup* f = le._get_fixups(); f; f = f->next) nf++;
    out += (i ? "," : " ") + std::to_string(int(le.is_bound())) + ":" + std::to_string(nf);
  }
  out += " |";
  if (code.reloc_entries().is_empty()) out += " -";
  bool firstr = true;
  for (const RelocEntry* re : code.reloc_entries()) { out += (firstr ? " " : ","); firstr = false; out += std::to_string(uint32_t(re->reloc_type())); }
  out += " |";
  for (size_t i = 0; i < code.sections().size(); i++) out += (i ? "," : " ") + std::to_string(code.sections()[i]->order());
  out += " |";
  for (size_t i = 0; i < code.sections_by_order().size(); i++) out += (i ? "," : " ") + std::to_string(code.sections_by_order()[i]->section_id());
  out += " | " + (code.address_table_section() ? std::to_string(code.address_table_section()->section_id()) : std::string("-"));
  out += " req=" + std::to_string(req);
  printf("%s\n", out.c_str());
}

// S builder <mask> <ops...>   n (new_label) b<li> (bind) s<sid> (section) i (nop) S<order> (CodeHolder::new_section)
static void script_builder(const std::vector<std::string>& t) {
  CodeHolder code;
  x86::Builder b;
  if (code.init(Environment(Arch::kX64)) != Error::kOk || code.attach(&b) != Error::kOk) { printf("BAD builder setup\n"); return; }
  std::string out = "S builder";
  if (!arm_mask(t[2])) { printf("BAD mask\n"); return; }
  for (size_t i = 3; i < t.size(); i++) {
    const char* s = t[i].c_str();
    size_t arg = size_t(strtoul(s + 1, nullptr, 10));
    int r = 0;
    F.armed = true;
    switch (s[0]) {
      case 'n': { Label l = b.new_label(); r = l.is_valid() ? 0 : 1; break; }
      case 'b': { Label l; l.set_id(uint32_t(arg)); r = err_code(b.bind(l)); break; }
      case 's': r = arg < code.section_count() ? err_code(b.section(code.section_by_id(uint32_t(arg)))) : 2; break;
      case 'i': r = err_code(b.nop()); break;
      case 'S': {
        Section* sec = nullptr;
        char nm[24];
        snprintf(nm, sizeof(nm), ".s%zu", i);
        r = err_code(code.new_section(Out(sec), nm, SIZE_MAX, SectionFlags::kNone, 1, int32_t(strtol(s + 1, nullptr, 10))));
        break;
      }
      default: r = 2; break;
    }
    F.armed = false;
    char buf[96];
    snprintf(buf, sizeof(buf), " %d/%zu/%zu/%zu/%zu", r, size_t(code.label_count()), size_t(b._label_nodes.size()), size_t(b._section_nodes.size()), size_t(code.section_count()));
    out += buf;
  }
  long req = F.n_arena;
  disarm();
  out += " |";
  for (BaseNode* n = b.first_node(); n; n = n->next()) {
    if (n->type() == NodeType::kSection) out += " S" + std::to_string(n->as<SectionNode>()->section_id());
    else if (n->type() == NodeType::kLabel) out += " L" + std::to_string(n->as<LabelNode>()->label_id());
    else if (n->type() == NodeType::kInst) out += " I";
    else out += " ?";
  }
  out += " | l";
  for (size_t i = 0; i < b._label_nodes.size(); i++) out += b._label_nodes[i] ? "1" : "0";
  out += " | s";
  for (size_t i = 0; i < b._section_nodes.size(); i++) out += b._section_nodes[i] ? "1" : "0";
  out += " req=" + std::to_string(req);
  printf("%s\n", out.c_str());
}

static void run_script(const std::vector<std::string>& t) {
  if (t.size() < 3) { printf("BAD script\n"); return; }
  if (t[1] == "vec" && t.size() >= 4) {
    int isz = atoi(t[2].c_str());
    if (isz == 4) script_vec<uint32_t>(t, 4);
    else if (isz == 8) script_vec<uint64_t>(t, 4);
    else if (isz == 12) script_vec<Item12>(t, 4);
    else printf("BAD item size\n");
  }
  else if (t[1] == "hash") script_hash(t);
  else if (t[1] == "pool") script_pool(t);
  else if (t[1] == "holder") script_holder(t);
  else if (t[1] == "builder") script_builder(t);
  else printf("BAD script kind\n");
}

// The prime table is file-static in arenahash.cpp: that file is #included into this TU (c15_harness.cpp), so the COMPILED arrays
// are dumped in full (cross-check of the python source parser that feeds coq/gen/C15Tables.v) and the REAL _calc_mod is evaluated
// with each row installed ("M <row> <hash>..." -> "M <hash mod prime as _calc_mod computes it>...").
static void dump_tables(size_t) {
  std::string out = "T rows";
  for (size_t i = 0; i < ASMJIT_ARRAY_SIZE(ArenaHash_prime_array); i++)
    out += " " + std::to_string(ArenaHash_prime_array[i].prime) + ":" + std::to_string(ArenaHash_prime_array[i].rcp) + ":" + std::to_string(unsigned(ArenaHash_prime_shift[i]));
  printf("%s\n", out.c_str());
}

static void calc_mod_cmd(const std::vector<std::string>& t) {
  size_t row = size_t(strtoul(t[1].c_str(), nullptr, 10));
  if (row >= ASMJIT_ARRAY_SIZE(ArenaHash_prime_array)) { printf("BAD row\n"); return; }
  ArenaHashBase h;
  h._buckets_count = ArenaHash_prime_array[row].prime;
  h._rcp_value = ArenaHash_prime_array[row].rcp;
  h._rcp_shift = ArenaHash_prime_shift[row];
  std::string out = "M";
  for (size_t i = 2; i < t.size(); i++) out += " " + std::to_string(h._calc_mod(uint32_t(strtoul(t[i].c_str(), nullptr, 10))));
  printf("%s\n", out.c_str());
}

#endif

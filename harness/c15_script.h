// C15 correspondence scripts: the SAME line is answered by the extracted Coq model (ml/c15_driver.ml).
//   S vec <isz> <mask> <ops...>     a<x> p<x> i<idx>:<x> g<n> t<n> r<n> f<n> w<n> c o
//   S hash <mask> <ops...>          i<key> d<key>
//   S pool <mask> <ops...>          c<hex bytes>
//   S holder <mask> <ops...>        L R F<li> E<li> D B<li> S<order> A<addr> C<addr>
// mask: none | one:k | from:k | set:a,b,...   (indices of the arena requests (H1 kinds 0 and 3) made by the script)
// Answer: "S <kind>" + one token per op (result/state digest) + " | final state dump" + " req=<number of arena requests>".
#ifndef C15_SCRIPT_H
#define C15_SCRIPT_H

static int err_code(Error e) { return e == Error::kOk ? 0 : e == Error::kOutOfMemory ? 1 : 2; }

static bool arm_mask(const std::string& m) {
  F.reset_counters();
  if (m == "none") { F.mode = FM_NONE; F.armed = true; return true; }
  if (!parse_pattern(m.c_str())) return false;
  F.mode = FM_ARENA;
  F.armed = true;
  return true;
}
static void disarm() { F.armed = false; F.mode = FM_NONE; }

struct Item12 { uint32_t a, b, c; };

template<typename T> static T mk_item(uint32_t x);
template<> uint32_t mk_item<uint32_t>(uint32_t x) { return x; }
template<> uint64_t mk_item<uint64_t>(uint32_t x) { return x; }
template<> Item12 mk_item<Item12>(uint32_t x) { return Item12{x, 0, 0}; }
static uint32_t item_val(uint32_t v) { return v; }
static uint32_t item_val(uint64_t v) { return uint32_t(v); }
static uint32_t item_val(const Item12& v) { return v.a | v.b | v.c; }

template<typename T>
static void script_vec(const std::vector<std::string>& t, size_t first) {
  Arena arena(4096);
  ArenaVector<T> v;
  std::string out = "S vec";
  if (!arm_mask(t[3])) { printf("BAD mask\n"); return; }
  for (size_t i = first; i < t.size(); i++) {
    const char* s = t[i].c_str();
    Error e = Error::kOk;
    F.armed = true;
    switch (s[0]) {
      case 'a': e = v.append(arena, mk_item<T>(uint32_t(strtoul(s + 1, nullptr, 10)))); break;
      case 'p': e = v.prepend(arena, mk_item<T>(uint32_t(strtoul(s + 1, nullptr, 10)))); break;
      case 'i': {
        char* end = nullptr;
        unsigned long idx = strtoul(s + 1, &end, 10);
        uint32_t x = uint32_t(strtoul(end + 1, nullptr, 10));
        e = v.insert(arena, idx % (v.size() + 1), mk_item<T>(x));
        break;
      }
      case 'g': e = v.resize_grow(arena, strtoul(s + 1, nullptr, 10)); break;
      case 't': e = v.resize_fit(arena, strtoul(s + 1, nullptr, 10)); break;
      case 'r': e = v.reserve_additional(arena, strtoul(s + 1, nullptr, 10)); break;
      case 'f': e = v.reserve_fit(arena, strtoul(s + 1, nullptr, 10)); break;
      case 'w': e = v.reserve_grow(arena, strtoul(s + 1, nullptr, 10)); break;
      case 'c': v.clear(); break;
      case 'o': if (!v.is_empty()) (void)v.pop(); break;
      default: e = Error::kInvalidArgument; break;
    }
    F.armed = false;
    char buf[64];
    snprintf(buf, sizeof(buf), " %d/%zu/%zu", err_code(e), size_t(v.size()), size_t(v.capacity()));
    out += buf;
  }
  long req = F.n_arena;
  disarm();
  out += " |";
  if (v.is_empty()) out += " -";
  else { out += " "; for (size_t i = 0; i < v.size(); i++) { if (i) out += ","; out += std::to_string(item_val(v[i])); } }
  out += " req=" + std::to_string(req);
  printf("%s\n", out.c_str());
  v.release(arena);
}

struct SNode : ArenaHashNode {
  uint32_t key;
  explicit SNode(uint32_t k) : ArenaHashNode(k), key(k) {}
};
struct SKey {
  uint32_t key;
  uint32_t hash_code() const { return key; }
  bool matches(const SNode* n) const { return n->key == key; }
};

static void script_hash(const std::vector<std::string>& t) {
  Arena arena(4096);
  ArenaHash<SNode> h;
  std::vector<uint32_t> mentioned;
  std::vector<uint32_t> live;
  std::string out = "S hash";
  if (!arm_mask(t[2])) { printf("BAD mask\n"); return; }
  for (size_t i = 3; i < t.size(); i++) {
    const char* s = t[i].c_str();
    uint32_t key = uint32_t(strtoul(s + 1, nullptr, 10));
    int r = 0;
    if (std::find(mentioned.begin(), mentioned.end(), key) == mentioned.end()) mentioned.push_back(key);
    F.armed = true;
    if (s[0] == 'i') {
      SNode* n = arena.new_oneshot<SNode>(key);
      if (!n) r = 1;
      else { h.insert(arena, n); live.push_back(key); }
    }
    else if (s[0] == 'd') {
      SNode* n = h.get(SKey{key});
      if (!n) r = 2;
      else { h.remove(arena, n); live.erase(std::find(live.begin(), live.end(), key)); }
    }
    else r = 2;
    F.armed = false;
    char buf[64];
    snprintf(buf, sizeof(buf), " %d/%zu/%u", r, h.size(), unsigned(h._buckets_count));
    out += buf;
  }
  long req = F.n_arena;
  disarm();
  // final dump: every node reachable through the bucket array, sorted
  std::vector<uint32_t> keys;
  for (uint32_t b = 0; b < h._buckets_count; b++)
    for (ArenaHashNode* n = h._data[b]; n; n = n->_hash_next) keys.push_back(static_cast<SNode*>(n)->key);
  std::sort(keys.begin(), keys.end());
  out += " |";
  if (keys.empty()) out += " -";
  else { out += " "; for (size_t i = 0; i < keys.size(); i++) { if (i) out += ","; out += std::to_string(keys[i]); } }
  out += " get=";
  mentioned.push_back(999983u);
  for (uint32_t k : mentioned) out += h.get(SKey{k}) ? "1" : "0";
  out += " req=" + std::to_string(req);
  printf("%s\n", out.c_str());
  h.release(arena);
}

struct PoolDump {
  std::vector<std::string>* out;
  size_t size;
  void operator()(const ConstPool::Node* n) noexcept {
    char b[32];
    snprintf(b, sizeof(b), "%zu:%d:", size_t(n->_offset), int(n->_shared));
    std::string s = b;
    const uint8_t* d = static_cast<const uint8_t*>(n->data());
    for (size_t i = 0; i < size; i++) { snprintf(b, sizeof(b), "%02x", d[i]); s += b; }
    out->push_back(s);
  }
};

static void script_pool(const std::vector<std::string>& t) {
  Arena arena(4096);
  ConstPool pool(arena);
  std::string out = "S pool";
  if (!arm_mask(t[2])) { printf("BAD mask\n"); return; }
  for (size_t i = 3; i < t.size(); i++) {
    const char* s = t[i].c_str() + 1;
    std::vector<uint8_t> d;
    for (size_t j = 0; s[j] && s[j + 1]; j += 2) { char hx[3] = {s[j], s[j + 1], 0}; d.push_back(uint8_t(strtoul(hx, nullptr, 16))); }
    size_t off = ~size_t(0);
    F.armed = true;
    Error e = pool.add(d.data(), d.size(), Out(off));
    F.armed = false;
    size_t ngp = 0;
    for (ConstPool::Gap* g = pool._gap_pool; g; g = g->_next) ngp++;
    char buf[128];
    if (e == Error::kOk) snprintf(buf, sizeof(buf), " 0/%zu/%zu/%zu/%zu/%zu", off, pool.size(), pool.alignment(), pool.min_item_size(), ngp);
    else snprintf(buf, sizeof(buf), " %d/-/%zu/%zu/%zu/%zu", err_code(e), pool.size(), pool.alignment(), pool.min_item_size(), ngp);
    out += buf;
  }
  long req = F.n_arena;
  disarm();
  out += " | ";
  size_t sz = 1;
  for (size_t ti = 0; ti < ConstPool::kIndexCount; ti++, sz <<= 1) {
    std::vector<std::string> nodes;
    PoolDump pd{&nodes, sz};
    pool._tree[ti].for_each(pd);
    std::sort(nodes.begin(), nodes.end());
    if (ti) out += ";";
    for (size_t i = 0; i < nodes.size(); i++) { if (i) out += ","; out += nodes[i]; }
  }
  out += " | ";
  for (size_t ti = 0; ti < ConstPool::kIndexCount; ti++) {
    if (ti) out += ";";
    bool firstg = true;
    for (ConstPool::Gap* g = pool._gaps[ti]; g; g = g->_next) {
      if (!firstg) out += ",";
      firstg = false;
      out += std::to_string(g->_offset) + ":" + std::to_string(g->_size);
    }
  }
  out += " req=" + std::to_string(req);
  printf("%s\n", out.c_str());
}

static void script_holder(const std::vector<std::string>& t) {
  CodeHolder code;
  x86::Assembler a;
  if (code.init(Environment(Arch::kX64)) != Error::kOk || code.attach(&a) != Error::kOk) { printf("BAD holder setup\n"); return; }
  uint8_t zero[16] = {0};
  (void)a.embed(zero, sizeof(zero));
  std::vector<Label> labels;
  std::string out = "S holder";
  if (!arm_mask(t[2])) { printf("BAD mask\n"); return; }
  for (size_t i = 3; i < t.size(); i++) {
    const char* s = t[i].c_str();
    size_t li = size_t(strtoul(s + 1, nullptr, 10));
    int r = 0;
    F.armed = true;
    switch (s[0]) {
      case 'L': {
        uint32_t id = Globals::kInvalidId;
        r = err_code(code.new_label_id(Out(id)));
        if (r == 0) labels.push_back(Label(id));
        break;
      }
      case 'R': { RelocEntry* re = nullptr; r = err_code(code.new_reloc_entry(Out(re), RelocType::kAbsToAbs)); break; }
      case 'F': {
        if (li < labels.size() && !code.is_label_bound(labels[li])) {
          OffsetFormat of;
          of.reset_to_simple_value(OffsetType::kSignedOffset, 4);
          Fixup* fx = code.new_fixup(code.label_entry_of(labels[li]), 0, 0, 0, of);
          r = fx ? 0 : 1;
        }
        else r = 2;
        break;
      }
      case 'E': r = (li < labels.size()) ? err_code(a.embed_label(labels[li])) : 2; break;
      case 'D': r = labels.empty() ? 2 : err_code(a.embed_label_delta(labels[0], labels[0], 4)); break;
      case 'B': r = (li < labels.size()) ? err_code(a.bind(labels[li])) : 2; break;
      case 'S': {
        Section* sec = nullptr;
        char nm[24];
        snprintf(nm, sizeof(nm), ".s%zu", i);
        r = err_code(code.new_section(Out(sec), nm, SIZE_MAX, SectionFlags::kNone, 1, int32_t(strtol(s + 1, nullptr, 10))));
        break;
      }
      case 'A': r = err_code(code.add_address_to_address_table(strtoull(s + 1, nullptr, 10))); break;
      case 'C': r = err_code(a.call(imm(uint64_t(strtoull(s + 1, nullptr, 10))))); break;
      default: r = 2; break;
    }
    F.armed = false;
    char buf[128];
    Section* at = code.address_table_section();
    snprintf(buf, sizeof(buf), " %d/%zu/%zu/%zu/%zu/%zu/%zu", r, size_t(code.label_count()), code.reloc_entries().size(), code.unresolved_fixup_count(),
             code._fixup_data_pool.pooled_item_count(), size_t(code.section_count()), at ? size_t(at->virtual_size() / 8) : size_t(0));
    out += buf;
  }
  long req = F.n_arena;
  disarm();
  out += " |";
  if (labels.empty()) out += " -";
  for (size_t i = 0; i < labels.size(); i++) {
    LabelEntry& le = code.label_entry_of(labels[i]);
    size_t nf = 0;
    if (!le.is_bound()) for (Fixup* f = le._get_fixups(); f; f = f->next) nf++;
    out += (i ? "," : " ") + std::to_string(int(le.is_bound())) + ":" + std::to_string(nf);
  }
  out += " |";
  if (code.reloc_entries().is_empty()) out += " -";
  bool firstr = true;
  for (const RelocEntry* re : code.reloc_entries()) { out += (firstr ? " " : ","); firstr = false; out += std::to_string(uint32_t(re->reloc_type())); }
  out += " |";
  for (size_t i = 0; i < code.sections().size(); i++) out += (i ? "," : " ") + std::to_string(code.sections()[i]->order());
  out += " |";
  for (size_t i = 0; i < code.sections_by_order().size(); i++) out += (i ? "," : " ") + std::to_string(code.sections_by_order()[i]->section_id());
  out += " | " + (code.address_table_section() ? std::to_string(code.address_table_section()->section_id()) : std::string("-"));
  out += " req=" + std::to_string(req);
  printf("%s\n", out.c_str());
}

// S builder <mask> <ops...>   n (new_label) b<li> (bind) s<sid> (section) i (nop) l (align) e (embed) E<li> (embed_label)
//                              c (comment) C<i> (set_cursor to node i mod count) p<li> (embed_const_pool) S<order> (new_section)
static void script_builder(const std::vector<std::string>& t) {
  CodeHolder code;
  x86::Builder b;
  if (code.init(Environment(Arch::kX64)) != Error::kOk || code.attach(&b) != Error::kOk) { printf("BAD builder setup\n"); return; }
  Arena pool_arena(4096);
  ConstPool pool(pool_arena);
  { uint64_t c = 0x1122334455667788ull; size_t off; (void)pool.add(&c, 8, Out(off)); }
  std::string out = "S builder";
  if (!arm_mask(t[2])) { printf("BAD mask\n"); return; }
  for (size_t i = 3; i < t.size(); i++) {
    const char* s = t[i].c_str();
    size_t arg = size_t(strtoul(s + 1, nullptr, 10));
    int r = 0;
    Label lab;
    lab.set_id(uint32_t(arg));
    F.armed = true;
    switch (s[0]) {
      case 'n': { Label l = b.new_label(); r = l.is_valid() ? 0 : 1; break; }
      case 'b': r = err_code(b.bind(lab)); break;
      case 's': r = arg < code.section_count() ? err_code(b.section(code.section_by_id(uint32_t(arg)))) : 2; break;
      case 'i': r = err_code(b.nop()); break;
      case 'l': r = err_code(b.align(AlignMode::kCode, 8)); break;
      case 'e': { uint8_t d[5] = {1, 2, 3, 4, 5}; r = err_code(b.embed(d, sizeof(d))); break; }
      case 'E': r = err_code(b.embed_label(lab, 8)); break;
      case 'c': r = err_code(b.comment("a comment")); break;
      case 'C': {
        size_t cnt = 0;
        for (BaseNode* n = b.first_node(); n; n = n->next()) cnt++;
        size_t idx = cnt ? arg % cnt : 0;
        BaseNode* n = b.first_node();
        for (size_t j = 0; j < idx && n; j++) n = n->next();
        b.set_cursor(n);
        break;
      }
      case 'p': r = err_code(b.embed_const_pool(lab, pool)); break;
      case 'S': {
        Section* sec = nullptr;
        char nm[24];
        snprintf(nm, sizeof(nm), ".s%zu", i);
        r = err_code(code.new_section(Out(sec), nm, SIZE_MAX, SectionFlags::kNone, 1, int32_t(strtol(s + 1, nullptr, 10))));
        break;
      }
      default: r = 2; break;
    }
    F.armed = false;
    size_t cur = 0;
    for (BaseNode* n = b.first_node(); n && n != b.cursor(); n = n->next()) cur++;
    char buf[96];
    snprintf(buf, sizeof(buf), " %d/%zu/%zu/%zu/%zu/%zu", r, size_t(code.label_count()), size_t(b._label_nodes.size()), size_t(b._section_nodes.size()),
             size_t(code.section_count()), cur);
    out += buf;
  }
  long req = F.n_arena;
  disarm();
  out += " |";
  for (BaseNode* n = b.first_node(); n; n = n->next()) {
    switch (n->type()) {
      case NodeType::kSection: out += " S" + std::to_string(n->as<SectionNode>()->section_id()); break;
      case NodeType::kLabel: out += " L" + std::to_string(n->as<LabelNode>()->label_id()); break;
      case NodeType::kInst: out += " I"; break;
      case NodeType::kAlign: out += " A"; break;
      case NodeType::kEmbedData: out += " D"; break;
      case NodeType::kComment: out += " C"; break;
      case NodeType::kEmbedLabel: out += " E" + std::to_string(n->as<EmbedLabelNode>()->label_id()); break;
      default: out += " ?"; break;
    }
  }
  out += " | l";
  for (size_t i = 0; i < b._label_nodes.size(); i++) out += b._label_nodes[i] ? "1" : "0";
  out += " | s";
  for (size_t i = 0; i < b._section_nodes.size(); i++) out += b._section_nodes[i] ? "1" : "0";
  out += " req=" + std::to_string(req);
  printf("%s\n", out.c_str());
}

// S vm <mask> <ops...>   m<KiB> VirtMem::alloc   d<KiB> VirtMem::alloc_dual_mapping   u<i> release handle i
//                         j<KiB> JitAllocator::alloc (allocator with kUseDualMapping when the kind is "vmd")   k<i> release span i
// mask: none | v:<pattern> (VM requests = mmap calls of the script) | h:<pattern> (heap requests = malloc/calloc/realloc)
static void script_vm(const std::vector<std::string>& t, bool dual_alloc, bool jit_kind = false) {
  struct Handle { int kind; void* p; VirtMem::DualMapping dm; size_t size; bool live; };
  std::vector<Handle> hs;
  std::vector<void*> spans;
  JitAllocator::CreateParams params;
  params.reset();
  params.options = dual_alloc ? JitAllocatorOptions::kUseDualMapping : JitAllocatorOptions::kNone;
  params.block_size = 65536;
  long h0 = F.live_heap, m0 = F.live_maps, fd0 = count_open_fds();
  std::string out = jit_kind ? (dual_alloc ? "S jitd" : "S jit") : (dual_alloc ? "S vmd" : "S vm");
  std::string req_s;
  {
    JitAllocator al(&params);
    long hbase = F.live_heap;
    F.reset_counters();
    const std::string& m = t[2];
    if (m == "none") F.mode = FM_NONE;
    else if (m.size() > 2 && m[1] == ':' && parse_pattern(m.c_str() + 2)) F.mode = (m[0] == 'v') ? FM_VM : FM_HEAP;
    else { printf("BAD mask\n"); return; }
    for (size_t i = 3; i < t.size(); i++) {
      const char* s = t[i].c_str();
      size_t arg = size_t(strtoul(s + 1, nullptr, 10));
      int r = 0;
      F.armed = true;
      switch (s[0]) {
        case 'm': { Handle h{0, nullptr, {}, arg * 1024, false}; r = err_code(VirtMem::alloc(&h.p, h.size, VirtMem::MemoryFlags::kAccessRW)); h.live = (r == 0); hs.push_back(h); break; }
        case 'd': { Handle h{1, nullptr, {}, arg * 1024, false}; r = err_code(VirtMem::alloc_dual_mapping(Out(h.dm), h.size, VirtMem::MemoryFlags::kAccessRWX)); h.live = (r == 0); hs.push_back(h); break; }
        case 'u':
          if (arg < hs.size() && hs[arg].live && hs[arg].kind != 2) {
            r = err_code(hs[arg].kind ? VirtMem::release_dual_mapping(hs[arg].dm, hs[arg].size) : VirtMem::release(hs[arg].p, hs[arg].size));
            hs[arg].live = false;
          }
          else r = 2;
          break;
        case 'b': {   // JitAllocator_new_block of jitallocator.cpp (file-static; that file is #included into this TU)
          JitAllocatorPrivateImpl* impl = static_cast<JitAllocatorPrivateImpl*>(al._impl);
          JitAllocatorBlock* blk = nullptr;
          r = err_code(JitAllocator_new_block(impl, &blk, &impl->pools[0], arg * 1024));
          Handle h{2, blk, {}, 0, r == 0};
          hs.push_back(h);
          break;
        }
        case 'x':
          if (arg < hs.size() && hs[arg].live && hs[arg].kind == 2) {
            JitAllocatorImpl_deleteBlock(static_cast<JitAllocatorPrivateImpl*>(al._impl), static_cast<JitAllocatorBlock*>(hs[arg].p));
            hs[arg].live = false;
          }
          else r = 2;
          break;
        case 'j': { JitAllocator::Span sp; r = err_code(al.alloc(Out(sp), arg)); spans.push_back(r == 0 ? sp.rx() : nullptr); break; }
        case 'k':
          if (arg < spans.size() && spans[arg]) { r = err_code(al.release(spans[arg])); spans[arg] = nullptr; }
          else r = 2;
          break;
        case 'h': {   // h<i>:<n>  JitAllocator::shrink(span i, n); n = 0 releases the span
          const char* colon = strchr(s, ':');
          size_t n = colon ? size_t(strtoul(colon + 1, nullptr, 10)) : 0;
          if (arg < spans.size() && spans[arg]) {
            JitAllocator::Span sp;
            r = err_code(al.query(Out(sp), spans[arg]));
            if (r == 0) { r = err_code(al.shrink(sp, n)); if (r == 0 && n == 0) spans[arg] = nullptr; }
          }
          else r = 2;
          break;
        }
        case 'q':   // q<i>  JitAllocator::query(span i): a look-up, touches nothing
          if (jit_kind && arg < spans.size() && spans[arg]) { JitAllocator::Span sp; r = err_code(al.query(Out(sp), spans[arg])); }
          else r = 2;
          break;
        case 'r':   // r0 / r1  JitAllocator::reset(kSoft / kHard): every span is gone afterwards
          if (jit_kind) { al.reset(arg ? ResetPolicy::kHard : ResetPolicy::kSoft); for (auto& sp : spans) sp = nullptr; }
          else r = 2;
          break;
        default: r = 2; break;
      }
      F.armed = false;
      char buf[96];
      if (jit_kind) snprintf(buf, sizeof(buf), " %d/%ld/%ld/%zu", r, F.live_maps - m0, F.live_heap - hbase, al.statistics().block_count());
      else snprintf(buf, sizeof(buf), " %d/%ld/%ld", r, F.live_maps - m0, F.live_heap - hbase);
      out += buf;
    }
    req_s = " req=" + std::to_string(F.n_vm) + "," + std::to_string(F.n_heap);
    F.mode = FM_NONE;
    for (auto& h : hs) if (h.live) {
      if (h.kind == 2) JitAllocatorImpl_deleteBlock(static_cast<JitAllocatorPrivateImpl*>(al._impl), static_cast<JitAllocatorBlock*>(h.p));
      else if (h.kind) (void)VirtMem::release_dual_mapping(h.dm, h.size);
      else (void)VirtMem::release(h.p, h.size);
    }
  }
  char tail[96];
  snprintf(tail, sizeof(tail), " | end %ld/%ld/%ld", F.live_maps - m0, F.live_heap - h0, count_open_fds() - fd0);
  out += tail;
  out += req_s;
  printf("%s\n", out.c_str());
}

// S ra <mask> <ops...>   g<w> BaseRAPass::get_or_create_stack_slot(work reg w)   a<w> BaseRAPass::work_reg_as_mem(work reg w)
static void script_ra(const std::vector<std::string>& t) {
  CodeHolder code;
  x86::Compiler cc;
  if (code.init(Environment(Arch::kX64)) != Error::kOk || code.attach(&cc) != Error::kOk) { printf("BAD ra setup\n"); return; }
  constexpr int kRegs = 8;
  Arena arena(4096);
  x86::X86RAPass pass(cc);
  pass._stack_allocator.reset(&arena);
  std::vector<RAWorkReg*> wr;
  for (int i = 0; i < kRegs; i++) {
    x86::Gp g = cc.new_gp32();
    VirtReg* vr = cc.virt_reg_by_id(g.id());
    if (!vr) { printf("BAD ra vreg\n"); return; }
    wr.push_back(new RAWorkReg(vr, g.signature(), RAWorkId(i)));
  }
  std::string out = "S ra";
  if (!arm_mask(t[2])) { printf("BAD mask\n"); return; }
  for (size_t i = 3; i < t.size(); i++) {
    const char* s = t[i].c_str();
    size_t w = size_t(strtoul(s + 1, nullptr, 10)) % kRegs;
    int r = 0;
    F.armed = true;
    if (s[0] == 'g') r = pass.get_or_create_stack_slot(wr[w]) ? 0 : 1;
    else if (s[0] == 'a') { BaseMem m = pass.work_reg_as_mem(wr[w]); r = m.is_reg_home() ? 0 : 2; }
    else r = 2;
    F.armed = false;
    char buf[64];
    snprintf(buf, sizeof(buf), " %d/%zu/%zu/", r, size_t(pass._stack_allocator._slots.size()), size_t(pass._stack_allocator._slots.capacity()));
    out += buf;
    for (int j = 0; j < kRegs; j++) out += wr[j]->stack_slot() ? "1" : "0";
  }
  long req = F.n_arena;
  disarm();
  out += " |";
  // which work register owns slot i (creation order)
  for (size_t i = 0; i < pass._stack_allocator._slots.size(); i++) {
    int owner = -1;
    for (int j = 0; j < kRegs; j++) if (wr[j]->stack_slot() == pass._stack_allocator._slots[i]) owner = j;
    out += " " + std::to_string(owner);
  }
  if (pass._stack_allocator._slots.is_empty()) out += " -";
  out += " req=" + std::to_string(req);
  printf("%s\n", out.c_str());
  for (RAWorkReg* p : wr) delete p;
}

// S str <mask> <ops...>   a<hex> append   s<hex> assign   c<n> append_chars('z', n)   C<n> assign_chars('z', n)   x clear   r reset
//                          t<n> truncate          mask: none | h:<pattern> on the heap requests (malloc) of the script
static void script_str(const std::vector<std::string>& t) {
  std::string out = "S str";
  long nheap = 0;
  {
    String st;
    F.reset_counters();
    const std::string& m = t[2];
    if (m == "none") F.mode = FM_NONE;
    else if (m.size() > 2 && m[0] == 'h' && m[1] == ':' && parse_pattern(m.c_str() + 2)) F.mode = FM_HEAP;
    else { printf("BAD mask\n"); return; }
    for (size_t i = 3; i < t.size(); i++) {
      const char* s = t[i].c_str();
      std::string d;
      for (size_t j = 1; s[j] && s[j + 1]; j += 2) { char hx[3] = {s[j], s[j + 1], 0}; d.push_back(char(strtoul(hx, nullptr, 16))); }
      size_t n = size_t(strtoul(s + 1, nullptr, 10));
      Error e = Error::kOk;
      F.armed = true;
      switch (s[0]) {
        case 'a': e = st.append(d.data(), d.size()); break;
        case 's': e = st.assign(d.data(), d.size()); break;
        case 'c': e = st.append_chars('z', n); break;
        case 'C': e = st.assign_chars('z', n); break;
        case 'x': e = st.clear(); break;
        case 'r': e = st.reset(); break;
        case 't': e = st.truncate(n); break;
        default: e = Error::kInvalidArgument; break;
      }
      F.armed = false;
      char buf[64];
      snprintf(buf, sizeof(buf), " %d/%zu/%zu/%d", err_code(e), st.size(), st.capacity(), int(st.is_large_or_external()));
      out += buf;
      if (st.data()[st.size()] != 0) out += "!noterm";
    }
    nheap = F.n_heap;
    F.mode = FM_NONE;
    out += " | ";
    if (st.is_empty()) out += "-";
    char hx[4];
    for (size_t i = 0; i < st.size(); i++) { snprintf(hx, sizeof(hx), "%02x", uint8_t(st.data()[i])); out += hx; }
  }
  out += " req=0," + std::to_string(nheap);
  printf("%s\n", out.c_str());
}

// S arena <mask> <ops...>   a<n> Arena::alloc_oneshot(n), n a positive multiple of 8   r0 / r1 reset(soft / hard)
//                            mask: none | h:<pattern> on the heap requests (malloc of a new block)
static void script_arena(const std::vector<std::string>& t) {
  std::string out = "S arena";
  long nheap = 0;
  long h0 = F.live_heap;
  {
    Arena arena(1024);
    long hbase = F.live_heap;
    F.reset_counters();
    const std::string& m = t[2];
    if (m == "none") F.mode = FM_NONE;
    else if (m.size() > 2 && m[0] == 'h' && m[1] == ':' && parse_pattern(m.c_str() + 2)) F.mode = FM_HEAP;
    else { printf("BAD mask\n"); return; }
    std::vector<std::pair<uint8_t*, size_t>> regs;      // what was handed out since the last reset
    for (size_t i = 3; i < t.size(); i++) {
      const char* s = t[i].c_str();
      size_t n = size_t(strtoul(s + 1, nullptr, 10));
      int r = 0;
      bool overlap = false;
      F.armed = true;
      switch (s[0]) {
        case 'a': {
          uint8_t* p = static_cast<uint8_t*>(arena.alloc_oneshot(n));
          F.armed = false;
          if (!p) { r = 1; break; }
          for (auto& g : regs) if (p < g.first + g.second && g.first < p + n) overlap = true;
          memset(p, 0xA5, n);                            // ASan sees a region that is not inside a live block
          regs.push_back({p, n});
          break;
        }
        case 'r': arena.reset(n ? ResetPolicy::kHard : ResetPolicy::kSoft); regs.clear(); break;
        default: r = 2; break;
      }
      F.armed = false;
      char buf[96];
      snprintf(buf, sizeof(buf), " %d/%zu/%ld", r, arena.remaining_size(), F.live_heap - hbase);
      out += buf;
      if (overlap) out += "!overlap";
    }
    nheap = F.n_heap;
    F.mode = FM_NONE;
  }
  char tail[64];
  snprintf(tail, sizeof(tail), " | end %ld", F.live_heap - h0);
  out += tail;
  out += " req=0," + std::to_string(nheap);
  printf("%s\n", out.c_str());
}

static void run_script(const std::vector<std::string>& t) {
  if (t.size() < 3) { printf("BAD script\n"); return; }
  if (t[1] == "vec" && t.size() >= 4) {
    int isz = atoi(t[2].c_str());
    if (isz == 4) script_vec<uint32_t>(t, 4);
    else if (isz == 8) script_vec<uint64_t>(t, 4);
    else if (isz == 12) script_vec<Item12>(t, 4);
    else printf("BAD item size\n");
  }
  else if (t[1] == "hash") script_hash(t);
  else if (t[1] == "pool") script_pool(t);
  else if (t[1] == "holder") script_holder(t);
  else if (t[1] == "builder") script_builder(t);
  else if (t[1] == "ra") script_ra(t);
  else if (t[1] == "str") script_str(t);
  else if (t[1] == "arena") script_arena(t);
  else if (t[1] == "vm") script_vm(t, false);
  else if (t[1] == "vmd") script_vm(t, true);
  else if (t[1] == "jit") script_vm(t, false, true);
  else if (t[1] == "jitd") script_vm(t, true, true);
  else printf("BAD script kind\n");
}

// The prime table is file-static in arenahash.cpp: that file is #included into this TU (c15_harness.cpp), so the COMPILED arrays
// are dumped in full (cross-check of the python source parser that feeds coq/gen/C15Tables.v) and the REAL _calc_mod is evaluated
// with each row installed ("M <row> <hash>..." -> "M <hash mod prime as _calc_mod computes it>...").
static void dump_tables(size_t) {
  std::string out = "T rows";
  for (size_t i = 0; i < ASMJIT_ARRAY_SIZE(ArenaHash_prime_array); i++)
    out += " " + std::to_string(ArenaHash_prime_array[i].prime) + ":" + std::to_string(ArenaHash_prime_array[i].rcp) + ":" + std::to_string(unsigned(ArenaHash_prime_shift[i]));
  printf("%s\n", out.c_str());
}

// "K": the constants of the COMPILED library that the model hard-wires (cross-check of the python source parser behind
// coq/gen/C15Consts.v)
static void dump_consts() {
  printf("K sso_capacity=%u slot_min=%zu slot_count=%zu grow_threshold=%u index_count=%u label_entry_size=%zu pointer_size=%zu "
         "reloc_Expression=%u reloc_AbsToAbs=%u reloc_RelToAbs=%u reloc_AbsToRel=%u reloc_X64AddressEntry=%u\n",
         unsigned(String::kSSOCapacity), size_t(Arena::kMinReusableSlotSize), size_t(Arena::kReusableSlotCount), unsigned(Globals::kGrowThreshold),
         unsigned(ConstPool::kIndexCount), sizeof(LabelEntry), sizeof(void*),
         unsigned(RelocType::kExpression), unsigned(RelocType::kAbsToAbs), unsigned(RelocType::kRelToAbs), unsigned(RelocType::kAbsToRel),
         unsigned(RelocType::kX64AddressEntry));
}

static void calc_mod_cmd(const std::vector<std::string>& t) {
  size_t row = size_t(strtoul(t[1].c_str(), nullptr, 10));
  if (row >= ASMJIT_ARRAY_SIZE(ArenaHash_prime_array)) { printf("BAD row\n"); return; }
  ArenaHashBase h;
  h._buckets_count = ArenaHash_prime_array[row].prime;
  h._rcp_value = ArenaHash_prime_array[row].rcp;
  h._rcp_shift = ArenaHash_prime_shift[row];
  std::string out = "M";
  for (size_t i = 2; i < t.size(); i++) out += " " + std::to_string(h._calc_mod(uint32_t(strtoul(t[i].c_str(), nullptr, 10))));
  printf("%s\n", out.c_str());
}

#endif

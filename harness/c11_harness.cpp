// C11 exploration harness (built with -fsanitize=thread and, for speed, plain): N threads on ONE JitAllocator / ONE JitRuntime with
// per-thread ownership + content checks, and N threads generating code independently with byte equality against a
// single-threaded reference. Output: one canonical summary line per stage ("OK ..." / "MISMATCH ..."); ThreadSanitizer reports
// go to stderr. Schedules are sampled, not enumerated: replay = (mode, seed, threads, ops, opt), the schedule itself is not
// reproducible.
//
//   c11_harness alloc   <seed> <threads> <ops> <opt>     opt: JitAllocatorOptions bit mask
//   c11_harness runtime <seed> <threads> <ops> <opt>
//   c11_harness codegen <seed> <threads> <programs> 0
#include <asmjit/core.h>
#include <asmjit/x86.h>
#include <asmjit/a64.h>

#include <algorithm>
#include <atomic>
#include <cstdarg>
#include <cstdint>
#include <cstdio>
#include <cstdlib>
#include <cstring>
#include <mutex>
#include <string>
#include <thread>
#include <vector>

using namespace asmjit;

struct Rng {
  uint64_t s;
  explicit Rng(uint64_t seed) : s(seed * 0x9E3779B97F4A7C15ull + 0x1234567ull) { next(); next(); }
  uint64_t next() { s ^= s << 13; s ^= s >> 7; s ^= s << 17; return s * 0x2545F4914F6CDD1Dull; }
  uint32_t below(uint32_t n) { return uint32_t((next() >> 20) % n); }
};

static std::mutex g_report_mutex;          // harness-side only (reporting), never held around asmjit calls
static std::vector<std::string> g_mismatches;
static void mismatch(const std::string& s) {
  std::lock_guard<std::mutex> g(g_report_mutex);
  if (g_mismatches.size() < 20) g_mismatches.push_back(s);
}

static std::string fmt(const char* f, ...) {
  char buf[512];
  va_list ap; va_start(ap, f); vsnprintf(buf, sizeof(buf), f, ap); va_end(ap);
  return std::string(buf);
}

// the premise of the property: "once the host information has been initialised"
static void init_host_info() {
  (void)CpuInfo::host();
  (void)VirtMem::info();
  (void)VirtMem::large_page_size();
  (void)VirtMem::hardened_runtime_info();
  { JitRuntime warm; (void)warm; }
  { JitAllocator::CreateParams p; p.options = JitAllocatorOptions::kUseDualMapping; JitAllocator a(&p); JitAllocator::Span s;
    if (a.alloc(Out(s), 64) == Error::kOk) a.release(s.rx()); }
}

// ---------------------------------------------------------------------------------------------------------------- allocator stress
struct Live { JitAllocator::Span span; size_t req; uint64_t pattern; };

struct ThreadStat { uint64_t allocs = 0, releases = 0, shrinks = 0, queries = 0, stats = 0, writes = 0, checks = 0, foreign = 0; };

static bool check_content(const Live& l) {
  const uint8_t* p = static_cast<const uint8_t*>(l.span.rx());
  size_t n = l.span.size() / 8;
  for (size_t i = 0; i < n; i++) {
    uint64_t v; memcpy(&v, p + i * 8, 8);
    if (v != l.pattern) return false;
  }
  return true;
}

static void fill(JitAllocator& a, Live& l, Rng& rng, bool allow_shrink, ThreadStat& st, int tid) {
  size_t n = l.span.size();
  std::vector<uint64_t> buf(n / 8, l.pattern);
  if (rng.below(2) == 0 || !allow_shrink) {
    Error e = a.write(l.span, 0, buf.data(), n);
    if (e != Error::kOk) mismatch(fmt("t%d write(offset) failed err=%u", tid, unsigned(e)));
  } else {
    // write through the callback and shrink inside it (JitAllocator::write -> JitAllocatorImpl_shrink path)
    size_t new_size = n > 128 ? size_t(64 + rng.below(uint32_t(n - 64))) : n;
    Error e = a.write(l.span, [&](JitAllocator::Span& s) noexcept -> Error {
      memcpy(s.rw(), buf.data(), n);
      s.shrink(new_size);
      return Error::kOk;
    });
    if (e != Error::kOk) mismatch(fmt("t%d write(fn) failed err=%u", tid, unsigned(e)));
    if (l.span.size() > n || l.span.size() < new_size) mismatch(fmt("t%d write(fn) span size %zu not in [%zu,%zu]", tid, l.span.size(), new_size, n));
    if (new_size != n) st.shrinks++;
  }
  st.writes++;
}

static void alloc_worker(JitAllocator* a, uint64_t seed, int tid, uint32_t ops, uint32_t granularity, std::vector<Live>* out, ThreadStat* stp) {
  Rng rng(seed * 1000 + uint64_t(tid));
  std::vector<Live>& live = *out;
  ThreadStat& st = *stp;
  uint64_t counter = 0;
  for (uint32_t op = 0; op < ops; op++) {
    uint32_t k = rng.below(100);
    if (live.size() >= 768 && k < 40) k = 40 + rng.below(25);   // keep the live set bounded: release instead of allocating
    if (k < 40 || live.empty()) {
      size_t req = 1 + rng.below(rng.below(8) == 0 ? 70000 : 3000);
      Live l; l.req = req; l.pattern = (uint64_t(tid + 1) << 48) ^ (++counter * 0x9E3779B97F4A7C15ull >> 16);
      Error e = a->alloc(Out(l.span), req);
      if (e != Error::kOk) { mismatch(fmt("t%d alloc(%zu) failed err=%u", tid, req, unsigned(e))); continue; }
      st.allocs++;
      if (l.span.size() < req || (uintptr_t(l.span.rx()) % granularity) != 0 || l.span.rw() == nullptr)
        mismatch(fmt("t%d alloc(%zu) bad span size=%zu rx%%g=%u", tid, req, l.span.size(), unsigned(uintptr_t(l.span.rx()) % granularity)));
      // own spans must be pairwise disjoint (all of them while the set is small, then a random sample; everything again after the join)
      for (size_t n = 0; n < live.size() && n < 48; n++) {
        const Live& o = live.size() <= 48 ? live[n] : live[rng.below(uint32_t(live.size()))];
        uintptr_t a0 = uintptr_t(o.span.rx()), a1 = a0 + o.span.size(), b0 = uintptr_t(l.span.rx()), b1 = b0 + l.span.size();
        if (a0 < b1 && b0 < a1) { mismatch(fmt("t%d new span overlaps an own live span", tid)); break; }
      }
      fill(*a, l, rng, true, st, tid);
      live.push_back(l);
    } else if (k < 65) {
      size_t i = rng.below(uint32_t(live.size()));
      if (!check_content(live[i])) mismatch(fmt("t%d content of own span clobbered before release (pattern %016llx)", tid, (unsigned long long)live[i].pattern));
      st.checks++;
      Error e = a->release(live[i].span.rx());
      if (e != Error::kOk) mismatch(fmt("t%d release failed err=%u", tid, unsigned(e)));
      st.releases++;
      live[i] = live.back(); live.pop_back();
    } else if (k < 75) {
      size_t i = rng.below(uint32_t(live.size()));
      size_t old = live[i].span.size();
      size_t ns = 1 + rng.below(uint32_t(old));
      Error e = a->shrink(live[i].span, ns);
      if (e != Error::kOk) mismatch(fmt("t%d shrink failed err=%u", tid, unsigned(e)));
      if (live[i].span.size() > old || live[i].span.size() < ns) mismatch(fmt("t%d shrink size %zu not in [%zu,%zu]", tid, live[i].span.size(), ns, old));
      if (!check_content(live[i])) mismatch(fmt("t%d content clobbered by shrink", tid));
      st.shrinks++;
    } else if (k < 88) {
      size_t i = rng.below(uint32_t(live.size()));
      JitAllocator::Span q;
      uint8_t* inside = static_cast<uint8_t*>(live[i].span.rx());
      Error e = a->query(Out(q), inside);
      if (e != Error::kOk || q.rx() != live[i].span.rx() || q.size() < live[i].span.size())
        mismatch(fmt("t%d query of own span: err=%u rx %s size %zu vs %zu", tid, unsigned(e), q.rx() == live[i].span.rx() ? "same" : "DIFFERENT", q.size(), live[i].span.size()));
      st.queries++;
    } else if (k < 94) {
      JitAllocator::Statistics s = a->statistics();
      if (s.used_size() > s.reserved_size() || s.allocation_count() < live.size())
        mismatch(fmt("t%d statistics inconsistent used=%zu reserved=%zu count=%zu own=%zu", tid, s.used_size(), s.reserved_size(), s.allocation_count(), live.size()));
      (void)a->options(); (void)a->block_size(); (void)a->granularity(); (void)a->fill_pattern();
      st.stats++;
    } else if (k < 97) {
      size_t i = rng.below(uint32_t(live.size()));
      if (!check_content(live[i])) mismatch(fmt("t%d content of own span clobbered", tid));
      st.checks++;
    } else {
      // a foreign pointer (stack address) must be rejected by query and release without touching anything
      int local = 0; JitAllocator::Span q;
      Error e1 = a->query(Out(q), &local);
      Error e2 = a->release(&local);
      if (e1 == Error::kOk || e2 == Error::kOk) mismatch(fmt("t%d foreign pointer accepted", tid));
      st.foreign++;
    }
    if ((op & 63) == 0) std::this_thread::yield();
  }
}

static int run_alloc(uint64_t seed, int threads, uint32_t ops, uint32_t opt) {
  JitAllocator::CreateParams params;
  params.options = JitAllocatorOptions(opt);
  JitAllocator allocator(&params);
  uint32_t granularity = allocator.granularity();
  std::vector<std::vector<Live>> live((size_t)threads);
  std::vector<ThreadStat> st((size_t)threads);
  std::vector<std::thread> th;
  for (int t = 0; t < threads; t++) th.emplace_back(alloc_worker, &allocator, seed, t, ops, granularity, &live[size_t(t)], &st[size_t(t)]);
  for (auto& t : th) t.join();

  // global checks after the join: all live spans of all threads disjoint, contents intact, statistics exact
  struct R { uintptr_t b, e; };
  std::vector<R> all; size_t total = 0; size_t bytes = 0;
  for (auto& v : live) for (auto& l : v) { all.push_back({uintptr_t(l.span.rx()), uintptr_t(l.span.rx()) + l.span.size()}); total++; bytes += l.span.size();
    if (!check_content(l)) mismatch("final: content of a live span clobbered"); }
  std::sort(all.begin(), all.end(), [](const R& a, const R& b) { return a.b < b.b; });
  for (size_t i = 1; i < all.size(); i++) if (all[i].b < all[i - 1].e) { mismatch("final: live spans of different threads overlap"); break; }
  JitAllocator::Statistics s = allocator.statistics();
  if (s.allocation_count() != total) mismatch(fmt("final: allocation_count %zu != live %zu", s.allocation_count(), total));
  if (s.used_size() < bytes || s.used_size() > s.reserved_size()) mismatch(fmt("final: used %zu live bytes %zu reserved %zu", s.used_size(), bytes, s.reserved_size()));
  for (auto& v : live) for (auto& l : v) if (allocator.release(l.span.rx()) != Error::kOk) mismatch("final: release failed");
  s = allocator.statistics();
  if (s.allocation_count() != 0) mismatch(fmt("final: allocation_count %zu after releasing everything", s.allocation_count()));

  ThreadStat sum;
  for (auto& x : st) { sum.allocs += x.allocs; sum.releases += x.releases; sum.shrinks += x.shrinks; sum.queries += x.queries; sum.stats += x.stats; sum.writes += x.writes; sum.checks += x.checks; sum.foreign += x.foreign; }
  printf("%s alloc seed=%llu threads=%d ops=%u opt=%u allocs=%llu releases=%llu shrinks=%llu queries=%llu stats=%llu writes=%llu checks=%llu foreign=%llu live_at_end=%zu\n",
         g_mismatches.empty() ? "OK" : "MISMATCH", (unsigned long long)seed, threads, ops, opt,
         (unsigned long long)sum.allocs, (unsigned long long)sum.releases, (unsigned long long)sum.shrinks, (unsigned long long)sum.queries,
         (unsigned long long)sum.stats, (unsigned long long)sum.writes, (unsigned long long)sum.checks, (unsigned long long)sum.foreign, total);
  return 0;
}

// ---------------------------------------------------------------------------------------------------------------- runtime stress
#if ASMJIT_ARCH_X86 == 64
typedef uint32_t (*Fn)(void);
struct LiveFn { Fn fn; uint32_t value; };

static void runtime_worker(JitRuntime* rt, uint64_t seed, int tid, uint32_t ops, std::vector<LiveFn>* out, uint64_t* nadd, uint64_t* nrel) {
  Rng rng(seed * 7777 + uint64_t(tid));
  std::vector<LiveFn>& live = *out;
  for (uint32_t op = 0; op < ops; op++) {
    if (rng.below(100) < 60 || live.empty()) {
      CodeHolder code;
      code.init(rt->environment(), rt->cpu_features());
      x86::Assembler a(&code);
      uint32_t value = uint32_t(rng.next());
      uint32_t pad = rng.below(40);
      Label l = a.new_label();
      a.mov(x86::eax, value);
      a.jmp(l);
      for (uint32_t i = 0; i < pad; i++) a.nop();
      a.bind(l);
      a.ret();
      Fn fn = nullptr;
      Error e = rt->add(&fn, &code);
      if (e != Error::kOk || !fn) { mismatch(fmt("t%d JitRuntime::add failed err=%u", tid, unsigned(e))); continue; }
      (*nadd)++;
      if (fn() != value) mismatch(fmt("t%d freshly added function returns a wrong value", tid));
      live.push_back({fn, value});
    } else {
      size_t i = rng.below(uint32_t(live.size()));
      if (live[i].fn() != live[i].value) mismatch(fmt("t%d own function clobbered (expected %u)", tid, live[i].value));
      if (rng.below(2)) {
        if (rt->release(live[i].fn) != Error::kOk) mismatch(fmt("t%d JitRuntime::release failed", tid));
        (*nrel)++;
        live[i] = live.back(); live.pop_back();
      }
    }
    if ((op & 31) == 0) std::this_thread::yield();
  }
}
#endif

static int run_runtime(uint64_t seed, int threads, uint32_t ops, uint32_t opt) {
#if ASMJIT_ARCH_X86 == 64
  JitAllocator::CreateParams params;
  params.options = JitAllocatorOptions(opt);
  JitRuntime rt(&params);
  std::vector<std::vector<LiveFn>> live((size_t)threads);
  std::vector<uint64_t> nadd((size_t)threads, 0), nrel((size_t)threads, 0);
  std::vector<std::thread> th;
  for (int t = 0; t < threads; t++) th.emplace_back(runtime_worker, &rt, seed, t, ops, &live[size_t(t)], &nadd[size_t(t)], &nrel[size_t(t)]);
  for (auto& t : th) t.join();
  size_t total = 0; uint64_t adds = 0, rels = 0;
  for (auto& v : live) for (auto& l : v) { total++; if (l.fn() != l.value) mismatch("final: function clobbered"); }
  for (size_t t = 0; t < size_t(threads); t++) { adds += nadd[t]; rels += nrel[t]; }
  if (rt.allocator().statistics().allocation_count() != total) mismatch(fmt("final: runtime allocation_count %zu != live %zu", rt.allocator().statistics().allocation_count(), total));
  for (auto& v : live) for (auto& l : v) if (rt.release(l.fn) != Error::kOk) mismatch("final: runtime release failed");
  printf("%s runtime seed=%llu threads=%d ops=%u opt=%u adds=%llu releases=%llu live_at_end=%zu\n", g_mismatches.empty() ? "OK" : "MISMATCH",
         (unsigned long long)seed, threads, ops, opt, (unsigned long long)adds, (unsigned long long)rels, total);
#else
  printf("OK runtime skipped (host is not x86-64)\n");
#endif
  return 0;
}

// ---------------------------------------------------------------------------------------------------------------- independent code generation
static uint64_t fnv(const void* p, size_t n, uint64_t h = 0xcbf29ce484222325ull) {
  const uint8_t* b = static_cast<const uint8_t*>(p);
  for (size_t i = 0; i < n; i++) { h ^= b[i]; h *= 0x100000001b3ull; }
  return h;
}

static uint64_t finish_code(CodeHolder& code, const String* log) {
  uint64_t h = 0xcbf29ce484222325ull;
  if (code.flatten() != Error::kOk) return 1;
  if (code.resolve_cross_section_fixups() != Error::kOk) return 2;
  if (code.relocate_to_base(0x100000) != Error::kOk) return 3;
  size_t n = code.code_size();
  std::vector<uint8_t> buf(n + 1);
  if (code.copy_flattened_data(buf.data(), n, CopySectionFlags::kPadSectionBuffer) != Error::kOk) return 4;
  h = fnv(buf.data(), n, h);
  h = fnv(&n, sizeof(n), h);
  if (log) h = fnv(log->data(), log->size(), h);
  return h;
}

static uint64_t gen_x86_asm(uint64_t seed) {
  Rng rng(seed);
  CodeHolder code; code.init(Environment(Arch::kX64));
  StringLogger logger; bool use_log = rng.below(2) == 0;
  if (use_log) code.set_logger(&logger);
  x86::Assembler a(&code);
  static const x86::Gp regs[] = { x86::rax, x86::rcx, x86::rdx, x86::rbx, x86::rsi, x86::rdi, x86::r8, x86::r9, x86::r10, x86::r13, x86::r15 };
  const uint32_t nr = sizeof(regs) / sizeof(regs[0]);
  uint32_t n = 20 + rng.below(200);
  std::vector<Label> labels; for (int i = 0; i < 6; i++) labels.push_back(a.new_label());
  size_t bound = 0;
  for (uint32_t i = 0; i < n; i++) {
    x86::Gp r0 = regs[rng.below(nr)], r1 = regs[rng.below(nr)];
    switch (rng.below(14)) {
      case 0: a.mov(r0, r1); break;
      case 1: a.add(r0, int32_t(rng.next())); break;
      case 2: a.lea(r0, x86::ptr(r1, regs[rng.below(nr - 1)], rng.below(4), int32_t(rng.below(4096)) - 2048)); break;
      case 3: a.xor_(r0.r32(), r1.r32()); break;
      case 4: a.cmp(r0, r1); a.jne(labels[rng.below(6)]); break;
      case 5: a.push(r0); a.pop(r1); break;
      case 6: a.paddd(x86::xmm(rng.below(16)), x86::xmm(rng.below(16))); break;
      case 7: a.vaddps(x86::ymm(rng.below(16)), x86::ymm(rng.below(16)), x86::ymm(rng.below(16))); break;
      case 8: a.mov(x86::dword_ptr(r0, int32_t(rng.below(256))), r1.r32()); break;
      case 9: a.jmp(labels[rng.below(6)]); break;
      case 10: if (bound < labels.size()) a.bind(labels[bound++]); break;
      case 11: a.imul(r0, r1, int32_t(rng.below(1000))); break;
      case 12: a.vpaddd(x86::zmm(rng.below(32)), x86::zmm(rng.below(32)), x86::zmm(rng.below(32))); break;
      default: a.mov(r0, uint64_t(rng.next())); break;
    }
  }
  while (bound < labels.size()) a.bind(labels[bound++]);
  a.ret();
  return finish_code(code, use_log ? &logger.content() : nullptr);
}

static uint64_t gen_x86_compiler(uint64_t seed) {
  Rng rng(seed);
  CodeHolder code; code.init(Environment(Arch::kX64, SubArch::kUnknown, Vendor::kUnknown, Platform::kLinux, PlatformABI::kGNU));
  StringLogger logger; bool use_log = rng.below(2) == 0;
  if (use_log) code.set_logger(&logger);
  x86::Compiler cc(&code);
  FuncNode* f = cc.add_func(FuncSignature::build<uint32_t, uint32_t, uint32_t>());
  uint32_t nv = 3 + rng.below(24);
  std::vector<x86::Gp> v;
  for (uint32_t i = 0; i < nv; i++) v.push_back(cc.new_gp32());
  f->set_arg(0, v[0]); f->set_arg(1, v[1]);
  for (uint32_t i = 2; i < nv; i++) cc.mov(v[i], int32_t(rng.below(100000)));
  Label loop = cc.new_label(), done = cc.new_label();
  cc.bind(loop);
  uint32_t n = 10 + rng.below(80);
  for (uint32_t i = 0; i < n; i++) {
    x86::Gp a = v[rng.below(nv)], b = v[rng.below(nv)];
    switch (rng.below(6)) {
      case 0: cc.add(a, b); break;
      case 1: cc.imul(a, b); break;
      case 2: cc.xor_(a, b); break;
      case 3: cc.lea(a, x86::ptr(b.r64(), int32_t(rng.below(64)))); break;
      case 4: cc.sub(a, int32_t(rng.below(77))); break;
      default: cc.mov(a, b); break;
    }
  }
  cc.dec(v[1]); cc.jz(done); cc.jmp(loop);
  cc.bind(done);
  for (uint32_t i = 1; i < nv; i++) cc.add(v[0], v[i]);
  cc.ret(v[0]);
  cc.end_func();
  if (cc.finalize() != Error::kOk) return 5;
  return finish_code(code, use_log ? &logger.content() : nullptr);
}

static uint64_t gen_a64_asm(uint64_t seed) {
  Rng rng(seed);
  CodeHolder code; code.init(Environment(Arch::kAArch64));
  StringLogger logger; bool use_log = rng.below(2) == 0;
  if (use_log) code.set_logger(&logger);
  a64::Assembler a(&code);
  uint32_t n = 20 + rng.below(200);
  std::vector<Label> labels; for (int i = 0; i < 6; i++) labels.push_back(a.new_label());
  size_t bound = 0;
  for (uint32_t i = 0; i < n; i++) {
    a64::Gp x0 = a64::x(rng.below(29)), x1 = a64::x(rng.below(29)), x2 = a64::x(rng.below(29));
    switch (rng.below(10)) {
      case 0: a.add(x0, x1, x2); break;
      case 1: a.sub(x0, x1, rng.below(4096)); break;
      case 2: a.mov(x0, uint64_t(rng.next())); break;
      case 3: a.ldr(x0, a64::ptr(x1, int32_t(rng.below(512)) * 8)); break;
      case 4: a.str(x0, a64::ptr(x1, int32_t(rng.below(512)) * 8)); break;
      case 5: a.cbz(x0, labels[rng.below(6)]); break;
      case 6: a.b(labels[rng.below(6)]); break;
      case 7: if (bound < labels.size()) a.bind(labels[bound++]); break;
      case 8: a.add(a64::v(rng.below(32)).s4(), a64::v(rng.below(32)).s4(), a64::v(rng.below(32)).s4()); break;
      default: a.madd(x0, x1, x2, a64::x(rng.below(29))); break;
    }
  }
  while (bound < labels.size()) a.bind(labels[bound++]);
  a.ret(a64::x30);
  return finish_code(code, use_log ? &logger.content() : nullptr);
}

static uint64_t gen_a64_compiler(uint64_t seed) {
  Rng rng(seed);
  CodeHolder code; code.init(Environment(Arch::kAArch64, SubArch::kUnknown, Vendor::kUnknown, Platform::kLinux, PlatformABI::kGNU));
  a64::Compiler cc(&code);
  FuncNode* f = cc.add_func(FuncSignature::build<uint32_t, uint32_t, uint32_t>());
  uint32_t nv = 3 + rng.below(40);
  std::vector<a64::Gp> v;
  for (uint32_t i = 0; i < nv; i++) v.push_back(cc.new_gp32());
  f->set_arg(0, v[0]); f->set_arg(1, v[1]);
  for (uint32_t i = 2; i < nv; i++) cc.mov(v[i], uint64_t(rng.below(100000)));
  uint32_t n = 10 + rng.below(80);
  for (uint32_t i = 0; i < n; i++) {
    a64::Gp a = v[rng.below(nv)], b = v[rng.below(nv)], c = v[rng.below(nv)];
    switch (rng.below(4)) {
      case 0: cc.add(a, b, c); break;
      case 1: cc.mul(a, b, c); break;
      case 2: cc.eor(a, b, c); break;
      default: cc.sub(a, b, rng.below(4000)); break;
    }
  }
  for (uint32_t i = 1; i < nv; i++) cc.add(v[0], v[0], v[i]);
  cc.ret(v[0]);
  cc.end_func();
  if (cc.finalize() != Error::kOk) return 5;
  return finish_code(code, nullptr);
}

static uint64_t gen_program(uint64_t seed) {
  switch (seed & 3) {
    case 0: return gen_x86_asm(seed);
    case 1: return gen_x86_compiler(seed);
    case 2: return gen_a64_asm(seed);
    default: return gen_a64_compiler(seed);
  }
}

static int run_codegen(uint64_t seed, int threads, uint32_t programs) {
  // reference: every program generated alone, single-threaded
  std::vector<uint64_t> ref(programs);
  size_t failed = 0;
  for (uint32_t i = 0; i < programs; i++) { ref[i] = gen_program(seed * 100003 + i); if (ref[i] < 16) failed++; }
  // N threads, each generating ALL programs in a different order with private holders/emitters
  std::vector<std::vector<uint64_t>> got((size_t)threads, std::vector<uint64_t>(programs));
  std::vector<std::thread> th;
  for (int t = 0; t < threads; t++) th.emplace_back([&, t] {
    for (uint32_t k = 0; k < programs; k++) {
      uint32_t i = (k + uint32_t(t) * 5) % programs;   // every thread generates every program, in a rotated order
      got[size_t(t)][i] = gen_program(seed * 100003 + i);
    }
  });
  for (auto& t : th) t.join();
  uint64_t h = 0xcbf29ce484222325ull;
  for (uint32_t i = 0; i < programs; i++) {
    h = fnv(&ref[i], 8, h);
    for (int t = 0; t < threads; t++)
      if (got[size_t(t)][i] != ref[i]) mismatch(fmt("codegen program %u (seed %llu): thread %d produced different bytes than the single-threaded run", i, (unsigned long long)(seed * 100003 + i), t));
  }
  printf("%s codegen seed=%llu threads=%d programs=%u generation_errors=%zu digest=%016llx\n", g_mismatches.empty() ? "OK" : "MISMATCH",
         (unsigned long long)seed, threads, programs, failed, (unsigned long long)h);
  return 0;
}

// ---------------------------------------------------------------------------------------------------------------- instruction sweep
// C01/C02-style sweep, in process: for EVERY instruction id of the x86 and AArch64 backends and a fixed menu of operand tuples:
// InstAPI::validate, query_rw_info, query_features, inst_id_to_string / string_to_inst_id round trip, Formatter::format_instruction and
// the assembler's _emit into a private holder. Everything that is table driven (instruction DB, name tables, RW tables, signature
// tables, formatter tables) is read by all threads at once; the digest of all answers must equal the single-threaded one.
static uint64_t sweep_slice(uint32_t slice, uint32_t slices) {
  uint64_t h = 0xcbf29ce484222325ull;
  // ---- x86-64
  {
    CodeHolder code; code.init(Environment(Arch::kX64));
    x86::Assembler a(&code);
    const Operand none;
    const Operand menu[][3] = {
      { none, none, none }, { x86::eax, none, none }, { x86::rax, x86::rbx, none }, { x86::eax, x86::ecx, none }, { x86::ax, x86::dx, none },
      { x86::al, x86::cl, none }, { x86::rax, Imm(7), none }, { x86::eax, x86::dword_ptr(x86::rbx, 16), none }, { x86::dword_ptr(x86::rbx, 16), x86::eax, none },
      { x86::xmm1, x86::xmm2, none }, { x86::xmm1, x86::xmm2, x86::xmm3 }, { x86::ymm1, x86::ymm2, x86::ymm3 }, { x86::zmm1, x86::zmm2, x86::zmm3 },
      { x86::xmm1, x86::xmmword_ptr(x86::rsi), none }, { x86::ymm1, x86::ymm2, x86::ymmword_ptr(x86::rsi, x86::rdi, 2, 64) },
      { x86::xmm1, x86::xmm2, Imm(3) }, { x86::k1, x86::k2, x86::k3 }, { x86::rax, x86::rbx, x86::rcx }, { x86::st0, x86::st1, none }, { x86::mm1, x86::mm2, none },
      { x86::qword_ptr(x86::rsp, 8), none, none }, { Imm(16), none, none },
    };
    for (uint32_t id = 1 + slice; id < x86::Inst::_kIdCount; id += slices) {
      String name;
      InstAPI::inst_id_to_string(Arch::kX64, id, InstStringifyOptions::kNone, name);
      InstId back = InstAPI::string_to_inst_id(Arch::kX64, name.data(), name.size());
      h = fnv(name.data(), name.size(), h); h = fnv(&back, sizeof(back), h);
      for (const auto& ops : menu) {
        size_t n = ops[2].is_none() ? (ops[1].is_none() ? (ops[0].is_none() ? 0 : 1) : 2) : 3;
        BaseInst inst(id);
        Error ev = InstAPI::validate(Arch::kX64, inst, ops, n);
        h = fnv(&ev, sizeof(ev), h);
        if (ev != Error::kOk) continue;
        InstRWInfo rw; CpuFeatures feat;
        Error e1 = InstAPI::query_rw_info(Arch::kX64, inst, ops, n, &rw);
        Error e2 = InstAPI::query_features(Arch::kX64, inst, ops, n, &feat);
        h = fnv(&e1, sizeof(e1), h); h = fnv(&e2, sizeof(e2), h);
        if (e1 == Error::kOk) { uint32_t oc = uint32_t(rw.op_count()); h = fnv(&oc, 4, h); for (uint32_t k = 0; k < oc; k++) { uint64_t x = uint64_t(rw.operand(k).op_flags()); h = fnv(&x, 8, h); } }
        if (e2 == Error::kOk) h = fnv(&feat, sizeof(feat), h);
        String text;
        Formatter::format_instruction(text, FormatFlags::kMachineCode, &a, Arch::kX64, inst, Span<const Operand_>(ops, n));
        h = fnv(text.data(), text.size(), h);
        size_t before = a.offset();
        Operand ext[3];
        Error ee = a._emit(id, ops[0], ops[1], ops[2], ext);
        h = fnv(&ee, sizeof(ee), h);
        if (ee == Error::kOk) h = fnv(code.text_section()->buffer().data() + before, a.offset() - before, h);
        if (a.offset() > (1u << 20)) { code.reset(ResetPolicy::kSoft); code.init(Environment(Arch::kX64)); code.attach(&a); }
      }
    }
  }
  // ---- AArch64
  {
    CodeHolder code; code.init(Environment(Arch::kAArch64));
    a64::Assembler a(&code);
    const Operand none;
    const Operand menu[][4] = {
      { none, none, none, none }, { a64::x1, none, none, none }, { a64::x1, a64::x2, none, none }, { a64::w1, a64::w2, none, none }, { a64::x1, a64::x2, a64::x3, none },
      { a64::w1, a64::w2, a64::w3, none }, { a64::x1, a64::x2, Imm(12), none }, { a64::x1, Imm(4096), none, none }, { a64::x1, a64::ptr(a64::x2, 16), none, none },
      { a64::x1, a64::x2, a64::ptr(a64::sp, 32), none }, { a64::v1.s4(), a64::v2.s4(), a64::v3.s4(), none }, { a64::v1.b16(), a64::v2.b16(), none, none },
      { a64::d1, a64::d2, a64::d3, none }, { a64::s1, a64::s2, none, none }, { a64::x1, a64::x2, a64::x3, a64::x4 }, { a64::v1.d2(), a64::ptr(a64::x0), none, none },
      { a64::w1, a64::w2, Imm(3), Imm(5) }, { Imm(0), none, none, none },
    };
    for (uint32_t id = 1 + slice; id < a64::Inst::_kIdCount; id += slices) {
      String name;
      InstAPI::inst_id_to_string(Arch::kAArch64, id, InstStringifyOptions::kNone, name);
      InstId back = InstAPI::string_to_inst_id(Arch::kAArch64, name.data(), name.size());
      h = fnv(name.data(), name.size(), h); h = fnv(&back, sizeof(back), h);
      for (const auto& ops : menu) {
        size_t n = 0; while (n < 4 && !ops[n].is_none()) n++;
        BaseInst inst(id);
        Error ev = InstAPI::validate(Arch::kAArch64, inst, ops, n);
        h = fnv(&ev, sizeof(ev), h);
        InstRWInfo rw;
        Error e1 = InstAPI::query_rw_info(Arch::kAArch64, inst, ops, n, &rw);
        h = fnv(&e1, sizeof(e1), h);
        String text;
        Formatter::format_instruction(text, FormatFlags::kNone, &a, Arch::kAArch64, inst, Span<const Operand_>(ops, n));
        h = fnv(text.data(), text.size(), h);
        size_t before = a.offset();
        Operand ext[3]; ext[0] = ops[3];
        Error ee = a._emit(id, ops[0], ops[1], ops[2], ext);
        h = fnv(&ee, sizeof(ee), h);
        if (ee == Error::kOk) h = fnv(code.text_section()->buffer().data() + before, a.offset() - before, h);
        if (a.offset() > (1u << 20)) { code.reset(ResetPolicy::kSoft); code.init(Environment(Arch::kAArch64)); code.attach(&a); }
      }
    }
  }
  return h;
}

static int run_sweep(uint64_t seed, int threads, uint32_t slices) {
  if (slices == 0) slices = 1;
  std::vector<uint64_t> ref(slices);
  for (uint32_t s = 0; s < slices; s++) ref[s] = sweep_slice(s, slices);           // single-threaded reference
  std::vector<std::vector<uint64_t>> got((size_t)threads, std::vector<uint64_t>(slices));
  std::vector<std::thread> th;
  for (int t = 0; t < threads; t++) th.emplace_back([&, t] {
    for (uint32_t k = 0; k < slices; k++) { uint32_t s = (k + uint32_t(t) + uint32_t(seed)) % slices; got[size_t(t)][s] = sweep_slice(s, slices); }
  });
  for (auto& t : th) t.join();
  uint64_t h = 0xcbf29ce484222325ull;
  for (uint32_t s = 0; s < slices; s++) {
    h = fnv(&ref[s], 8, h);
    for (int t = 0; t < threads; t++) if (got[size_t(t)][s] != ref[s]) mismatch(fmt("sweep slice %u/%u: thread %d computed different answers than the single-threaded run", s, slices, t));
  }
  printf("%s sweep seed=%llu threads=%d slices=%u x86_ids=%u a64_ids=%u digest=%016llx\n", g_mismatches.empty() ? "OK" : "MISMATCH",
         (unsigned long long)seed, threads, slices, unsigned(x86::Inst::_kIdCount) - 1, unsigned(a64::Inst::_kIdCount) - 1, (unsigned long long)h);
  return 0;
}

// ---------------------------------------------------------------------------------------------------------------- several shared runtimes
// K JitRuntimes with DIFFERENT custom allocator parameters (options, granularity, block size, fill pattern) shared by all threads;
// every operation picks one of them. Checks that nothing is shared between runtimes except the process-wide caches.
static int run_multirt(uint64_t seed, int threads, uint32_t ops, uint32_t k_runtimes) {
#if ASMJIT_ARCH_X86 == 64
  if (k_runtimes < 2) k_runtimes = 2;
  std::vector<JitRuntime*> rts;
  for (uint32_t k = 0; k < k_runtimes; k++) {
    JitAllocator::CreateParams p;
    static const uint32_t optmenu[] = { 0, 2, 4 | 0x10000000u, 8, 1, 16 | 2 };
    p.options = JitAllocatorOptions(optmenu[k % 6]);
    p.granularity = 64u << (k % 3); p.block_size = 65536u << (k % 4); p.fill_pattern = 0x11111111u * (k + 1);
    rts.push_back(new JitRuntime(&p));
  }
  struct LF { Fn fn; uint32_t value; uint32_t rt; };
  std::vector<std::vector<LF>> live((size_t)threads);
  std::vector<std::thread> th;
  for (int t = 0; t < threads; t++) th.emplace_back([&, t] {
    Rng rng(seed * 911 + uint64_t(t));
    std::vector<LF>& mine = live[size_t(t)];
    for (uint32_t op = 0; op < ops; op++) {
      if (rng.below(100) < 60 || mine.empty()) {
        uint32_t k = rng.below(k_runtimes);
        CodeHolder code; code.init(rts[k]->environment(), rts[k]->cpu_features());
        x86::Assembler a(&code);
        uint32_t value = uint32_t(rng.next());
        a.mov(x86::eax, value); for (uint32_t i = 0, n = rng.below(30); i < n; i++) a.nop(); a.ret();
        Fn fn = nullptr;
        if (rts[k]->add(&fn, &code) != Error::kOk || !fn) { mismatch(fmt("t%d multirt: add failed", t)); continue; }
        JitAllocator::Span q;
        if (rts[k]->allocator().query(Out(q), (void*)fn) != Error::kOk) mismatch(fmt("t%d multirt: own function unknown to its runtime", t));
        for (uint32_t o = 0; o < k_runtimes; o++) if (o != k && rts[o]->allocator().query(Out(q), (void*)fn) == Error::kOk) mismatch(fmt("t%d multirt: function known to a foreign runtime", t));
        mine.push_back({fn, value, k});
      } else {
        size_t i = rng.below(uint32_t(mine.size()));
        if (mine[i].fn() != mine[i].value) mismatch(fmt("t%d multirt: own function clobbered", t));
        if (rng.below(2)) { if (rts[mine[i].rt]->release(mine[i].fn) != Error::kOk) mismatch(fmt("t%d multirt: release failed", t)); mine[i] = mine.back(); mine.pop_back(); }
      }
    }
  });
  for (auto& t : th) t.join();
  std::vector<size_t> cnt(k_runtimes, 0); size_t total = 0;
  for (auto& v : live) for (auto& l : v) { cnt[l.rt]++; total++; if (l.fn() != l.value) mismatch("final: multirt function clobbered"); }
  for (uint32_t k = 0; k < k_runtimes; k++) if (rts[k]->allocator().statistics().allocation_count() != cnt[k]) mismatch(fmt("final: runtime %u allocation_count %zu != live %zu", k, rts[k]->allocator().statistics().allocation_count(), cnt[k]));
  for (auto& v : live) for (auto& l : v) rts[l.rt]->release(l.fn);
  for (auto* r : rts) delete r;
  printf("%s multirt seed=%llu threads=%d ops=%u runtimes=%u live_at_end=%zu\n", g_mismatches.empty() ? "OK" : "MISMATCH", (unsigned long long)seed, threads, ops, k_runtimes, total);
#else
  printf("OK multirt skipped (host is not x86-64)\n");
#endif
  return 0;
}

// ---------------------------------------------------------------------------------------------------------------- own runtime per thread
// Every thread constructs, uses and destroys its OWN JitRuntime / JitAllocator again and again (host information already initialised):
// the only state the threads share are the process-wide caches (VirtMem::info, large_page_size, hardened-runtime flags, dual-mapping
// strategy, CpuInfo::host). opt bit 1 selects dual mapping for half of the runtimes.
static int run_ownrt(uint64_t seed, int threads, uint32_t ops, uint32_t opt) {
#if ASMJIT_ARCH_X86 == 64
  std::vector<uint64_t> done((size_t)threads, 0);
  std::vector<std::thread> th;
  for (int t = 0; t < threads; t++) th.emplace_back([&, t] {
    Rng rng(seed * 31337 + uint64_t(t));
    for (uint32_t k = 0; k < ops; k++) {
      JitAllocator::CreateParams params;
      params.options = JitAllocatorOptions(((opt & 1) && (k & 1)) ? 1u : 0u) | (rng.below(2) ? JitAllocatorOptions::kUseLargePages : JitAllocatorOptions::kNone);
      JitRuntime rt(&params);
      CodeHolder code;
      code.init(rt.environment(), rt.cpu_features());
      x86::Assembler a(&code);
      uint32_t value = uint32_t(rng.next());
      a.mov(x86::eax, value);
      a.ret();
      Fn fn = nullptr;
      if (rt.add(&fn, &code) != Error::kOk || !fn) { mismatch(fmt("t%d ownrt: add failed", t)); continue; }
      if (fn() != value) mismatch(fmt("t%d ownrt: function returns a wrong value", t));
      if (VirtMem::info().page_size == 0 || CpuInfo::host().arch() == Arch::kUnknown) mismatch(fmt("t%d ownrt: host information lost", t));
      rt.release(fn);
      done[size_t(t)]++;
    }
  });
  for (auto& t : th) t.join();
  uint64_t total = 0; for (auto d : done) total += d;
  printf("%s ownrt seed=%llu threads=%d ops=%u opt=%u runtimes=%llu\n", g_mismatches.empty() ? "OK" : "MISMATCH",
         (unsigned long long)seed, threads, ops, opt, (unsigned long long)total);
#else
  printf("OK ownrt skipped (host is not x86-64)\n");
#endif
  return 0;
}

// ---------------------------------------------------------------------------------------------------------------- cold start (OUTSIDE the premise)
// Threads that construct their own JitRuntime as their very first AsmJit call: CpuInfo::host() and VirtMem::info() are then
// initialised concurrently. The property's premise ("once the host information has been initialised") excludes this; the mode
// exists to document what happens (design/C11.md) and its ThreadSanitizer reports are never counted as violations.
static int run_coldstart(uint64_t seed, int threads) {
  std::atomic<int> go{0};
  std::vector<uint32_t> feat((size_t)threads, 0), pg((size_t)threads, 0);
  std::vector<std::thread> th;
  for (int t = 0; t < threads; t++) th.emplace_back([&, t] {
    while (!go.load()) {}
    // odd threads start with a dual-mapped allocator: the dual-mapping strategy / memfd / hardened-runtime caches are cold as well
    JitAllocator::CreateParams dp; dp.options = (t & 1) ? JitAllocatorOptions::kUseDualMapping : JitAllocatorOptions::kUseLargePages;
    { JitAllocator da(&dp); JitAllocator::Span ds; if (da.alloc(Out(ds), 128) == Error::kOk) da.release(ds.rx()); }
    JitRuntime rt;
    feat[size_t(t)] = uint32_t(fnv(&rt.cpu_features(), sizeof(CpuFeatures)));
    pg[size_t(t)] = VirtMem::info().page_size;
    JitAllocator::Span s;
    if (rt.allocator().alloc(Out(s), 64 + size_t(t)) == Error::kOk) rt.allocator().release(s.rx());
  });
  go.store(1);
  for (auto& t : th) t.join();
  for (int t = 1; t < threads; t++) if (feat[size_t(t)] != feat[0] || pg[size_t(t)] != pg[0]) mismatch("coldstart: threads observed different host information");
  printf("%s coldstart seed=%llu threads=%d\n", g_mismatches.empty() ? "OK" : "MISMATCH", (unsigned long long)seed, threads);
  return 0;
}

int main(int argc, char** argv) {
  if (argc < 6) { fprintf(stderr, "usage: c11_harness alloc|runtime|codegen seed threads ops opt\n"); return 2; }
  std::string mode = argv[1];
  uint64_t seed = strtoull(argv[2], nullptr, 10);
  int threads = atoi(argv[3]);
  uint32_t ops = uint32_t(strtoul(argv[4], nullptr, 10));
  uint32_t opt = uint32_t(strtoul(argv[5], nullptr, 10));
  if (mode == "coldstart") {
    run_coldstart(seed, threads);
    for (auto& m : g_mismatches) printf("DETAIL %s\n", m.c_str());
    return g_mismatches.empty() ? 0 : 3;
  }
  init_host_info();
  if (mode == "alloc") run_alloc(seed, threads, ops, opt);
  else if (mode == "runtime") run_runtime(seed, threads, ops, opt);
  else if (mode == "codegen") run_codegen(seed, threads, ops);
  else if (mode == "ownrt") run_ownrt(seed, threads, ops, opt);
  else if (mode == "sweep") run_sweep(seed, threads, ops);
  else if (mode == "multirt") run_multirt(seed, threads, ops, opt);
  else return 2;
  for (auto& m : g_mismatches) printf("DETAIL %s\n", m.c_str());
  fflush(stdout);
  return g_mismatches.empty() ? 0 : 3;
}

// C01 correspondence harness: drives the REAL x86::Assembler of /repo's working tree (strict validation on) through the
// low-level `_emit(inst_id, o0, o1, o2, op_ext)` entry with calls read from stdin, answers with the bytes appended.
//
// line  : <mode 32|64|64@base> <mnemonic> <options hex> <extra: - | cls:id> <op>*     (64@base: CodeHolder with a known base address)
// op    : R <cls> <id> | M <msz> <seg> <bcls> <bid> <icls> <iid> <shift> <disp> <bcst> <addrtype> | I <value>
// answer: OK <hex bytes> <offset of the instruction> | ERR <error code> <bytes appended (must be 0)> | NOINST
#include <asmjit/core.h>
#include <asmjit/x86.h>
#include <cstdio>
#include <cstdlib>
#include <cstring>
#include <string>
#include <vector>
#include <sstream>
#include <iostream>
#include <setjmp.h>

using namespace asmjit;

static bool make_reg(long cls, long id, Reg& out) {
  uint32_t i = uint32_t(id);
  switch (cls) {
    case 1: out = x86::gpb_lo(i); return true;
    case 16: out = x86::gpb_hi(i); return true;
    case 2: out = x86::gpw(i); return true;
    case 3: out = x86::gpd(i); return true;
    case 4: out = x86::gpq(i); return true;
    case 5: out = x86::mm(i); return true;
    case 6: out = x86::xmm(i); return true;
    case 7: out = x86::ymm(i); return true;
    case 8: out = x86::zmm(i); return true;
    case 9: out = x86::k(i); return true;
    case 10: out = x86::SReg(i); return true;
    case 11: out = x86::cr(i); return true;
    case 12: out = x86::dr(i); return true;
    case 13: out = x86::st(i); return true;
    case 14: out = x86::bnd(i); return true;
    case 15: out = x86::tmm(i); return true;
    default: return false;
  }
}

// An error handler that does not return (longjmp), as applications that use exceptions / longjmp install: the emitter must have
// reset its one-shot state (options, extra register) BEFORE it reports, or the state leaks into the next instruction.
static jmp_buf g_jmp;
class JumpingErrorHandler : public ErrorHandler {
public:
  void handle_error(Error, const char*, BaseEmitter*) override { longjmp(g_jmp, 1); }
};
static JumpingErrorHandler g_jump_handler;

struct Ctx {
  CodeHolder code;
  x86::Assembler* a = nullptr;
  Arch arch;
  uint64_t base;
  bool jumping;
  size_t calls = 0;
  explicit Ctx(Arch ar, uint64_t b = Globals::kNoBaseAddress, bool j = false) : arch(ar), base(b), jumping(j) { init(); }
  void init() {
    delete a;
    code.reset();
    code.init(Environment(arch), base);
    if (jumping) code.set_error_handler(&g_jump_handler);
    a = new x86::Assembler(&code);
    a->add_diagnostic_options(DiagnosticOptions::kValidateAssembler);
    calls = 0;
  }
};

int main() {
  Ctx c32(Arch::kX86), c64(Arch::kX64);
  Ctx* cbase = nullptr;
  Ctx c32j(Arch::kX86, Globals::kNoBaseAddress, true), c64j(Arch::kX64, Globals::kNoBaseAddress, true);
  std::string line;
  char hex[64];
  while (std::getline(std::cin, line)) {
    std::istringstream is(line);
    std::string modes; std::string name, opt, extra;
    if (!(is >> modes >> name >> opt >> extra)) { puts("BAD"); continue; }
    int mode = atoi(modes.c_str());
    size_t at = modes.find('@');
    if (at != std::string::npos) {
      uint64_t b = strtoull(modes.c_str() + at + 1, nullptr, 10);
      if (!cbase || cbase->base != b) { delete cbase; cbase = new Ctx(Arch::kX64, b); }
    }
    bool jumping = modes.find('!') != std::string::npos;
    Ctx& cx = jumping ? (mode == 64 ? c64j : c32j) : at != std::string::npos ? *cbase : (mode == 64 ? c64 : c32);
    if (cx.calls >= 2000) cx.init();
    cx.calls++;
    InstId id = InstAPI::string_to_inst_id(cx.arch, name.c_str(), name.size());
    if (id == 0) { puts("NOINST"); continue; }
    Operand ops[6];
    int n = 0; bool bad = false;
    std::string t;
    while (is >> t) {
      if (n >= 6) { bad = true; break; }
      if (t == "R") {
        long cls, rid; is >> cls >> rid;
        Reg r; if (!make_reg(cls, rid, r)) { bad = true; break; }
        ops[n++] = r;
      } else if (t == "L") {
        // a label bound `delta` bytes before the instruction: bind here, then emit `delta` filler bytes
        long delta; is >> delta;
        Label l = cx.a->new_label();
        cx.a->bind(l);
        for (long k = 0; k < delta; k++) cx.a->db(0x90);
        ops[n++] = l;
      } else if (t == "I") {
        std::string vs; is >> vs;
        int64_t v = (vs.size() && vs[0] == '-') ? int64_t(strtoll(vs.c_str(), nullptr, 10)) : int64_t(strtoull(vs.c_str(), nullptr, 10));
        ops[n++] = Imm(v);
      } else if (t == "M") {
        long msz, seg, bcls, bid, icls, iid, shift, bc, at; std::string ds;
        is >> msz >> seg >> bcls >> bid >> icls >> iid >> shift >> ds >> bc >> at;
        int64_t disp = (ds.size() && ds[0] == '-') ? int64_t(strtoll(ds.c_str(), nullptr, 10)) : int64_t(strtoull(ds.c_str(), nullptr, 10));
        x86::Mem m;
        if (bcls == 20) m.set_base(x86::rip);
        else if (bcls != 0) { Reg r; if (!make_reg(bcls, bid, r)) { bad = true; break; } m.set_base(r); }
        if (icls != 0) { Reg r; if (!make_reg(icls, iid, r)) { bad = true; break; } m.set_index(r); m.set_shift(uint32_t(shift)); }
        m.set_offset(int64_t(disp));
        m.set_size(uint32_t(msz));
        if (seg) m.set_segment(uint32_t(seg));
        if (bc) m.set_broadcast(x86::Mem::Broadcast(bc));
        if (at) m.set_addr_type(x86::Mem::AddrType(at));
        ops[n++] = m;
      } else { bad = true; break; }
    }
    if (bad) { puts("BAD"); continue; }
    x86::Assembler& a = *cx.a;
    if (jumping) {
      // a refused instruction that carries one-shot state (lock + rep options, {k3}); the handler longjmps out of the emitter
      if (setjmp(g_jmp) == 0) {
        a.set_inst_options(InstOptions::kX86_Lock | InstOptions::kX86_Rep);
        a.set_extra_reg(x86::k(3));
        Operand none_ext[3];
        a._emit(x86::Inst::kIdAdd, x86::eax, x86::eax, Operand(), none_ext);
        puts("BAD-PROBE-ACCEPTED"); continue;
      }
    }
    size_t before = a.offset();
    // frame: the (up to 256) bytes in front of the instruction must not change -- an emitter that patches back (address-size override
    // inserted at a mark, REX removal of lea) must not reach into earlier instructions; neither on success nor on refusal
    uint8_t front[256];
    size_t nfront = before < sizeof front ? before : sizeof front;
    memcpy(front, cx.code.text_section()->buffer().data() + (before - nfront), nfront);
    a.set_inst_options(InstOptions(uint32_t(strtoul(opt.c_str(), nullptr, 16))));
    if (extra != "-") {
      long cls = 0, rid = 0; sscanf(extra.c_str(), "%ld:%ld", &cls, &rid);
      Reg r; if (make_reg(cls, rid, r)) a.set_extra_reg(r);
    }
    Error err;
    if (jumping && setjmp(g_jmp) != 0) {
      err = Error::kInvalidState;      // the call itself was refused (reported through the jumping handler)
    } else {
      err = a._emit(id, ops[0], ops[1], ops[2], &ops[3]);
    }
    // no manual reset of options / extra register here: resetting the one-shot state is the emitter's job (also when it fails)
    size_t after = a.offset();
    if (memcmp(front, cx.code.text_section()->buffer().data() + (before - nfront), nfront) != 0) { printf("DIRTY-FRONT %u\n", unsigned(err)); continue; }
    if (err != Error::kOk) { printf("ERR %u %zu\n", unsigned(err), after - before); continue; }
    const uint8_t* p = cx.code.text_section()->buffer().data();
    std::string out = "OK ";
    for (size_t i = before; i < after; i++) { snprintf(hex, sizeof hex, "%02x", p[i]); out += hex; }
    snprintf(hex, sizeof hex, " %zu", before);
    out += hex;
    puts(out.c_str());
  }
  return 0;
}

// C06: call-site argument marshalling (x86rapass.cpp on_before_invoke / move_imm_to_reg_arg / move_imm_to_stack_arg /
// move_reg_to_stack_arg) observed where the property says: "values received by C callees ... on the host".
// A function built with x86::Compiler calls a C callee (compiled by the host C++ compiler, i.e. with the real SysV ABI) passing
// immediates and virtual registers; the callee records what it received.
#pragma once
#include <asmjit/core.h>
#include <asmjit/x86.h>
#include <cstdint>
#include <cstring>
#include <string>
#include <vector>

namespace c06invoke {

static volatile int64_t g_rec[16];
static volatile int g_cnt;

#define C06_NOINLINE __attribute__((noinline))
extern "C" {
C06_NOINLINE void cb_i64(int64_t a0, int64_t a1, int64_t a2, int64_t a3, int64_t a4, int64_t a5, int64_t a6, int64_t a7, int64_t a8, int64_t a9, int64_t a10, int64_t a11) {
  int64_t v[12] = {a0, a1, a2, a3, a4, a5, a6, a7, a8, a9, a10, a11};
  for (int i = 0; i < 12; i++) g_rec[i] = v[i];
  g_cnt = 12;
}
C06_NOINLINE void cb_i32(int32_t a0, int32_t a1, int32_t a2, int32_t a3, int32_t a4, int32_t a5, int32_t a6, int32_t a7, int32_t a8, int32_t a9, int32_t a10, int32_t a11) {
  int32_t v[12] = {a0, a1, a2, a3, a4, a5, a6, a7, a8, a9, a10, a11};
  for (int i = 0; i < 12; i++) g_rec[i] = v[i];
  g_cnt = 12;
}
C06_NOINLINE void cb_mix(uint8_t a0, int8_t a1, uint16_t a2, int16_t a3, uint32_t a4, int32_t a5, uint64_t a6, int64_t a7,
                         uint8_t b0, int8_t b1, uint16_t b2, int16_t b3, uint32_t b4, int32_t b5, uint64_t b6, int64_t b7) {
  g_rec[0] = a0; g_rec[1] = a1; g_rec[2] = a2; g_rec[3] = a3; g_rec[4] = a4; g_rec[5] = a5; g_rec[6] = int64_t(a6); g_rec[7] = a7;
  g_rec[8] = b0; g_rec[9] = b1; g_rec[10] = b2; g_rec[11] = b3; g_rec[12] = b4; g_rec[13] = b5; g_rec[14] = int64_t(b6); g_rec[15] = b7;
  g_cnt = 16;
}
C06_NOINLINE void cb_f64(double a0, double a1, double a2, double a3, double a4, double a5, double a6, double a7, double a8, double a9, double a10, double a11) {
  double v[12] = {a0, a1, a2, a3, a4, a5, a6, a7, a8, a9, a10, a11};
  for (int i = 0; i < 12; i++) { int64_t b; memcpy(&b, &v[i], 8); g_rec[i] = b; }
  g_cnt = 12;
}
}

static const asmjit::TypeId kMix[16] = {
  asmjit::TypeId::kUInt8, asmjit::TypeId::kInt8, asmjit::TypeId::kUInt16, asmjit::TypeId::kInt16, asmjit::TypeId::kUInt32, asmjit::TypeId::kInt32,
  asmjit::TypeId::kUInt64, asmjit::TypeId::kInt64, asmjit::TypeId::kUInt8, asmjit::TypeId::kInt8, asmjit::TypeId::kUInt16, asmjit::TypeId::kInt16,
  asmjit::TypeId::kUInt32, asmjit::TypeId::kInt32, asmjit::TypeId::kUInt64, asmjit::TypeId::kInt64 };

// kind: 0 int64 x12, 1 int32 x12, 2 mixed x16, 3 double x12.  mode[i]: 0 immediate, 1 virtual register.  Returns "" on success (g_rec filled) else an error text.
static inline std::string run(int kind, const std::vector<int>& mode, const std::vector<int64_t>& val) {
  using namespace asmjit;
#if !defined(__x86_64__)
  return "host";
#else
  uint32_t n = kind == 2 ? 16u : 12u;
  if (mode.size() < n || val.size() < n) return "args";
  JitRuntime rt;
  CodeHolder code;
  if (code.init(rt.environment(), rt.cpu_features()) != Error::kOk) return "init";
  x86::Compiler cc(&code);
  cc.add_func(FuncSignature::build<void>());

  FuncSignature sig;
  sig.set_call_conv_id(CallConvId::kCDecl);
  sig.set_ret(TypeId::kVoid);
  std::vector<TypeId> ty(n);
  for (uint32_t i = 0; i < n; i++) {
    ty[i] = kind == 0 ? TypeId::kInt64 : kind == 1 ? TypeId::kInt32 : kind == 2 ? kMix[i] : TypeId::kFloat64;
    sig.add_arg(ty[i]);
  }
  uint64_t target = kind == 0 ? uint64_t(uintptr_t(&cb_i64)) : kind == 1 ? uint64_t(uintptr_t(&cb_i32)) : kind == 2 ? uint64_t(uintptr_t(&cb_mix)) : uint64_t(uintptr_t(&cb_f64));

  std::vector<Reg> regs(n);
  for (uint32_t i = 0; i < n; i++) {
    if (mode[i] != 1) continue;
    if (kind == 3) {
      x86::Gp t = cc.new_gp64();
      x86::Vec x = cc.new_xmm_sd();
      cc.mov(t, Imm(val[i]));
      cc.movq(x, t);
      regs[i] = x;
    }
    else if (TypeUtils::size_of(ty[i]) == 8) {
      x86::Gp r = cc.new_gp64();
      cc.mov(r, Imm(val[i]));
      regs[i] = r;
    }
    else {
      x86::Gp r = cc.new_gp32();
      cc.mov(r, Imm(int64_t(int32_t(uint32_t(uint64_t(val[i]))))));
      regs[i] = r;
    }
  }
  InvokeNode* inv = nullptr;
  Error e = cc.invoke(Out<InvokeNode*>(inv), target, sig);
  if (e != Error::kOk || !inv) return "invoke";
  for (uint32_t i = 0; i < n; i++) {
    if (mode[i] == 1) inv->set_arg(i, regs[i]);
    else inv->set_arg(i, Imm(val[i]));
  }
  cc.ret();
  cc.end_func();
  e = cc.finalize();
  if (e != Error::kOk) { char b[32]; snprintf(b, sizeof(b), "finalize%u", unsigned(e)); return b; }
  typedef void (*Fn)();
  Fn fn = nullptr;
  if (rt.add(&fn, &code) != Error::kOk || !fn) return "add";
  for (int i = 0; i < 16; i++) g_rec[i] = 0x5A5A5A5A;
  g_cnt = 0;
  fn();
  rt.release(fn);
  return "";
#endif
}

} // namespace c06invoke

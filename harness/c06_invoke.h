// C06: call-site argument marshalling (x86rapass.cpp on_before_invoke / move_imm_to_reg_arg / move_imm_to_stack_arg /
// move_reg_to_stack_arg) observed where the property says: "values received by C callees ... on the host".
// A function built with x86::Compiler calls a C callee (compiled by the host C++ compiler, i.e. with the real SysV ABI) passing
// immediates and virtual registers; the callee records what it received.
#pragma once
#include <asmjit/core.h>
#include <asmjit/x86.h>
#include <asmjit/a64.h>
#include <cstdint>
#if defined(__x86_64__)
#include <emmintrin.h>
#endif
#include <cstring>
#include <string>
#include <vector>

namespace c06invoke {

static volatile int64_t g_rec[32];
static volatile int g_cnt;

#define C06_NOINLINE __attribute__((noinline))
extern "C" {
C06_NOINLINE void cb_i64(int64_t a0, int64_t a1, int64_t a2, int64_t a3, int64_t a4, int64_t a5, int64_t a6, int64_t a7, int64_t a8, int64_t a9, int64_t a10, int64_t a11) {
  int64_t v[12] = {a0, a1, a2, a3, a4, a5, a6, a7, a8, a9, a10, a11};
  for (int i = 0; i < 12; i++) g_rec[i] = v[i];
  g_cnt = 12;
}
C06_NOINLINE void cb_i32(int32_t a0, int32_t a1, int32_t a2, int32_t a3, int32_t a4, int32_t a5, int32_t a6, int32_t a7, int32_t a8, int32_t a9, int32_t a10, int32_t a11) {
  int32_t v[12] = {a0, a1, a2, a3, a4, a5, a6, a7, a8, a9, a10, a11};
  for (int i = 0; i < 12; i++) g_rec[i] = v[i];
  g_cnt = 12;
}
C06_NOINLINE void cb_mix(uint8_t a0, int8_t a1, uint16_t a2, int16_t a3, uint32_t a4, int32_t a5, uint64_t a6, int64_t a7,
                         uint8_t b0, int8_t b1, uint16_t b2, int16_t b3, uint32_t b4, int32_t b5, uint64_t b6, int64_t b7) {
  g_rec[0] = a0; g_rec[1] = a1; g_rec[2] = a2; g_rec[3] = a3; g_rec[4] = a4; g_rec[5] = a5; g_rec[6] = int64_t(a6); g_rec[7] = a7;
  g_rec[8] = b0; g_rec[9] = b1; g_rec[10] = b2; g_rec[11] = b3; g_rec[12] = b4; g_rec[13] = b5; g_rec[14] = int64_t(b6); g_rec[15] = b7;
  g_cnt = 16;
}
C06_NOINLINE void cb_f64(double a0, double a1, double a2, double a3, double a4, double a5, double a6, double a7, double a8, double a9, double a10, double a11) {
  double v[12] = {a0, a1, a2, a3, a4, a5, a6, a7, a8, a9, a10, a11};
  for (int i = 0; i < 12; i++) { int64_t b; memcpy(&b, &v[i], 8); g_rec[i] = b; }
  g_cnt = 12;
}
// round 4: float / interleaved int-double / 128-bit vector parameters, and the same set compiled as Win64 functions (ms_abi) on the host
#define C06_REC12(T, conv) \
  T v[12] = {a0, a1, a2, a3, a4, a5, a6, a7, a8, a9, a10, a11}; \
  for (int i = 0; i < 12; i++) { int64_t b = 0; memcpy(&b, (const void*)&v[i], sizeof(T)); g_rec[i] = b; } g_cnt = 12;
C06_NOINLINE void cb_f32(float a0, float a1, float a2, float a3, float a4, float a5, float a6, float a7, float a8, float a9, float a10, float a11) { C06_REC12(float, 0) }
C06_NOINLINE void cb_id(int64_t a0, double a1, int64_t a2, double a3, int64_t a4, double a5, int64_t a6, double a7, int64_t a8, double a9, int64_t a10, double a11) {
  int64_t iv[6] = {a0, a2, a4, a6, a8, a10}; double dv[6] = {a1, a3, a5, a7, a9, a11};
  for (int i = 0; i < 6; i++) { g_rec[2 * i] = iv[i]; int64_t b; memcpy(&b, &dv[i], 8); g_rec[2 * i + 1] = b; }
  g_cnt = 12;
}
C06_NOINLINE void cb_v128(__m128i a0, __m128i a1, __m128i a2, __m128i a3, __m128i a4, __m128i a5, __m128i a6, __m128i a7, __m128i a8, __m128i a9) {
  __m128i v[10] = {a0, a1, a2, a3, a4, a5, a6, a7, a8, a9};
  for (int i = 0; i < 10; i++) { int64_t b[2]; memcpy(b, &v[i], 16); g_rec[2 * i] = b[0]; g_rec[2 * i + 1] = b[1]; }
  g_cnt = 20;
}
C06_NOINLINE void cb_v128x4(__m128i a0, __m128i a1, __m128i a2, __m128i a3) {
  __m128i v[4] = {a0, a1, a2, a3};
  for (int i = 0; i < 4; i++) { int64_t b[2]; memcpy(b, &v[i], 16); g_rec[2 * i] = b[0]; g_rec[2 * i + 1] = b[1]; }
  g_cnt = 8;
}
#define C06_MS __attribute__((ms_abi, noinline))
C06_MS void cbw_v128x4(__m128i a0, __m128i a1, __m128i a2, __m128i a3) {
  __m128i v[4] = {a0, a1, a2, a3};
  for (int i = 0; i < 4; i++) { int64_t b[2]; memcpy(b, &v[i], 16); g_rec[2 * i] = b[0]; g_rec[2 * i + 1] = b[1]; }
  g_cnt = 8;
}
C06_MS void cbw_i64(int64_t a0, int64_t a1, int64_t a2, int64_t a3, int64_t a4, int64_t a5, int64_t a6, int64_t a7, int64_t a8, int64_t a9, int64_t a10, int64_t a11) { C06_REC12(int64_t, 1) }
C06_MS void cbw_i32(int32_t a0, int32_t a1, int32_t a2, int32_t a3, int32_t a4, int32_t a5, int32_t a6, int32_t a7, int32_t a8, int32_t a9, int32_t a10, int32_t a11) {
  int32_t v[12] = {a0, a1, a2, a3, a4, a5, a6, a7, a8, a9, a10, a11};
  for (int i = 0; i < 12; i++) g_rec[i] = v[i];
  g_cnt = 12;
}
C06_MS void cbw_mix(uint8_t a0, int8_t a1, uint16_t a2, int16_t a3, uint32_t a4, int32_t a5, uint64_t a6, int64_t a7,
                    uint8_t b0, int8_t b1, uint16_t b2, int16_t b3, uint32_t b4, int32_t b5, uint64_t b6, int64_t b7) {
  g_rec[0] = a0; g_rec[1] = a1; g_rec[2] = a2; g_rec[3] = a3; g_rec[4] = a4; g_rec[5] = a5; g_rec[6] = int64_t(a6); g_rec[7] = a7;
  g_rec[8] = b0; g_rec[9] = b1; g_rec[10] = b2; g_rec[11] = b3; g_rec[12] = b4; g_rec[13] = b5; g_rec[14] = int64_t(b6); g_rec[15] = b7;
  g_cnt = 16;
}
C06_MS void cbw_f64(double a0, double a1, double a2, double a3, double a4, double a5, double a6, double a7, double a8, double a9, double a10, double a11) { C06_REC12(double, 1) }
C06_MS void cbw_f32(float a0, float a1, float a2, float a3, float a4, float a5, float a6, float a7, float a8, float a9, float a10, float a11) { C06_REC12(float, 1) }
C06_MS void cbw_id(int64_t a0, double a1, int64_t a2, double a3, int64_t a4, double a5, int64_t a6, double a7, int64_t a8, double a9, int64_t a10, double a11) {
  int64_t iv[6] = {a0, a2, a4, a6, a8, a10}; double dv[6] = {a1, a3, a5, a7, a9, a11};
  for (int i = 0; i < 6; i++) { g_rec[2 * i] = iv[i]; int64_t b; memcpy(&b, &dv[i], 8); g_rec[2 * i + 1] = b; }
  g_cnt = 12;
}
C06_MS void cbw_v128(__m128i a0, __m128i a1, __m128i a2, __m128i a3, __m128i a4, __m128i a5, __m128i a6, __m128i a7, __m128i a8, __m128i a9) {
  __m128i v[10] = {a0, a1, a2, a3, a4, a5, a6, a7, a8, a9};
  for (int i = 0; i < 10; i++) { int64_t b[2]; memcpy(b, &v[i], 16); g_rec[2 * i] = b[0]; g_rec[2 * i + 1] = b[1]; }
  g_cnt = 20;
}
}

static const asmjit::TypeId kMix[16] = {
  asmjit::TypeId::kUInt8, asmjit::TypeId::kInt8, asmjit::TypeId::kUInt16, asmjit::TypeId::kInt16, asmjit::TypeId::kUInt32, asmjit::TypeId::kInt32,
  asmjit::TypeId::kUInt64, asmjit::TypeId::kInt64, asmjit::TypeId::kUInt8, asmjit::TypeId::kInt8, asmjit::TypeId::kUInt16, asmjit::TypeId::kInt16,
  asmjit::TypeId::kUInt32, asmjit::TypeId::kInt32, asmjit::TypeId::kUInt64, asmjit::TypeId::kInt64 };

// kind: 0 int64 x12, 1 int32 x12, 2 mixed x16, 3 double x12, 4 float x12, 5 (int64, double) x6, 6 __m128i x10 (value i = {val, ~val}), 7 __m128i x4;
// + 16: the callee is a Win64 function (CallConvId::kX64Windows, compiled with __attribute__((ms_abi))).
// mode[i]: 0 immediate, 1 virtual register.  Returns "" on success (g_rec filled) else an error text.
static inline std::string run(int kind_, const std::vector<int>& mode, const std::vector<int64_t>& val) {
  int win = kind_ >= 16 ? 1 : 0;
  int kind = kind_ & 15;
  using namespace asmjit;
#if !defined(__x86_64__)
  return "host";
#else
  if (kind > 7) return "kind";
  uint32_t n = kind == 2 ? 16u : kind == 6 ? 10u : kind == 7 ? 4u : 12u;
  if (mode.size() < n || val.size() < n) return "args";
  JitRuntime rt;
  CodeHolder code;
  if (code.init(rt.environment(), rt.cpu_features()) != Error::kOk) return "init";
  x86::Compiler cc(&code);
  cc.add_func(FuncSignature::build<void>());

  FuncSignature sig;
  sig.set_call_conv_id(win ? CallConvId::kX64Windows : CallConvId::kCDecl);
  sig.set_ret(TypeId::kVoid);
  std::vector<TypeId> ty(n);
  for (uint32_t i = 0; i < n; i++) {
    ty[i] = kind == 0 ? TypeId::kInt64 : kind == 1 ? TypeId::kInt32 : kind == 2 ? kMix[i] : kind == 3 ? TypeId::kFloat64 : kind == 4 ? TypeId::kFloat32
          : kind == 5 ? ((i & 1) ? TypeId::kFloat64 : TypeId::kInt64) : TypeId::kInt64x2;
    sig.add_arg(ty[i]);
  }
  const void* sysv[8] = {(const void*)&cb_i64, (const void*)&cb_i32, (const void*)&cb_mix, (const void*)&cb_f64, (const void*)&cb_f32, (const void*)&cb_id, (const void*)&cb_v128, (const void*)&cb_v128x4};
  const void* ms[8] = {(const void*)&cbw_i64, (const void*)&cbw_i32, (const void*)&cbw_mix, (const void*)&cbw_f64, (const void*)&cbw_f32, (const void*)&cbw_id, (const void*)&cbw_v128, (const void*)&cbw_v128x4};
  uint64_t target = uint64_t(uintptr_t(win ? ms[kind] : sysv[kind]));

  std::vector<Reg> regs(n);
  for (uint32_t i = 0; i < n; i++) {
    if (mode[i] != 1) continue;
    if (kind == 6 || kind == 7) {
      x86::Gp t = cc.new_gp64();
      x86::Vec x = cc.new_xmm();
      x86::Vec y = cc.new_xmm();
      cc.mov(t, Imm(val[i]));
      cc.movq(x, t);
      cc.mov(t, Imm(~val[i]));
      cc.movq(y, t);
      cc.punpcklqdq(x, y);
      regs[i] = x;
    }
    else if (kind == 4) {
      x86::Gp t = cc.new_gp32();
      x86::Vec x = cc.new_xmm_ss();
      cc.mov(t, Imm(int64_t(int32_t(uint32_t(uint64_t(val[i]))))));
      cc.movd(x, t);
      regs[i] = x;
    }
    else if (kind == 3 || (kind == 5 && (i & 1))) {
      x86::Gp t = cc.new_gp64();
      x86::Vec x = cc.new_xmm_sd();
      cc.mov(t, Imm(val[i]));
      cc.movq(x, t);
      regs[i] = x;
    }
    else if (TypeUtils::size_of(ty[i]) == 8) {
      x86::Gp r = cc.new_gp64();
      cc.mov(r, Imm(val[i]));
      regs[i] = r;
    }
    else {
      x86::Gp r = cc.new_gp32();
      cc.mov(r, Imm(int64_t(int32_t(uint32_t(uint64_t(val[i]))))));
      regs[i] = r;
    }
  }
  InvokeNode* inv = nullptr;
  Error e = cc.invoke(Out<InvokeNode*>(inv), target, sig);
  if (e != Error::kOk || !inv) return "invoke";
  for (uint32_t i = 0; i < n; i++) {
    if (mode[i] == 2) continue;          // argument left unassigned (the callee receives whatever is there)
    if (mode[i] == 1) inv->set_arg(i, regs[i]);
    else inv->set_arg(i, Imm(val[i]));
  }
  cc.ret();
  cc.end_func();
  e = cc.finalize();
  if (e != Error::kOk) { char b[32]; snprintf(b, sizeof(b), "finalize%u", unsigned(e)); return b; }
  typedef void (*Fn)();
  Fn fn = nullptr;
  if (rt.add(&fn, &code) != Error::kOk || !fn) return "add";
  for (int i = 0; i < 32; i++) g_rec[i] = 0x5A5A5A5A;
  g_cnt = 0;
  fn();
  rt.release(fn);
  return "";
#endif
}

// round 4 (e): AArch64 call sites.  The same caller built with a64::Compiler for an AArch64 target (AAPCS64 or Apple); nothing is executed:
// the assembled bytes are returned and a byte-level simulator (tools/c06_a64call.py) runs them up to the BLR and inspects x0-x7 / d0-d7 / [sp].
// kind: 0 int64 x12, 1 int32 x12, 2 mixed x16, 3 double x12.
static inline std::string run_a64(int kind, const asmjit::Environment& env, const std::vector<int>& mode, const std::vector<int64_t>& val, std::string& hex) {
  using namespace asmjit;
  if (kind > 3) return "kind";
  uint32_t n = kind == 2 ? 16u : 12u;
  if (mode.size() < n || val.size() < n) return "args";
  CodeHolder code;
  if (code.init(env) != Error::kOk) return "init";
  a64::Compiler cc(&code);
  cc.add_func(FuncSignature::build<void>());
  FuncSignature sig;
  sig.set_call_conv_id(CallConvId::kCDecl);
  sig.set_ret(TypeId::kVoid);
  std::vector<TypeId> ty(n);
  for (uint32_t i = 0; i < n; i++) {
    ty[i] = kind == 0 ? TypeId::kInt64 : kind == 1 ? TypeId::kInt32 : kind == 2 ? kMix[i] : TypeId::kFloat64;
    sig.add_arg(ty[i]);
  }
  std::vector<Reg> regs(n);
  for (uint32_t i = 0; i < n; i++) {
    if (mode[i] != 1) continue;
    if (kind == 3) {
      a64::Gp t = cc.new_gp64();
      a64::Vec d = cc.new_vec_d();
      cc.mov(t, Imm(val[i]));
      cc.fmov(d, t);
      regs[i] = d;
    }
    else if (TypeUtils::size_of(ty[i]) == 8) {
      a64::Gp r = cc.new_gp64();
      cc.mov(r, Imm(val[i]));
      regs[i] = r;
    }
    else {
      a64::Gp r = cc.new_gp32();
      cc.mov(r, Imm(int64_t(uint32_t(uint64_t(val[i])))));
      regs[i] = r;
    }
  }
  InvokeNode* inv = nullptr;
  a64::Gp tgt = cc.new_gp64();
  cc.mov(tgt, Imm(0x7A7A0000ull));
  Error e = cc.invoke(Out<InvokeNode*>(inv), tgt, sig);
  if (e != Error::kOk || !inv) return "invoke";
  for (uint32_t i = 0; i < n; i++) {
    if (mode[i] == 1) inv->set_arg(i, regs[i]);
    else inv->set_arg(i, Imm(val[i]));
  }
  cc.ret();
  cc.end_func();
  e = cc.finalize();
  if (e != Error::kOk) { char b[32]; snprintf(b, sizeof(b), "finalize%u", unsigned(e)); return b; }
  Section* text = code.text_section();
  const uint8_t* d = text->data();
  for (size_t i = 0; i < text->buffer_size(); i++) { char hx[4]; snprintf(hx, sizeof(hx), "%02x", d[i]); hex += hx; }
  return "";
}

} // namespace c06invoke

// C19 correspondence harness: drives the real asmjit::ConstPool of /repo's working tree.
// Protocol (stdin, one command per line):
//   N                 fresh Arena + ConstPool                          -> "N"
//   R                 pool.reset() + arena.reset() on the current one  -> "R"
//   A <size> <hex|->  pool.add(data, size, Out(off))                   -> "A ok <offset>" | "A err <ErrorName>"
//                     (guard: `off` is pre-set to a sentinel; an error that writes it prints "A err <E> WROTE-OFFSET")
//   Q                 accessors                                        -> "Q <size()> <alignment()> <min_item_size()>"
//   F                 pool.fill(buf) into a guarded, 0xCC-prefilled buffer -> "F <hex>"  (or "F GUARD-BROKEN ...")
//   E <mode> <pre>    emit <pre> bytes of 0xEE, then embed the pool through an emitter and print the bytes from the
//                     bound label to the end of .text:
//                       mode 0: x86::Assembler::embed_const_pool      mode 1: x86::Builder::embed_const_pool + finalize
//                       mode 2: a64::Assembler::embed_const_pool      mode 3: x86::Compiler::_new_const (global scope)
//                               replaying every add of the current pool, + finalize
//                       mode 5: as mode 3 but ConstPoolScope::kLocal inside a function (pool emitted by end_func)
//                       mode 6: a64::Builder::embed_const_pool + finalize   mode 7: a64::Compiler::_new_const (global) + finalize
//                       Assembler modes (0, 2, 4) write over a DIRTY destination (0xEE junk, assembler rewound by set_offset)
//                       mode 4: x86::Assembler::embed_const_pool with a StringLogger attached; the `.db/.dw/.dd/.dq`
//                               data directives of the log are parsed back into bytes: aux=ok,log=<item size>:<hex>
//                     -> "E <hex> | pre=<n> lab=<label offset> end=<code size> pad=<1 if padding is all zero> aux=<...>"
//                     everything after " | " is for the independent monitor only (the model does not produce it).
//   S                 coverage counters of the model driver; the harness answers "S"
//   X <mode>          EXECUTE on the host (x86-64, JitRuntime): a generated function reads every successfully added
//                     constant of the current history back through its label+offset operand and stores it into a buffer
//                       mode 0: x86::Compiler, new_const(kGlobal)     mode 1: x86::Compiler, new_const(kLocal)
//                       mode 2: x86::Builder: `mov reg, [pool_label + offset]` loads, ret, embed_const_pool(label, pool)
//                       mode 3: x86::Compiler, THREE functions in one CodeHolder, each with its own local pool + the shared global pool
//                     -> "X <hex of the bytes read, constants in history order>" | "X UNSUPPORTED" on another host
#include <asmjit/core.h>
#include <asmjit/x86.h>
#include <asmjit/a64.h>
#include <cstdio>
#include <cstring>
#include <cinttypes>
#include <string>
#include <vector>
#include <memory>

using namespace asmjit;

static int hexval(char c) {
  if (c >= '0' && c <= '9') return c - '0';
  if (c >= 'a' && c <= 'f') return c - 'a' + 10;
  if (c >= 'A' && c <= 'F') return c - 'A' + 10;
  return -1;
}

static const char* err_name(Error e) {
  switch (e) {
    case Error::kOk: return "Ok";
    case Error::kOutOfMemory: return "OutOfMemory";
    case Error::kInvalidArgument: return "InvalidArgument";
    default: return "Other";
  }
}

static void print_hex(const uint8_t* p, size_t n) {
  static const char* d = "0123456789abcdef";
  std::string s;
  s.reserve(n * 2);
  for (size_t i = 0; i < n; i++) { s.push_back(d[p[i] >> 4]); s.push_back(d[p[i] & 15]); }
  fputs(s.c_str(), stdout);
}

struct AddRec { size_t size; std::vector<uint8_t> data; bool ok; size_t off; };

struct State {
  std::unique_ptr<Arena> arena;
  std::unique_ptr<ConstPool> pool;
  std::vector<AddRec> adds;
  void fresh() {
    pool.reset();
    arena.reset(new Arena(4096));
    pool.reset(new ConstPool(*arena));
    adds.clear();
  }
  void reset() {
    pool->reset();
    arena->reset();
    adds.clear();
  }
};

template<typename Emitter>
static Error emit_prefix(Emitter& e, size_t pre) {
  std::vector<uint8_t> v(pre, 0xEE);
  if (pre) return e.embed(v.data(), pre);
  return Error::kOk;
}

static void report_embed(CodeHolder& code, const Label& label, size_t pre, const char* aux, size_t end_override = SIZE_MAX) {
  Section* text = code.text_section();
  const uint8_t* buf = text->buffer().data();
  size_t end = end_override != SIZE_MAX ? end_override : text->buffer().size();
  if (!code.is_label_bound(label)) { printf("E UNBOUND | pre=%zu lab=0 end=%zu pad=0 aux=%s\n", pre, end, aux); return; }
  size_t lab = size_t(code.label_offset(label));
  bool pad = true;
  bool prefix_ok = true;
  for (size_t i = 0; i < pre && i < end; i++) if (buf[i] != 0xEE) prefix_ok = false;
  for (size_t i = pre; i < lab && i < end; i++) if (buf[i] != 0) pad = false;
  printf("E ");
  if (lab <= end) print_hex(buf + lab, end - lab);
  printf(" | pre=%zu lab=%zu end=%zu pad=%d aux=%s%s\n", pre, lab, end, pad ? 1 : 0, aux, prefix_ok ? "" : ",PREFIX-CLOBBERED");
}

// Assembler paths: make the DESTINATION of fill() dirty. After the prefix, junk (0xEE) is emitted over the whole area the
// pool (and its alignment padding) will occupy, then the assembler is rewound with set_offset(): embed_const_pool()
// now writes over non-zero bytes, so a fill() that does not clear every gap byte shows up in the embedded image too.
template<typename Asm>
static void dirty_destination(Asm& a, State& st, size_t pre) {
  size_t n = st.pool->size() + 2 * st.pool->alignment() + 16;
  std::vector<uint8_t> junk(n, 0xEE);
  a.embed(junk.data(), n);
  a.set_offset(pre);
}

template<typename BuilderT>
static void embed_builder(State& st, CodeHolder& code, size_t pre) {
  BuilderT b(&code);
  emit_prefix(b, pre);
  Label l = b.new_label();
  Error e = b.embed_const_pool(l, *st.pool);
  Error f = b.finalize();
  report_embed(code, l, pre, (e == Error::kOk && f == Error::kOk) ? "ok" : "error");
}

template<typename CompilerT>
static void embed_compiler(State& st, CodeHolder& code, size_t pre, bool local) {
  CompilerT cc(&code);
  emit_prefix(cc, pre);
  ConstPoolScope scope = local ? ConstPoolScope::kLocal : ConstPoolScope::kGlobal;
  if (local) cc.add_func(FuncSignature::build<void>());
  std::string aux = "ok";
  uint32_t label_id = Globals::kInvalidId;
  for (size_t i = 0; i < st.adds.size(); i++) {
    const AddRec& r = st.adds[i];
    BaseMem m;
    Error e = cc._new_const(Out<BaseMem>(m), scope, r.data.data(), r.size);
    bool ok = (e == Error::kOk);
    if (ok != r.ok) { aux = "replay-status-mismatch@" + std::to_string(i); break; }
    if (ok) {
      if (size_t(int64_t(m.offset())) != r.off || m.signature().size() != uint32_t(r.size) || !m.has_base_label()) { aux = "replay-mem-mismatch@" + std::to_string(i); break; }
      if (label_id == Globals::kInvalidId) label_id = m.base_id();
      else if (label_id != m.base_id()) { aux = "replay-label-mismatch@" + std::to_string(i); break; }
    }
    else if (m.has_base() || m.offset() != 0) { aux = "replay-error-wrote-operand@" + std::to_string(i); break; }
  }
  if (local) { cc.ret(); cc.end_func(); }
  Error f = cc.finalize();
  if (f != Error::kOk) aux += ",finalize-error";
  if (local) pre = 0;   // the function body precedes the pool: only alignment and contents are judged
  if (label_id == Globals::kInvalidId) {
    // no successful add: no pool node exists, nothing is emitted after the prefix
    Section* text = code.text_section();
    printf("E  | pre=%zu lab=%zu end=%zu pad=1 aux=%s,nopool\n", pre, text->buffer().size(), text->buffer().size(), aux.c_str());
  }
  else {
    Label l; l.set_id(label_id);
    report_embed(code, l, pre, aux.c_str());
  }
}

static void do_embed(State& st, int mode, size_t pre) {
  Environment env = (mode == 2 || mode == 6 || mode == 7) ? Environment(Arch::kAArch64) : Environment(Arch::kX64);
  CodeHolder code;
  code.init(env);
  if (mode == 0) {
    x86::Assembler a(&code);
    emit_prefix(a, pre);
    dirty_destination(a, st, pre);
    Label l = a.new_label();
    Error e = a.embed_const_pool(l, *st.pool);
    report_embed(code, l, pre, e == Error::kOk ? "ok" : err_name(e), a.offset());
  }
  else if (mode == 4) {
    StringLogger lg;
    code.set_logger(&lg);
    x86::Assembler a(&code);
    emit_prefix(a, pre);
    dirty_destination(a, st, pre);
    size_t mark = lg.data_size();
    Label l = a.new_label();
    Error e = a.embed_const_pool(l, *st.pool);
    // parse the data directives logged by embed_const_pool back into bytes (little endian items)
    std::string text(lg.data() + mark, lg.data_size() - mark);
    std::string bytes_hex;
    unsigned item = 0;
    bool bad = false;
    size_t pos = 0;
    static const char* hd = "0123456789abcdef";
    while (pos < text.size()) {
      size_t eol = text.find('\n', pos);
      if (eol == std::string::npos) eol = text.size();
      std::string ln = text.substr(pos, eol - pos);
      pos = eol + 1;
      size_t d = ln.find(".d");
      if (d == std::string::npos || d + 2 >= ln.size()) continue;
      char t = ln[d + 2];
      unsigned isz = t == 'b' ? 1 : t == 'w' ? 2 : t == 'd' ? 4 : t == 'q' ? 8 : 0;
      if (!isz) continue;
      if (item && item != isz) bad = true;
      item = isz;
      size_t q = d + 3;
      while ((q = ln.find("0x", q)) != std::string::npos) {
        q += 2;
        unsigned long long v = strtoull(ln.c_str() + q, nullptr, 16);
        for (unsigned k = 0; k < isz; k++) { unsigned byte = unsigned((v >> (8 * k)) & 0xFF); bytes_hex.push_back(hd[byte >> 4]); bytes_hex.push_back(hd[byte & 15]); }
      }
    }
    std::string aux = (e == Error::kOk ? std::string("ok") : std::string(err_name(e))) + ",log=" + std::to_string(item) + ":" + bytes_hex + (bad ? ":MIXED" : "");
    report_embed(code, l, pre, aux.c_str(), a.offset());
  }
  else if (mode == 1) embed_builder<x86::Builder>(st, code, pre);
  else if (mode == 6) embed_builder<a64::Builder>(st, code, pre);
  else if (mode == 2) {
    a64::Assembler a(&code);
    emit_prefix(a, pre);
    dirty_destination(a, st, pre);
    Label l = a.new_label();
    Error e = a.embed_const_pool(l, *st.pool);
    report_embed(code, l, pre, e == Error::kOk ? "ok" : err_name(e), a.offset());
  }
  else if (mode == 7) embed_compiler<a64::Compiler>(st, code, pre, false);
  else embed_compiler<x86::Compiler>(st, code, pre, mode == 5);
}

template<typename Emitter>
static void emit_copy(Emitter& e, const x86::Gp& out, const x86::Gp& t, x86::Mem m, size_t size, size_t pos) {
  if (size >= 8) {
    for (size_t k = 0; k < size / 8; k++) {
      x86::Mem mk = m.clone_adjusted(int64_t(8 * k));
      mk.set_size(8);
      e.mov(t.r64(), mk);
      e.mov(x86::qword_ptr(out, int32_t(pos + 8 * k)), t.r64());
    }
  }
  else if (size == 4) { m.set_size(4); e.mov(t.r32(), m); e.mov(x86::dword_ptr(out, int32_t(pos)), t.r32()); }
  else if (size == 2) { m.set_size(2); e.movzx(t.r32(), m); e.mov(x86::word_ptr(out, int32_t(pos)), t.r16()); }
  else { m.set_size(1); e.movzx(t.r32(), m); e.mov(x86::byte_ptr(out, int32_t(pos)), t.r8()); }
}

static void do_execute(State& st, int mode) {
  if (Environment::host().arch() != Arch::kX64) { puts("X UNSUPPORTED"); return; }
  static JitRuntime rt;
  CodeHolder code;
  code.init(rt.environment(), rt.cpu_features());
  size_t total = 0;
  for (const AddRec& r : st.adds) if (r.ok) total += r.size;
  std::vector<uint8_t> out(total + 16, 0xCC);
  typedef void (*Fn)(uint8_t*);
  Fn fn = nullptr;
  Error err = Error::kOk;
  if (mode == 3) {
    // several functions in ONE Compiler / CodeHolder: constant i is read by function i % 3; within a function the constants
    // alternate between its LOCAL pool (emitted by end_func, one pool per function) and the GLOBAL pool (shared, emitted at the end)
    const size_t kFuncs = 3;
    x86::Compiler cc(&code);
    Label entry[kFuncs];
    std::vector<size_t> posv;
    size_t pos = 0;
    for (const AddRec& r : st.adds) { posv.push_back(pos); if (r.ok) pos += r.size; }
    for (size_t fi = 0; fi < kFuncs; fi++) {
      FuncNode* f = cc.add_func(FuncSignature::build<void, uint8_t*>());
      entry[fi] = f->label();
      x86::Gp outp = cc.new_gp_ptr("out");
      x86::Gp t = cc.new_gp64("t");
      f->set_arg(0, outp);
      size_t k = 0;
      for (size_t i = 0; i < st.adds.size(); i++) {
        const AddRec& r = st.adds[i];
        if (!r.ok || (i % kFuncs) != fi) continue;
        ConstPoolScope scope = ((k++) % 2 == 0) ? ConstPoolScope::kLocal : ConstPoolScope::kGlobal;
        x86::Mem m = cc.new_const(scope, r.data.data(), r.size);
        emit_copy(cc, outp, t, m, r.size, posv[i]);
      }
      cc.ret();
      cc.end_func();
    }
    err = cc.finalize();
    if (err == Error::kOk) err = rt.add(&fn, &code);
    if (err != Error::kOk || !fn) { printf("X ERROR %u\n", unsigned(err)); return; }
    uint8_t* base = reinterpret_cast<uint8_t*>(fn);   // JitRuntime::add returns the address the code was copied to (offset 0)
    for (size_t fi = 0; fi < kFuncs; fi++) {
      Fn g = reinterpret_cast<Fn>(base + code.label_offset(entry[fi]));
      g(out.data());
    }
    rt.release(fn);
    bool guard3 = true;
    for (size_t i = total; i < total + 16; i++) if (out[i] != 0xCC) guard3 = false;
    printf("X ");
    if (!guard3) printf("GUARD-BROKEN ");
    print_hex(out.data(), total);
    printf("\n");
    return;
  }
  if (mode == 0 || mode == 1) {
    x86::Compiler cc(&code);
    FuncNode* f = cc.add_func(FuncSignature::build<void, uint8_t*>());
    x86::Gp outp = cc.new_gp_ptr("out");
    x86::Gp t = cc.new_gp64("t");
    f->set_arg(0, outp);
    size_t pos = 0;
    for (const AddRec& r : st.adds) {
      if (!r.ok) continue;
      x86::Mem m = cc.new_const(mode == 1 ? ConstPoolScope::kLocal : ConstPoolScope::kGlobal, r.data.data(), r.size);
      emit_copy(cc, outp, t, m, r.size, pos);
      pos += r.size;
    }
    cc.ret();
    cc.end_func();
    err = cc.finalize();
  }
  else {
    x86::Builder b(&code);
    Label pool_label = b.new_label();
    x86::Gp outp = x86::rdi;   // SysV; the harness runs on Linux x86-64
    x86::Gp t = x86::rax;
    size_t pos = 0;
    for (const AddRec& r : st.adds) {
      if (!r.ok) continue;
      x86::Mem m = x86::ptr(pool_label, int32_t(r.off));
      emit_copy(b, outp, t, m, r.size, pos);
      pos += r.size;
    }
    b.ret();
    err = b.embed_const_pool(pool_label, *st.pool);
    if (err == Error::kOk) err = b.finalize();
  }
  if (err == Error::kOk) err = rt.add(&fn, &code);
  if (err != Error::kOk || !fn) { printf("X ERROR %u\n", unsigned(err)); return; }
  fn(out.data());
  rt.release(fn);
  bool guard = true;
  for (size_t i = total; i < total + 16; i++) if (out[i] != 0xCC) guard = false;
  printf("X ");
  if (!guard) printf("GUARD-BROKEN ");
  print_hex(out.data(), total);
  printf("\n");
}

int main() {
  State st;
  st.fresh();
  std::string line;
  std::vector<char> lb(1 << 16);
  while (fgets(lb.data(), int(lb.size()), stdin)) {
    char c = lb[0];
    if (c == 'N') { st.fresh(); puts("N"); }
    else if (c == 'R') { st.reset(); puts("R"); }
    else if (c == 'A') {
      char* p = lb.data() + 1;
      char* endp = nullptr;
      unsigned long long size = strtoull(p, &endp, 10);
      p = endp;
      while (*p == ' ') p++;
      std::vector<uint8_t> data;
      if (*p != '-') {
        while (hexval(p[0]) >= 0 && hexval(p[1]) >= 0) { data.push_back(uint8_t(hexval(p[0]) * 16 + hexval(p[1]))); p += 2; }
      }
      // readable slack so that a (wrong) over-read stays inside our buffer and shows up as a content difference
      size_t given = data.size();
      data.resize(given + 160, 0xA5);
      const size_t kSentinel = size_t(0x5E5E5E5E5E5E5E5Eull);
      size_t off = kSentinel;
      Error e = st.pool->add(data.data(), size_t(size), Out<size_t>(off));
      data.resize(given);
      AddRec r; r.size = size_t(size); r.data = data; r.data.resize(given + 160, 0xA5); r.ok = (e == Error::kOk); r.off = off;
      st.adds.push_back(r);
      if (e == Error::kOk) printf("A ok %zu\n", off);
      else printf("A err %s%s\n", err_name(e), off == kSentinel ? "" : " WROTE-OFFSET");
    }
    else if (c == 'Q') {
      printf("Q %zu %zu %zu\n", st.pool->size(), st.pool->alignment(), st.pool->min_item_size());
    }
    else if (c == 'F') {
      size_t n = st.pool->size();
      std::vector<uint8_t> buf(n + 64, 0xCC);
      st.pool->fill(buf.data() + 32);
      bool guard = true;
      for (size_t i = 0; i < 32; i++) if (buf[i] != 0xCC || buf[32 + n + i] != 0xCC) guard = false;
      printf("F ");
      if (!guard) printf("GUARD-BROKEN ");
      print_hex(buf.data() + 32, n);
      printf("\n");
    }
    else if (c == 'E') {
      int mode = 0; unsigned long pre = 0;
      sscanf(lb.data() + 1, "%d %lu", &mode, &pre);
      do_embed(st, mode, size_t(pre));
    }
    else if (c == 'S') { puts("S"); }
    else if (c == 'X') {
      int mode = 0;
      sscanf(lb.data() + 1, "%d", &mode);
      do_execute(st, mode);
    }
    else if (c == '\n' || c == 0) {}
    else puts("BAD");
    fflush(stdout);
  }
  return 0;
}

// C06 correspondence harness: drives the REAL CallConv/FuncDetail::init and BaseEmitter::emit_args_assignment of the
// working tree.  Line protocol (all integers, space separated), one answer line per command line:
//   T                                   -> numeric values of the enumerators / tables the Coq model hard-codes
//   F arch plat abi cc va ret n t1..tn  -> FuncDetail::init(signature, environment): calling-convention record, return
//                                          values, every argument value (type kind regtype regid offset indirect),
//                                          arg_stack_size, used register masks
//   S arch plat abi cc va n t1..tn pfp avx avx512 lalign lsize sareg  k1 rt1 id1 ty1 off1 ... kn rtn idn tyn offn
//                                       -> FuncFrame/FuncArgsAssignment::update_func_frame/finalize + emit_args_assignment
//                                          into a Builder; the node list is dumped as text
#include <asmjit/core.h>
#include <asmjit/x86.h>
#include <asmjit/a64.h>
#include <cstdio>
#include <cstring>
#include <cstdlib>
#include <string>
#include <vector>
#include <sstream>
#include "c06_native.h"
#include "c06_invoke.h"

using namespace asmjit;

static const char* err_name(Error e) {
  switch (e) {
    case Error::kOk: return "ok";
    case Error::kInvalidArgument: return "invarg";
    case Error::kInvalidState: return "invstate";
    case Error::kInvalidRegType: return "invregtype";
    case Error::kInvalidAssignment: return "invassign";
    case Error::kOverlappedRegs: return "overlapped";
    case Error::kInvalidPhysId: return "invphysid";
    case Error::kInvalidRegGroup: return "invreggroup";
    case Error::kNoMorePhysRegs: return "nomoreregs";
    case Error::kOutOfMemory: return "oom";
    default: break;
  }
  static char buf[32];
  snprintf(buf, sizeof(buf), "err%u", unsigned(e));
  return buf;
}

static Environment make_env(int arch, int plat, int abi) {
  Environment env;
  env.set_arch(arch == 0 ? Arch::kX86 : arch == 1 ? Arch::kX64 : Arch::kAArch64);
  env.set_platform(plat == 1 ? Platform::kWindows : plat == 2 ? Platform::kOSX : Platform::kLinux);
  env.set_platform_abi(abi == 1 ? PlatformABI::kMSVC : abi == 2 ? PlatformABI::kDarwin : PlatformABI::kGNU);
  return env;
}

static void put_fv(std::string& o, const FuncValue& v) {
  char b[96];
  snprintf(b, sizeof(b), "%u,%u,%u,%u,%d,%u", unsigned(v.type_id()), v.is_reg() ? 1u : v.is_stack() ? 2u : 0u,
           v.is_reg() ? unsigned(v.reg_type()) : 0u, v.is_reg() ? v.reg_id() : 0u, v.is_stack() ? v.stack_offset() : 0,
           v.is_indirect() ? 1u : 0u);
  o += b;
}

static void put_pack(std::string& o, const FuncValuePack& p) {
  uint32_t n = p.count();
  for (uint32_t i = 0; i < n; i++) { if (i) o += ";"; put_fv(o, p[i]); }
}

static std::string func_detail_text(const FuncDetail& fd, bool with_cc) {
  std::string o;
  char b[256];
  if (with_cc) {
    const CallConv& cc = fd.call_conv();
    snprintf(b, sizeof(b), "cc=%u st=%u red=%u spill=%u nalign=%u flags=%u", unsigned(cc.id()), unsigned(cc.strategy()), cc.red_zone_size(),
             cc.spill_zone_size(), cc.natural_stack_alignment(), unsigned(cc.flags()));
    o += b;
    for (uint32_t g = 0; g < 4; g++) {
      o += " o" + std::to_string(g) + "=";
      for (uint32_t i = 0; i < 16; i++) { if (i) o += ","; o += std::to_string(unsigned(cc.passed_order(RegGroup(g))[i])); }
    }
    o += " passed=";
    for (uint32_t g = 0; g < 4; g++) { if (g) o += ","; o += std::to_string(cc.passed_regs(RegGroup(g))); }
    o += " pres=";
    for (uint32_t g = 0; g < 4; g++) { if (g) o += ","; o += std::to_string(cc.preserved_regs(RegGroup(g))); }
    o += " srs=";
    for (uint32_t g = 0; g < 4; g++) { if (g) o += ","; o += std::to_string(cc.save_restore_reg_size(RegGroup(g))); }
    o += " sra=";
    for (uint32_t g = 0; g < 4; g++) { if (g) o += ","; o += std::to_string(cc.save_restore_alignment(RegGroup(g))); }
    o += " ";
  }
  snprintf(b, sizeof(b), "stack=%u used=%u,%u,%u,%u ret=", fd.arg_stack_size(), fd.used_regs(RegGroup(0)), fd.used_regs(RegGroup(1)),
           fd.used_regs(RegGroup(2)), fd.used_regs(RegGroup(3)));
  o += b;
  put_pack(o, fd.ret_pack());
  o += " args=";
  for (uint32_t i = 0; i < fd.arg_count(); i++) { if (i) o += "|"; put_pack(o, fd.arg_pack(i)); }
  return o;
}

static void cmd_T() {
  std::string o = "T sizes=";
  for (uint32_t i = 0; i < 256; i++) { if (i) o += ","; o += std::to_string(TypeUtils::size_of(TypeId(i))); }
  char b[512];
  snprintf(b, sizeof(b), " rt=%u,%u,%u,%u,%u,%u,%u,%u,%u,%u flags=%u,%u,%u,%u,%u,%u,%u fv=%u,%u,%u max=%u,%u,%u",
           unsigned(RegType::kGp32), unsigned(RegType::kGp64), unsigned(RegType::kVec32), unsigned(RegType::kVec64), unsigned(RegType::kVec128),
           unsigned(RegType::kVec256), unsigned(RegType::kVec512), unsigned(RegType::kX86_Mm), unsigned(RegType::kX86_St), unsigned(RegType::kMask),
           unsigned(CallConvFlags::kCalleePopsStack), unsigned(CallConvFlags::kIndirectVecArgs), unsigned(CallConvFlags::kPassFloatsByVec),
           unsigned(CallConvFlags::kPassVecByStackIfVA), unsigned(CallConvFlags::kPassMmxByGp), unsigned(CallConvFlags::kPassMmxByXmm),
           unsigned(CallConvFlags::kVarArgCompatible),
           unsigned(CallConvStrategy::kX64Windows), unsigned(CallConvStrategy::kX64VectorCall), unsigned(CallConvStrategy::kAArch64Apple),
           unsigned(Globals::kMaxFuncArgs), unsigned(Globals::kMaxValuePack), unsigned(CallConv::kMaxRegArgsPerGroup));
  o += b;
  o += " ccid=";
  snprintf(b, sizeof(b), "%u,%u,%u,%u,%u,%u,%u,%u,%u,%u,%u,%u,%u", unsigned(CallConvId::kCDecl), unsigned(CallConvId::kStdCall), unsigned(CallConvId::kFastCall),
           unsigned(CallConvId::kVectorCall), unsigned(CallConvId::kThisCall), unsigned(CallConvId::kRegParm1), unsigned(CallConvId::kRegParm2),
           unsigned(CallConvId::kRegParm3), unsigned(CallConvId::kLightCall2), unsigned(CallConvId::kLightCall3), unsigned(CallConvId::kLightCall4),
           unsigned(CallConvId::kX64SystemV), unsigned(CallConvId::kX64Windows));
  o += b;
  o += " regtypeid=";       // RegUtils::type_id_of for the register types an assignment may name
  for (uint32_t rt = 0; rt < 32; rt++) { if (rt) o += ","; o += std::to_string(unsigned(RegUtils::type_id_of(RegType(rt)))); }
  o += " reggroup=";
  for (uint32_t rt = 0; rt < 32; rt++) { if (rt) o += ","; o += std::to_string(unsigned(RegUtils::group_of(RegType(rt)))); }
  puts(o.c_str());
}

static bool build_sig(std::vector<long>& v, size_t& pos, FuncSignature& sig, int cc, int va, int ret, int n) {
  sig.reset();
  sig.set_call_conv_id(CallConvId(cc));
  sig.set_va_index(uint32_t(va));
  sig.set_ret(TypeId(ret));
  if (n > 32) {
    // more arguments than FuncSignature can hold: FuncDetail::init must refuse (arg_count is an 8-bit field we set directly)
    sig._arg_count = uint8_t(n);
    pos += size_t(n);
    return true;
  }
  for (int i = 0; i < n; i++) sig.add_arg(TypeId(v[pos++]));
  return true;
}

static void cmd_F(std::vector<long>& v) {
  size_t pos = 0;
  int arch = int(v[pos++]), plat = int(v[pos++]), abi = int(v[pos++]), cc = int(v[pos++]), va = int(v[pos++]), ret = int(v[pos++]), n = int(v[pos++]);
  Environment env = make_env(arch, plat, abi);
  FuncSignature sig;
  build_sig(v, pos, sig, cc, va, ret, n);
  FuncDetail fd;
  Error e = fd.init(sig, env);
  if (e != Error::kOk) { printf("F err=%s\n", err_name(e)); return; }
  printf("F ok %s\n", func_detail_text(fd, true).c_str());
}

static std::string op_text(const Operand& op) {
  char b[128];
  if (op.is_reg()) {
    const Reg& r = op.as<Reg>();
    snprintf(b, sizeof(b), "r%u:%u", unsigned(r.reg_type()), r.id());
    return b;
  }
  if (op.is_mem()) {
    const BaseMem& m = op.as<BaseMem>();
    if (m.has_index() || !m.has_base_reg()) return "m?";
    snprintf(b, sizeof(b), "m%u:%u:%d", unsigned(op.signature().size()), m.base_id(), m.offset_lo32());
    return b;
  }
  if (op.is_imm()) { snprintf(b, sizeof(b), "i%lld", (long long)op.as<Imm>().value()); return b; }
  return "?";
}

static void cmd_S(std::vector<long>& v, const char* native_hex = nullptr) {
  size_t pos = 0;
  int arch = int(v[pos++]), plat = int(v[pos++]), abi = int(v[pos++]), cc = int(v[pos++]), va = int(v[pos++]), n = int(v[pos++]);
  Environment env = make_env(arch, plat, abi);
  FuncSignature sig;
  build_sig(v, pos, sig, cc, va, 0, n);
  int pfp = int(v[pos++]), avx = int(v[pos++]), avx512 = int(v[pos++]), lalign = int(v[pos++]), lsize = int(v[pos++]), sareg = int(v[pos++]);

  FuncDetail fd;
  Error e = fd.init(sig, env);
  if (e != Error::kOk) { printf("S err=detail:%s\n", err_name(e)); return; }
  FuncFrame frame;
  e = frame.init(fd);
  if (e != Error::kOk) { printf("S err=frame:%s\n", err_name(e)); return; }
  if (pfp) frame.set_preserved_fp();
  if (avx) frame.set_avx_enabled();
  if (avx512) frame.set_avx512_enabled();
  if (lalign) frame.set_local_stack_alignment(uint32_t(lalign));
  if (lsize) frame.set_local_stack_size(uint32_t(lsize));

  FuncArgsAssignment args(&fd);
  if (sareg >= 0) args.set_sa_reg_id(uint32_t(sareg));
  for (int i = 0; i < n && i < 32; i++) {
    int k = int(v[pos++]), rt = int(v[pos++]), id = int(v[pos++]), ty = int(v[pos++]), off = int(v[pos++]);
    if (k == 1) args.assign_reg(size_t(i), RegType(rt), uint32_t(id), TypeId(ty));
    else if (k == 2) args.assign_stack(size_t(i), off, TypeId(ty));
  }
  e = args.update_func_frame(frame);
  if (e != Error::kOk) { printf("S err=update:%s %s\n", err_name(e), func_detail_text(fd, false).c_str()); return; }
  e = frame.finalize();
  if (e != Error::kOk) { printf("S err=finalize:%s\n", err_name(e)); return; }

  CodeHolder code;
  code.init(env);
  std::string insts;
  Error ee;
  BaseBuilder* bb = nullptr;
  x86::Builder xb;
  a64::Builder ab;
  if (arch == 2) { code.attach(&ab); bb = &ab; } else { code.attach(&xb); bb = &xb; }
  ee = bb->emit_args_assignment(frame, args);
  for (BaseNode* node = bb->first_node(); node; node = node->next()) {
    if (!node->is_inst()) { insts += " ;node" + std::to_string(unsigned(node->type())); continue; }
    InstNode* in = node->as<InstNode>();
    String name;
    InstAPI::inst_id_to_string(env.arch(), in->inst_id(), InstStringifyOptions::kNone, name);
    insts += " ;";
    insts += name.data();
    if (unsigned(in->options()) != 0 || in->has_extra_reg()) insts += "!opt";
    for (const Operand& op : in->operands()) { insts += " "; insts += op_text(op); }
  }
  // the same assignment through an Assembler: machine code bytes (for the independent disassembler) and the error it reports
  std::string bytes;
  {
    CodeHolder code2;
    code2.init(env);
    x86::Assembler xa;
    a64::Assembler aa;
    BaseEmitter* be = nullptr;
    if (arch == 2) { code2.attach(&aa); be = &aa; } else { code2.attach(&xa); be = &xa; }
    Error e2 = be->emit_args_assignment(frame, args);
    bytes = std::string(" asm=") + err_name(e2) + " bytes=";
    Section* text = code2.text_section();
    const uint8_t* d = text->data();
    for (size_t i = 0; i < text->buffer_size(); i++) { char hx[4]; snprintf(hx, sizeof(hx), "%02x", d[i]); bytes += hx; }
    // X command: run the bytes on the host CPU from the given register / frame image
    // (arch 0: the caller has checked with llvm-mc that the i386 bytes decode to the same instructions in 64-bit mode)
    if (native_hex && arch <= 1 && e2 == Error::kOk) {
      std::vector<uint8_t> in, out(c06native::kBlob, 0);
      c06native::parse_hex(native_hex, in);
      if (in.size() == c06native::kBlob && c06native::host_ok()) {
        std::vector<uint8_t> sh(d, d + text->buffer_size());
        if (c06native::run(sh, in.data(), out.data())) bytes += " native=" + c06native::to_hex(out.data(), out.size());
        else bytes += " native=fail";
      }
      else bytes += " native=unavailable";
    }
  }
  char b[256];
  uint32_t sp_id = arch == 2 ? 31u : 4u;
  uint32_t sa_id = frame.sa_reg_id();
  snprintf(b, sizeof(b), "S %s%s sp=%u sareg=%u saoff_sp=%u saoff_sa=%u da=%u salign=%u dirty=%u,%u,%u,%u pres=%u,%u,%u,%u",
           ee == Error::kOk ? "ok" : "err=emit:", ee == Error::kOk ? "" : err_name(ee), sp_id, sa_id,
           frame.has_dynamic_alignment() ? 0u : frame.sa_offset_from_sp(), frame.sa_offset_from_sa(), frame.has_dynamic_alignment() ? 1u : 0u, frame.final_stack_alignment(),
           frame.dirty_regs(RegGroup(0)), frame.dirty_regs(RegGroup(1)), frame.dirty_regs(RegGroup(2)), frame.dirty_regs(RegGroup(3)),
           frame.preserved_regs(RegGroup(0)), frame.preserved_regs(RegGroup(1)), frame.preserved_regs(RegGroup(2)), frame.preserved_regs(RegGroup(3)));
  printf("%s %s%s insts=%s\n", b, func_detail_text(fd, false).c_str(), bytes.c_str(), insts.c_str());
}

int main() {
  std::string line;
  char buf[1 << 16];
  while (fgets(buf, sizeof(buf), stdin)) {
    char c = buf[0];
    std::vector<long> v;
    char* p = buf + 1;
    while (*p) {
      while (*p == ' ' || *p == '\n' || *p == '\r') p++;
      if (!*p) break;
      char* q;
      long x = strtol(p, &q, 10);
      if (q == p) break;
      v.push_back(x);
      p = q;
    }
    if (c == 'T') cmd_T();
    else if (c == 'F') { if (v.size() < 7 || (v[6] <= 32 && v.size() < size_t(7 + (v[6] > 0 ? v[6] : 0)))) puts("BAD"); else cmd_F(v); }
    else if (c == 'S') { v.resize(v.size() + 400, 0); cmd_S(v); }
    else if (c == 'I') {
      // I kind n (mode value)* : a Compiler-built caller passes immediates / virtual registers to a C callee of the host ABI; prints what it received
      std::vector<long long> w;
      { char* p2 = buf + 1; while (*p2) { while (*p2 == ' ' || *p2 == '\n') p2++; if (!*p2) break; char* q2; long long x = strtoll(p2, &q2, 10); if (q2 == p2) break; w.push_back(x); p2 = q2; } }
      if (w.size() < 2 || w.size() < size_t(2 + 2 * w[1])) { puts("BAD"); fflush(stdout); continue; }
      std::vector<int> mode; std::vector<int64_t> val;
      for (long long k = 0; k < w[1]; k++) { mode.push_back(int(w[2 + 2 * k])); val.push_back(int64_t(w[3 + 2 * k])); }
      std::string err = c06invoke::run(int(w[0]), mode, val);
      if (!err.empty()) printf("I err=%s\n", err.c_str());
      else { std::string o = "I ok"; for (int k = 0; k < c06invoke::g_cnt; k++) o += " " + std::to_string((long long)c06invoke::g_rec[k]); puts(o.c_str()); }
    }
    else if (c == 'K') {
      // K plat abi kind cnt (mode val)*cnt : AArch64 call site, bytes only
      std::vector<long long> w;
      { char* q = buf + 1; while (*q) { while (*q == ' ' || *q == '\n' || *q == '\r') q++; if (!*q) break; w.push_back(strtoll(q, &q, 10)); } }
      if (w.size() < 4 || (long long)w.size() < 4 + 2 * w[3]) { puts("BAD"); fflush(stdout); continue; }
      std::vector<int> mode; std::vector<int64_t> val;
      for (long long k = 0; k < w[3]; k++) { mode.push_back(int(w[4 + 2 * k])); val.push_back(int64_t(w[5 + 2 * k])); }
      std::string hex;
      std::string err = c06invoke::run_a64(int(w[2]), make_env(2, int(w[0]), int(w[1])), mode, val, hex);
      if (!err.empty()) printf("K err=%s\n", err.c_str());
      else printf("K ok bytes=%s\n", hex.c_str());
    }
    else if (c == 'X') {
      // same integers as S, then " H<hex image>" : additionally executes the emitted code natively (x86-64 host only)
      const char* h = strstr(buf, " H");
      v.resize(v.size() + 400, 0);
      cmd_S(v, h ? h + 2 : nullptr);
    }
    else if (c == '\n' || c == '#') continue;
    else puts("BAD");
    fflush(stdout);
  }
  return 0;
}
